"""C17 — the bundled JSON grammars and the three bundled calculators agree with independent
references.

JSON (examples/json/json.pest, tests/grammars/json.pest; interp / opt / gen / optgen)
  impl    the real parsers in the four execution modes, and examples/json/json_.py
  oracle  Python's `json` module and the property's own wording, evaluated here: a seeded
          generator of RFC 8259 *documents with their concrete syntax* (`Doc`: whitespace at
          every legal place, every number spelling, every escape, raw non-ASCII and astral
          characters, empty containers, duplicate names, nesting to depth 5, long strings) is
          rendered to text; the text must be accepted in every mode by both grammars, the tree
          must mirror `json.loads(text)` (same nesting and member order, number tokens equal
          as floats, string tokens equal to the raw source slices, which decode to the
          `json.loads` strings), every proper prefix (document written without trailing
          whitespace) must be rejected; texts the RFC forbids must be rejected (see `LENIENT`)
  model   lean/PestModel/Json.lean: `render` (vs the Python renderer) and `mirror` (vs the
          trees the implementation returns: exact, with spans), and the L0 specification of
          pest run on the *regenerated* grammar terms (`J accepts`, `J prefixes`): executable
          instances of the theorems `json_accepts_both` (proved for all documents in
          Props/C17.lean) and `json_rejects_prefix` (both proved for all documents in
          Props/C17.lean; the driver requests keep the compiled model and the theorems' reading in step)
Calculator (examples/calculator: prec_climber.py, pratt.py, grammar_encoded_prec.py)
  impl    the three implementations, imported from a scratch copy of the package whose
          generated parser modules are rebuilt from the current grammars and generator,
          called through their public entry points (and fed the pairs of the other three
          execution modes as well)
  oracle  an independent evaluator written from the documented precedence table ("split at
          the weakest operator"), values compared exactly (type and value, or the class of
          the exception), ASTs compared node for node
  model   lean/PestModel/Calc.lean (`K` requests): the ASTs of `precClimb`, `pratt`,
          `encoded`, `reference`, proved equal for all well-formed token lists
          (`C17.calc_three_agree`), compared with the real ASTs on every well-formed token
          list up to a length bound and on random longer ones
"""

from __future__ import annotations

import contextlib
import hashlib
import itertools
import json
import math
import multiprocessing as mp
import operator
import random
import subprocess
import sys
import time

import export_examples as EX
from common import DRIVER, LEAN, NCPU, REPO, WORK, Outcome, proof_coverage, proof_stage, run_driver, seed, use_repo

THEOREMS = [
    # ---- calculator: all well-formed token lists, unbounded (nothing OPEN)
    "Pest.C17.prattTable_levels",
    "Pest.C17.prattLevels_documented",
    "Pest.C17.climbTable_levels",
    "Pest.C17.climbLevels_documented",
    "Pest.C17.docLevels_documented",
    "Pest.C17.cwf_wf",
    "Pest.C17.levels_parse_eq_encoded",
    "Pest.C17.prattTree_eq_encodedTree",
    "Pest.C17.climb_eq_pratt_of_table",
    "Pest.C17.climbTree_eq_prattTree",
    "Pest.C17.refTree_spec",
    "Pest.C17.calc_trees_agree",
    "Pest.C17.implAt_eq_encoded",
    "Pest.C17.calc_three_agree",
    "Pest.C17.implAt_total",
    "Pest.C17.calc_total",
    "Pest.C17.calc_values_agree",
    "Pest.Calc.climbExpr_eq",
    "Pest.Calc.encodedTree_spec",
    "Pest.Calc.build_congr",
    "Pest.Calc.build_total",
    # ---- JSON, stage 1 (tokens), both bundled grammars
    "Pest.C17.render_length",
    "Pest.C17.examplesJson_number",
    "Pest.C17.examplesJson_string_rules",
    "Pest.C17.testsJson_number_rules",
    "Pest.C17.testsJson_string_rules",
    "Pest.C17.json_number_accepts",
    "Pest.C17.json_string_accepts",
    "Pest.C17.json_number_accepts_tests",
    "Pest.C17.json_string_accepts_tests",
    "Pest.Json.ev_exNumber",
    "Pest.Json.ev_exString",
    "Pest.Json.ev_tNumber",
    "Pest.Json.ev_tString",
    # ---- JSON, stages 2 and 3 (values, documents) for examples/json/json.pest
    "Pest.C17.examplesJson_rules",
    "Pest.C17.json_value_accepts",
    "Pest.C17.json_accepts",
    "Pest.Json.evSkip_ws",
    "Pest.Json.val_ok",
    "Pest.Json.parse_json_doc",
    # ---- JSON, stages 2 and 3 for tests/grammars/json.pest, and both together
    "Pest.C17.testsJson_rules",
    "Pest.C17.json_value_accepts_tests",
    "Pest.C17.json_accepts_tests",
    "Pest.C17.json_accepts_both",
    "Pest.Json.tval_ok",
    "Pest.Json.parse_tjson_doc",
    # ---- JSON, stage 4 (prefix rejection), both grammars
    "Pest.C17.json_rejects_prefix",
    "Pest.Json.ex_parse_prefix_fail",
    "Pest.Json.t_parse_prefix_fail",
    "Pest.Json.val_trunc",
    "Pest.Json.chain_fail",
    "Pest.Json.rep_trunc",
    "Pest.Json.num_trunc",
    "Pest.Json.ex_string_trunc",
    "Pest.Json.t_string_trunc",
    # ---- the four execution modes (models L1 / LG, plain and optimized tables) via C01 C02 C03 C07
    "Pest.C17.hyps_plain",
    "Pest.C17.hyps_opt",
    "Pest.C17.models_of_spec_ok",
    "Pest.C17.models_of_spec_fail",
    "Pest.C17.spec_to_opt",
    "Pest.C17.json_modes_accept",
    "Pest.C17.json_modes_reject_prefix",
]

MODES = ("interp", "opt", "gen", "optgen")
GRAMMARS = {"ex": "examples/json/json.pest", "test": "tests/grammars/json.pest"}

sys.setrecursionlimit(20000)


# =====================================================================================
#  the Lean side: `pestdriver` when it already routes K/J requests, otherwise the handler
#  is run from a scratch main (same compiled library, interpreted entry point)
# =====================================================================================

_SCRATCH_MAIN = """import PestModel.Drv.Examples
partial def loop (hin hout : IO.FS.Stream) : IO Unit := do
  let line ← hin.getLine
  if line.isEmpty then return ()
  let l := if line.endsWith "\\n" then (line.dropEnd 1).toString else line
  let toks := (l.splitOn " ").filter (· ≠ "")
  hout.putStrLn ((Drv.handleExamples toks).getD "bad-request")
  loop hin hout
def main : IO Unit := do
  loop (← IO.getStdin) (← IO.getStdout)
"""

_DRIVER_MODE: str | None = None


def _driver_mode() -> str:
    global _DRIVER_MODE
    if _DRIVER_MODE is None:
        ok = False
        if DRIVER.exists():
            with contextlib.suppress(Exception):
                ok = run_driver(["KW i1"]) == ["wf"]
        _DRIVER_MODE = "pestdriver" if ok else "scratch"
    return _DRIVER_MODE


def _sharded_driver(lines: list[str], shards: int, compiled: bool) -> list[str]:
    """run the request lines through `shards` driver processes (the compiled `pestdriver`, or the handler
    from a scratch main); one answer line per request"""
    import tempfile
    from pathlib import Path

    WORK.mkdir(exist_ok=True)
    shards = max(1, min(shards, len(lines)))
    size = (len(lines) + shards - 1) // shards
    out: list[str] = []
    with tempfile.TemporaryDirectory(dir=WORK, prefix="c17drv_") as td:
        main = Path(td) / "ExMain.lean"
        main.write_text(_SCRATCH_MAIN)
        procs = []
        for i in range(shards):
            chunk = lines[i * size:(i + 1) * size]
            if not chunk:
                continue
            fin = Path(td) / f"in{i}"
            fin.write_text("\n".join(chunk) + "\n")
            fh = open(fin)
            # answers go to files, not pipes: a full pipe would stall every shard but the one being read
            fo = open(Path(td) / f"out{i}", "w")
            cmd = [str(DRIVER)] if compiled else ["lake", "env", "lean", "--run", str(main)]
            p = subprocess.Popen(cmd, cwd=LEAN, stdin=fh, stdout=fo, stderr=subprocess.DEVNULL, text=True)
            procs.append((p, fh, fo, len(chunk), i))
        for p, fh, fo, n, i in procs:
            p.wait()
            fh.close()
            fo.close()
            got = (Path(td) / f"out{i}").read_text().split("\n")
            if got and got[-1] == "":
                got.pop()
            if p.returncode != 0 or len(got) != n:
                got = (got + ["driver-error"] * n)[:n]
            out.extend(got)
    return out


def lean(lines: list[str]) -> list[str]:
    """answers of the Lean model to K/KW/J request lines (spread round-robin over the cores: the
    specification runs `J accepts` / `J prefixes` dominate and come sorted by document length)"""
    if not lines:
        return []
    heavy = sum(1 for ln in lines if ln.startswith(("J accepts", "J prefixes")))
    shards = NCPU if (len(lines) > 2000 or heavy > 16) else 1
    shards = max(1, min(shards, len(lines)))
    # order[slot] = index of the request sent in that slot: a stride permutation, so that the contiguous
    # chunks the drivers are given mix short and long documents
    order = [i for k in range(shards) for i in range(k, len(lines), shards)]
    permuted = [lines[i] for i in order]
    got = _sharded_driver(permuted, shards, compiled=_driver_mode() == "pestdriver")
    out = [""] * len(lines)
    for slot, i in enumerate(order):
        out[i] = got[slot]
    return out


# =====================================================================================
#  JSON: documents with their concrete syntax
# =====================================================================================
# ws   : a str over " \t\n\r"
# val  : ("null",) ("true",) ("false",)
#        ("N", neg: bool, int: str, frac: str|None, exp: (E: str, sign: "n"|"p"|"m", digits: str)|None)
#        ("S", chars)        chars: list of ("r", cp) | ("e", letter) | ("u", "XXXX")
#        ("A0", ws) ("A", [(ws, val, ws), …]) ("O0", ws) ("O", [(ws, chars, ws, ws, val, ws), …])
# doc  : (ws, val, ws)

WS_CHARS = " \t\n\r"
WS_CODE = {" ": "s", "\t": "t", "\n": "n", "\r": "r"}
ESC_TEXT = {"q": '"', "k": "\\", "s": "/", "b": "b", "f": "f", "n": "n", "r": "r", "t": "t"}
ESC_VALUE = {"q": '"', "k": "\\", "s": "/", "b": "\b", "f": "\f", "n": "\n", "r": "\r", "t": "\t"}


def chars_text(chars) -> str:
    out = []
    for c in chars:
        if c[0] == "r":
            out.append(chr(c[1]))
        elif c[0] == "e":
            out.append("\\" + ESC_TEXT[c[1]])
        else:
            out.append("\\u" + c[1])
    return "".join(out)


def num_text(v) -> str:
    _, neg, it, fr, ex = v
    s = ("-" if neg else "") + it
    if fr is not None:
        s += "." + fr
    if ex is not None:
        s += ex[0] + {"n": "", "p": "+", "m": "-"}[ex[1]] + ex[2]
    return s


def val_text(v) -> str:
    k = v[0]
    if k in ("null", "true", "false"):
        return k
    if k == "N":
        return num_text(v)
    if k == "S":
        return '"' + chars_text(v[1]) + '"'
    if k == "A0":
        return "[" + v[1] + "]"
    if k == "O0":
        return "{" + v[1] + "}"
    if k == "A":
        return "[" + ",".join(w1 + val_text(x) + w2 for w1, x, w2 in v[1]) + "]"
    return "{" + ",".join(w1 + '"' + chars_text(key) + '"' + w2 + ":" + w3 + val_text(x) + w4
                          for w1, key, w2, w3, x, w4 in v[1]) + "}"


def doc_text(d) -> str:
    return d[0] + val_text(d[1]) + d[2]


def enc_ws(w: str) -> str:
    return "w" + ("".join(WS_CODE[c] for c in w) or "-")


def enc_chars(chars) -> str:
    if not chars:
        return "-"
    return ",".join(("r%d" % c[1]) if c[0] == "r" else c[0] + c[1] for c in chars)


def enc_val(v) -> str:
    k = v[0]
    if k in ("null", "true", "false"):
        return k
    if k == "N":
        _, neg, it, fr, ex = v
        return f"N {int(neg)} {it} {fr if fr is not None else '-'} {(ex[0] + ex[1] + ex[2]) if ex else '-'}"
    if k == "S":
        return "S " + enc_chars(v[1])
    if k in ("A0", "O0"):
        return f"{k} {enc_ws(v[1])}"
    if k == "A":
        return f"A {len(v[1])} " + " ".join(f"{enc_ws(w1)} {enc_val(x)} {enc_ws(w2)}" for w1, x, w2 in v[1])
    return f"O {len(v[1])} " + " ".join(
        f"{enc_ws(w1)} {enc_chars(key)} {enc_ws(w2)} {enc_ws(w3)} {enc_val(x)} {enc_ws(w4)}"
        for w1, key, w2, w3, x, w4 in v[1])


def enc_doc(d) -> str:
    return f"{enc_ws(d[0])} {enc_val(d[1])} {enc_ws(d[2])}"


def enc_cps(t: str) -> str:
    return ".".join(str(ord(c)) for c in t) if t else "-"


class JObj(list):
    """members of an object in source order, duplicates kept (object_pairs_hook)"""


def loads(text: str):
    """RFC 8259 reading of `json.loads` (no NaN / Infinity); members kept as a list of pairs"""
    def no_const(name):
        raise ValueError("not JSON: " + name)
    return json.loads(text, object_pairs_hook=JObj, parse_constant=no_const)


def chars_value(chars) -> str:
    """the string a sequence of string characters denotes; surrogate pairs written as two \\u escapes combine
    (as in json.loads)"""
    out: list[str] = []
    i = 0
    while i < len(chars):
        c = chars[i]
        if c[0] == "r":
            out.append(chr(c[1]))
        elif c[0] == "e":
            out.append(ESC_VALUE[c[1]])
        else:
            u = int(c[1], 16)
            if 0xD800 <= u <= 0xDBFF and i + 1 < len(chars) and chars[i + 1][0] == "u":
                u2 = int(chars[i + 1][1], 16)
                if 0xDC00 <= u2 <= 0xDFFF:
                    u = 0x10000 + ((u - 0xD800) << 10) + (u2 - 0xDC00)
                    i += 1
            out.append(chr(u))
        i += 1
    return "".join(out)


def doc_value(v):
    """the value a `val` denotes (independent of its text), in the shape `loads` returns"""
    k = v[0]
    if k == "null":
        return None
    if k in ("true", "false"):
        return k == "true"
    if k == "N":
        _, neg, it, fr, ex = v
        if fr is None and ex is None:
            return int(("-" if neg else "") + it)
        return float(num_text(v))
    if k == "S":
        return chars_value(v[1])
    if k == "A0":
        return []
    if k == "O0":
        return JObj()
    if k == "A":
        return [doc_value(x) for _, x, _ in v[1]]
    return JObj((chars_value(key), doc_value(x)) for _, key, _, _, x, _ in v[1])


def same_value(a, b) -> bool:
    if type(a) is not type(b):
        return False
    if isinstance(a, JObj):
        return len(a) == len(b) and all(k1 == k2 and same_value(v1, v2) for (k1, v1), (k2, v2) in zip(a, b))
    if isinstance(a, list):
        return len(a) == len(b) and all(same_value(x, y) for x, y in zip(a, b))
    return a == b


# ---------------------------------------------------------------- generator

RAW_POOL = (
    [0x20, 0x21, 0x23, 0x2F, 0x5B, 0x5D, 0x7E, 0x7F, 0x80, 0xA0, 0xE9, 0xFF, 0x100, 0x3A9, 0x2028, 0x2029,
     0x6F22, 0xD7FF, 0xE000, 0xFEFF, 0xFFFD, 0xFFFF, 0x10000, 0x1F600, 0x10FFFF]
    + [ord(c) for c in "abcxyz019 {}[]:,'etnu-+.E"]
    # letters whose case mappings change the length of a text or leave ASCII (the exponent marker of json.pest is ^"e")
    + [0xDF, 0x1E9E, 0xFB01, 0x130, 0x131, 0x212A, 0x17F, 0x149, 0x390, 0xDF, 0x130, 0xFB01]
)


def gen_ws(rng: random.Random, p: float = 0.45) -> str:
    if rng.random() > p:
        return ""
    return "".join(rng.choice(WS_CHARS) for _ in range(rng.choice((1, 1, 1, 2, 3))))


def gen_hex4(rng: random.Random) -> str:
    r = rng.random()
    if r < 0.15:
        v = rng.choice((0, 0x1F, 0x22, 0x5C, 0x2F, 0x7F, 0xD800, 0xDBFF, 0xDC00, 0xDFFF, 0xFFFF))
    else:
        v = rng.randrange(0x10000)
    s = "%04x" % v
    return "".join(ch.upper() if rng.random() < 0.5 else ch for ch in s)


def gen_chars(rng: random.Random, long_ok: bool = True):
    r = rng.random()
    if r < 0.12:
        n = 0
    elif r < 0.9 or not long_ok:
        n = rng.randrange(1, 7)
    elif r < 0.985:
        n = rng.randrange(20, 80)
    else:
        n = rng.randrange(300, 1500)
    out = []
    for _ in range(n):
        q = rng.random()
        if q < 0.55:
            cp = rng.choice(RAW_POOL) if rng.random() < 0.8 else rng.randrange(0x20, 0x110000)
            if cp in (0x22, 0x5C) or 0xD800 <= cp <= 0xDFFF:
                cp = 0x61
            out.append(("r", cp))
        elif q < 0.8:
            out.append(("e", rng.choice("qksbfnrt")))
        elif q < 0.95:
            out.append(("u", gen_hex4(rng)))
        else:                                 # a surrogate pair written as two escapes
            out.append(("u", "%04x" % rng.randrange(0xD800, 0xDC00)))
            out.append(("u", "%04X" % rng.randrange(0xDC00, 0xE000)))
    return out


def gen_digits(rng: random.Random, lo: int = 1) -> str:
    n = rng.choice((lo, lo, 1, 2, 3, 5)) if rng.random() < 0.95 else rng.randrange(10, 25)
    n = max(lo, n)
    return "".join(rng.choice("0123456789") for _ in range(n))


def gen_num(rng: random.Random):
    neg = rng.random() < 0.35
    if rng.random() < 0.3:
        it = "0"
    else:
        it = rng.choice("123456789") + (gen_digits(rng, 0) if rng.random() < 0.6 else "")
        if rng.random() < 0.5:
            it = it[: rng.randrange(1, 4)]
    fr = gen_digits(rng) if rng.random() < 0.45 else None
    ex = None
    if rng.random() < 0.4:
        digits = gen_digits(rng) if rng.random() < 0.3 else str(rng.randrange(0, 40)).rjust(rng.choice((1, 1, 2, 3)), "0")
        ex = (rng.choice("eE"), rng.choice("npm"), digits)
    return ("N", neg, it, fr, ex)


def gen_val(rng: random.Random, depth: int, budget: list):
    budget[0] -= 1
    r = rng.random()
    if depth <= 0 or budget[0] <= 0 or r < 0.42:
        q = rng.random()
        if q < 0.1:
            return ("null",)
        if q < 0.2:
            return ("true",)
        if q < 0.3:
            return ("false",)
        if q < 0.65:
            return gen_num(rng)
        return ("S", gen_chars(rng))
    return gen_container(rng, depth, budget)


def gen_container(rng: random.Random, depth: int, budget: list):
    r = rng.random()
    if r < 0.12:
        return ("A0", gen_ws(rng))
    if r < 0.24:
        return ("O0", gen_ws(rng))
    n = rng.choice((1, 1, 2, 2, 3, 4, 6))
    if r < 0.62:
        return ("A", [(gen_ws(rng), gen_val(rng, depth - 1, budget), gen_ws(rng)) for _ in range(n)])
    keys = [gen_chars(rng, long_ok=False) for _ in range(n)]
    if n > 1 and rng.random() < 0.3:
        keys[-1] = keys[0]                                   # duplicate name
    return ("O", [(gen_ws(rng), key, gen_ws(rng), gen_ws(rng), gen_val(rng, depth - 1, budget), gen_ws(rng))
                  for key in keys])


def gen_doc(rng: random.Random, max_depth: int = 5, trailing: bool = True, size: int = 40):
    depth = rng.randrange(1, max_depth + 1)
    v = gen_container(rng, depth, [size])
    return (gen_ws(rng), v, gen_ws(rng) if trailing else "")


def deep_doc(rng: random.Random, depth: int):
    """a document that really nests `depth` containers"""
    v = rng.choice((("A0", ""), ("O0", " "), gen_num(rng), ("S", gen_chars(rng, False))))
    for _ in range(depth):
        if rng.random() < 0.5:
            v = ("A", [(gen_ws(rng), v, gen_ws(rng))] + ([(gen_ws(rng), ("null",), "")] if rng.random() < 0.3 else []))
        else:
            v = ("O", [(gen_ws(rng), gen_chars(rng, False), gen_ws(rng), gen_ws(rng), v, gen_ws(rng))])
    return ("", v, "")


# ---------------------------------------------------------------- the implementation side

class JsonCtx:
    """both bundled grammars in the four execution modes"""

    def __init__(self) -> None:
        import pyside

        self.parse: dict[tuple[str, str], object] = {}
        self.load_error: dict[str, str] = {}
        for g, rel in GRAMMARS.items():
            text = (REPO / rel).read_text(encoding="utf-8")
            try:
                unopt = pyside.make_parser(text, optimizer=None)
                opt = pyside.Parser.from_grammar(text)
                self.parse[g, "interp"] = unopt.parse
                self.parse[g, "opt"] = opt.parse
                self.parse[g, "gen"] = pyside.load_generated(unopt.generate()).parse
                self.parse[g, "optgen"] = pyside.load_generated(opt.generate()).parse
            except Exception as e:  # noqa: BLE001
                self.load_error[g] = f"{type(e).__name__}: {e}"[:300]


JCTX: JsonCtx | None = None
JSON_EXAMPLE = None        # examples.json.json_ of the scratch copy


def run_mode(g: str, mode: str, text: str):
    """-> ("ok", Pairs) | ("fail", None) | ("exc", name)"""
    from pest.exceptions import PestParsingError

    try:
        return "ok", JCTX.parse[g, mode]("json", text)
    except PestParsingError:
        return "fail", None
    except Exception as e:  # noqa: BLE001
        return "exc", type(e).__name__


def enc_pairs(pairs) -> str:
    import pyside

    return pyside.enc_pairs(pairs)


def tree_defect(g: str, pairs, text: str, value) -> str | None:  # noqa: PLR0911, PLR0912
    """the property's wording on one returned tree: None, or what does not mirror json.loads"""
    top = list(pairs)
    if g == "ex":
        if len(top) != 2 or top[1].name != "EOI":
            return f"top level is {[p.name for p in top]}, expected [array|object, EOI]"
        root = top[0]
    else:
        if len(top) != 1 or top[0].name != "json":
            return f"top level is {[p.name for p in top]}, expected [json]"
        ch = list(top[0].children)
        if len(ch) != 2 or ch[1].name != "EOI":
            return f"json has children {[p.name for p in ch]}, expected [value, EOI]"
        root = ch[0]

    def walk(p, v, path: str) -> str | None:  # noqa: PLR0911, PLR0912
        if g == "test":
            if p.name != "value" or len(p.children) != 1:
                return f"{path}: expected a value pair with one child, got {p.name} with {len(p.children)}"
            p = p.children[0]
        if text[p.start:p.end] != p.text:
            return f"{path}: pair text is not its span of the source"
        if isinstance(v, JObj):
            if p.name != "object":
                return f"{path}: expected object, got {p.name}"
            members = list(p.children)
            if len(members) != len(v):
                return f"{path}: object has {len(members)} members, json.loads has {len(v)}"
            for i, (m, (key, val)) in enumerate(zip(members, v)):
                if m.name != "pair" or len(m.children) != 2:
                    return f"{path}.{i}: expected pair[string, value], got {m.name} with {len(m.children)} children"
                d = string_defect(m.children[0], key, f"{path}.{i}.name")
                if d:
                    return d
                d = walk(m.children[1], val, f"{path}.{i}")
                if d:
                    return d
            return None
        if isinstance(v, list):
            if p.name != "array":
                return f"{path}: expected array, got {p.name}"
            items = list(p.children)
            if len(items) != len(v):
                return f"{path}: array has {len(items)} items, json.loads has {len(v)}"
            for i, (c, x) in enumerate(zip(items, v)):
                d = walk(c, x, f"{path}[{i}]")
                if d:
                    return d
            return None
        if isinstance(v, str):
            return string_defect(p, v, path)
        if isinstance(v, bool):
            want = "boolean" if g == "ex" else "bool"
            if p.name != want or p.text != ("true" if v else "false") or p.children:
                return f"{path}: expected {want} {v}, got {p.name} {p.text!r}"
            return None
        if v is None:
            if p.name != "null" or p.text != "null" or p.children:
                return f"{path}: expected null, got {p.name} {p.text!r}"
            return None
        if p.name != "number" or p.children:
            return f"{path}: expected a number token, got {p.name}"
        try:
            if float(p.text) != float(v):
                return f"{path}: number token {p.text!r} is {float(p.text)!r}, json.loads gives {v!r}"
        except (ValueError, OverflowError) as e:
            return f"{path}: number token {p.text!r}: {type(e).__name__}"
        return None

    def string_defect(p, v: str, path: str) -> str | None:
        if p.name != "string":
            return f"{path}: expected string, got {p.name}"
        whole = text[p.start:p.end]
        if len(whole) < 2 or whole[0] != '"' or whole[-1] != '"':
            return f"{path}: string pair does not span a quoted string: {whole[:30]!r}"
        if g == "ex":
            if len(p.children) != 1 or p.children[0].name != "inner" or p.children[0].children:
                return f"{path}: string has children {[c.name for c in p.children]}, expected [inner]"
            inner = p.children[0]
            if (inner.start, inner.end) != (p.start + 1, p.end - 1):
                return f"{path}: inner spans {inner.start}..{inner.end}, the quotes are at {p.start} and {p.end - 1}"
            raw = inner.text
        else:
            if p.children:
                return f"{path}: atomic string has children {[c.name for c in p.children]}"
            raw = p.text[1:-1]
        if raw != whole[1:-1]:
            return f"{path}: string token {raw[:30]!r} is not the raw source slice {whole[1:-1][:30]!r}"
        try:
            dec = json.loads('"' + raw + '"')
        except ValueError:
            return f"{path}: raw slice {raw[:30]!r} is not a JSON string body"
        if dec != v:
            return f"{path}: raw slice decodes to {dec[:30]!r}, json.loads gives {v[:30]!r}"
        return None

    return walk(root, value, "$")


def example_ast_defect(text: str, value) -> str | None:
    """examples/json/json_.py `parse_json_file` against json.loads (same wording, on its AST)"""
    m = JSON_EXAMPLE
    if m is None:
        return None
    try:
        ast = m.parse_json_file(text)
    except Exception as e:  # noqa: BLE001
        return f"parse_json_file raised {type(e).__name__}"
    A = sys.modules[m.__name__.rsplit(".", 1)[0] + "._ast"]

    def walk(a, v, path):  # noqa: PLR0911
        if isinstance(v, JObj):
            if not isinstance(a, A.JSONObject) or len(a.items) != len(v):
                return f"{path}: expected an object with {len(v)} members"
            for i, ((k, x), (key, val)) in enumerate(zip(a.items, v)):
                try:
                    if json.loads('"' + k + '"') != key:
                        return f"{path}.{i}: name {k[:30]!r} does not decode to {key[:30]!r}"
                except ValueError:
                    return f"{path}.{i}: name {k[:30]!r} is not a JSON string body"
                d = walk(x, val, f"{path}.{i}")
                if d:
                    return d
            return None
        if isinstance(v, list):
            if not isinstance(a, A.JSONArray) or len(a.items) != len(v):
                return f"{path}: expected an array with {len(v)} items"
            for i, (x, y) in enumerate(zip(a.items, v)):
                d = walk(x, y, f"{path}[{i}]")
                if d:
                    return d
            return None
        if isinstance(v, str):
            try:
                ok = isinstance(a, A.JSONString) and json.loads('"' + a.s + '"') == v
            except ValueError:
                ok = False
            return None if ok else f"{path}: expected the string {v[:30]!r}"
        if isinstance(v, bool):
            return None if isinstance(a, A.JSONBool) and a.b is v else f"{path}: expected {v}"
        if v is None:
            return None if isinstance(a, A.JSONNull) else f"{path}: expected null"
        return None if isinstance(a, A.JSONNumber) and a.n == float(v) else f"{path}: expected the number {v!r}"

    return walk(ast, value, "$")


def json_accept_problems(text: str, grammars=("ex", "test"), modes=MODES) -> list[dict]:
    """the acceptance half of the property on one text (which must be an RFC 8259 document whose top level
    is an array or object)"""
    value = loads(text)
    out = []
    for g in grammars:
        for mode in modes:
            st, res = run_mode(g, mode, text)
            if st != "ok":
                out.append({"grammar": GRAMMARS[g], "mode": mode, "what": "valid document not accepted",
                            "observed": "PestParsingError" if st == "fail" else res, "expected": "a parse tree"})
                continue
            d = tree_defect(g, res, text, value)
            if d:
                out.append({"grammar": GRAMMARS[g], "mode": mode, "what": "tree does not mirror json.loads",
                            "observed": d, "expected": "same nesting and member order, equal numbers, raw string slices"})
    return out


def prefix_problems(text: str, lengths, grammars=("ex", "test"), modes=MODES) -> list[dict]:
    out = []
    for g in grammars:
        for mode in modes:
            for k in lengths:
                st, res = run_mode(g, mode, text[:k])
                if st != "fail":
                    out.append({"grammar": GRAMMARS[g], "mode": mode, "what": "proper prefix not rejected",
                                "prefix_length": k, "prefix": text[:k][-60:],
                                "observed": "accepted" if st == "ok" else res, "expected": "PestParsingError"})
                    break
    return out


# ---------------------------------------------------------------- texts RFC 8259 forbids

# What the bundled grammars accept beyond the RFC *as written* (both copied from pest / the pest
# book); the property's wording (every valid document accepted, every proper prefix rejected) does
# not speak about these, so they are recorded, not reported:
LENIENT = {
    "ex": {"ctrl": True, "bare_dot": True, "scalar_top": False},
    "test": {"ctrl": True, "bare_dot": False, "scalar_top": True},
}
STRICT = {"ctrl": False, "bare_dot": False, "scalar_top": True}


class Recogniser:
    """RFC 8259, section by section, with the three switches of `LENIENT`"""

    def __init__(self, text: str, ctrl: bool, bare_dot: bool, scalar_top: bool):
        self.t, self.ctrl, self.bare_dot, self.scalar_top = text, ctrl, bare_dot, scalar_top

    def ws(self, i: int) -> int:
        t = self.t
        while i < len(t) and t[i] in WS_CHARS:
            i += 1
        return i

    def accepts(self) -> bool:
        i = self.ws(0)
        if not self.scalar_top and (i >= len(self.t) or self.t[i] not in "[{"):
            return False
        j = self.value(i, 0)
        return j is not None and self.ws(j) == len(self.t)

    def value(self, i: int, depth: int):  # noqa: PLR0911, PLR0912
        t = self.t
        if i >= len(t) or depth > 400:
            return None
        c = t[i]
        if c == "[":
            i = self.ws(i + 1)
            if i < len(t) and t[i] == "]":
                return i + 1
            while True:
                i = self.value(self.ws(i), depth + 1)
                if i is None:
                    return None
                i = self.ws(i)
                if i < len(t) and t[i] == ",":
                    i += 1
                    continue
                return i + 1 if i < len(t) and t[i] == "]" else None
        if c == "{":
            i = self.ws(i + 1)
            if i < len(t) and t[i] == "}":
                return i + 1
            while True:
                i = self.ws(i)
                i = self.string(i)
                if i is None:
                    return None
                i = self.ws(i)
                if i >= len(t) or t[i] != ":":
                    return None
                i = self.value(self.ws(i + 1), depth + 1)
                if i is None:
                    return None
                i = self.ws(i)
                if i < len(t) and t[i] == ",":
                    i += 1
                    continue
                return i + 1 if i < len(t) and t[i] == "}" else None
        if c == '"':
            return self.string(i)
        for lit in ("true", "false", "null"):
            if t.startswith(lit, i):
                return i + len(lit)
        return self.number(i)

    def string(self, i: int):
        t = self.t
        if i >= len(t) or t[i] != '"':
            return None
        i += 1
        while i < len(t):
            c = t[i]
            if c == '"':
                return i + 1
            if c == "\\":
                if i + 1 >= len(t):
                    return None
                e = t[i + 1]
                if e in '"\\/bfnrt':
                    i += 2
                elif e == "u" and i + 6 <= len(t) and all(h in "0123456789abcdefABCDEF" for h in t[i + 2:i + 6]):
                    i += 6
                else:
                    return None
            elif ord(c) < 0x20 and not self.ctrl:
                return None
            else:
                i += 1
        return None

    def number(self, i: int):
        t, n = self.t, len(self.t)
        if i < n and t[i] == "-":
            i += 1
        if i < n and t[i] == "0":
            i += 1
        elif i < n and t[i] in "123456789":
            while i < n and t[i] in "0123456789":
                i += 1
        else:
            return None
        if i < n and t[i] == ".":
            j = i + 1
            while j < n and t[j] in "0123456789":
                j += 1
            if j > i + 1 or self.bare_dot:
                i = j
            else:
                return i          # the number ends before the dot (the caller then fails on the dot)
        if i < n and t[i] in "eE":
            j = i + 1
            if j < n and t[j] in "+-":
                j += 1
            k = j
            while k < n and t[k] in "0123456789":
                k += 1
            if k > j:
                i = k
        return i


def rfc_accepts(text: str) -> bool:
    return Recogniser(text, **STRICT).accepts()


def lenient_accepts(g: str, text: str) -> bool:
    return Recogniser(text, **LENIENT[g]).accepts()


def json_module_accepts(text: str) -> bool:
    try:
        loads(text)
        return True
    except (ValueError, RecursionError):
        return False


FIXED_NEGATIVES = [
    "", " ", "[", "]", "{", "}", "[]]", "[[]", "{}}", "[}", "{]", "[,]", "[1,]", "[,1]", "[1,,2]", "[1 2]",
    '{"a":1,}', '{,"a":1}', '{"a"}', '{"a":}', '{"a" 1}', '{:1}', "{a:1}", "{'a':1}", '{"a":1 "b":2}', '{1:2}',
    "['a']", "[']", '["a]', '["a', '["\\"]', '["\\x41"]', '["\\u12"]', '["\\u12G4"]', '["\\U0041"]', '["\\a"]',
    '["\\ "]', '["\\', '["a"b"]', '["\\u00e9', '["\\u00e', '["\\ud800\\"]',
    "[01]", "[00]", "[-01]", "[.5]", "[-.5]", "[-]", "[+1]", "[1e]", "[1e+]", "[1E-]", "[1e1.5]",
    "[0x10]", "[1_000]", "[\u0661]", "[\uff11]", "[- 1]", "[1 .5]", "[1. 5]", "[1 e5]", "[--1]", "[1..2]", "[1.2.3]",
    "[NaN]", "[Infinity]", "[-Infinity]", "[nan]", "[inf]",
    "[True]", "[TRUE]", "[False]", "[Null]", "[nul]", "[tru]", "[truee]", "[nulll]", "[t rue]", "[undefined]",
    "[] []", "[]{}", "[] x", "[],", "[]\x00", "\ufeff[]", "[]\ufeff", "[\xa0]", "[\u2003]", "[\x0b]", "[\x0c]",
    "[\u2028]", "[\x85]",
    "[1]//c", "[1/*c*/]", "[/**/]", "// c\n[]", "#\n[]",
    '{"a":1}}', '{"a":1}{', "[[[[]]]", "[[[]]]]", '{"a":{"b":}}', '{"a":[}]', '[{"a":1]}',
    '["a",]', '[1,2', '{"a":1', '{"a":[1,2}',
    # leniencies of the bundled grammars (recorded, not reported; see LENIENT)
    "[1.]", "[-0.]", "[1.e5]", "[1.E+2]", '["\t"]', '["a\nb"]', '["\x00"]', '["\x1f"]', '{"\r":1}',
    # scalar documents: valid JSON texts, outside the property (top level array or object only)
    "1", '"a"', "true", "null", " 1 ", "-0.5e3",
    # valid documents (must be accepted)
    "[ ]", "{ }", " [\t]\n", '{"a":[1,{"b":null}]}', "[-0]", "[0e0]", "[1E+0]", '["\\u0000"]', '["\\/"]',
]


def mutate_text(rng: random.Random, text: str) -> str:
    """a small edit of a valid document; most results are not JSON any more"""
    if not text:
        return "]"
    r = rng.random()
    i = rng.randrange(len(text))
    pool = '[]{}:,"\\0123456789.eE+-tfn \t\n\'/*x\x00\x1f\x7f u'
    if r < 0.3:
        return text[:i] + text[i + 1:]
    if r < 0.6:
        return text[:i] + rng.choice(pool) + text[i:]
    if r < 0.85:
        return text[:i] + rng.choice(pool) + text[i + 1:]
    if r < 0.93:
        j = rng.randrange(len(text))
        a, b = min(i, j), max(i, j)
        return text[:a] + text[b:]
    return text + rng.choice(pool)


def negative_problems(text: str, grammars=("ex", "test"), modes=MODES) -> tuple[list[dict], str]:
    """a text that is *not* RFC 8259 must not be accepted, except where `LENIENT` says the grammar (as
    copied from pest) is laxer.  Returns (problems, classification)."""
    strict = rfc_accepts(text)
    if strict != json_module_accepts(text):
        return [{"inconsistent": f"the harness's RFC 8259 recogniser says {strict}, the json module says "
                                 f"{not strict} on {text[:80]!r}"}], "inconsistent"
    if strict:
        return [], "valid"
    out, cls = [], "invalid"
    for g in grammars:
        if lenient_accepts(g, text):
            cls = "lenient"
            continue
        for mode in modes:
            st, res = run_mode(g, mode, text)
            if st != "fail":
                out.append({"grammar": GRAMMARS[g], "mode": mode, "what": "text that is not RFC 8259 JSON is not rejected",
                            "observed": "accepted" if st == "ok" else res, "expected": "PestParsingError"})
    return out, cls


# =====================================================================================
#  Calculator
# =====================================================================================
# a token: "i<n>" "v<name>" "neg" "fac" "add" "sub" "mul" "div" "pow" or ("paren", [tokens])

OP_TEXT = {"neg": "-", "fac": "!", "add": "+", "sub": "-", "mul": "*", "div": "/", "pow": "^"}
INFIX = ("add", "sub", "mul", "div", "pow")
CALC_WS = (" ", " ", "  ", "\t", "\n", "\r\n", "\r", " \t ")

# The documented table (header of examples/calculator/grammar_encoded_prec.pest; the pest book's
# PrattParser for the same grammar lists the same order): lowest → highest
#   1. + -   2. * /   3. ^ (right-associative)   4. prefix -   5. postfix !   6. primary
DOC_LEVEL = {"add": 1, "sub": 1, "mul": 2, "div": 2, "pow": 3}
DOC_RIGHT = {"pow"}


def toks_text(toks, rng: random.Random | None = None) -> str:
    def sp() -> str:
        if rng is None:
            return " "
        r = rng.random()
        return "" if r < 0.4 else rng.choice(CALC_WS)

    def one(t) -> str:
        if isinstance(t, tuple):
            return "(" + sp() + go(t[1]) + sp() + ")"
        if t[0] == "i":
            return t[1:]
        if t[0] == "v":
            return t[1:]
        return OP_TEXT[t]

    def go(ts) -> str:
        return "".join(one(t) + (sp() if i + 1 < len(ts) else "") for i, t in enumerate(ts))

    return (sp() if rng else "") + go(toks) + (sp() if rng else "")


def toks_enc(toks) -> str:
    out = []
    for t in toks:
        if isinstance(t, tuple):
            out.append("( " + toks_enc(t[1]) + " )")
        else:
            out.append(t)
    return " ".join(out)


def toks_dec(s: str):
    def go(items, i, top):
        out = []
        while i < len(items):
            x = items[i]
            if x == ")":
                return out, i + 1
            if x == "(":
                inner, i = go(items, i + 1, False)
                out.append(("paren", inner))
            else:
                out.append(x)
                i += 1
        return out, i
    return go(s.split(), 0, True)[0]


def is_prim(t) -> bool:
    return isinstance(t, tuple) or t[0] in "iv"


class Guard(Exception):
    """the reference evaluation would build a number too large to be worth comparing"""


def ref_ast(toks):
    """the AST the documented table demands, by splitting at the weakest operator.  Roles are by
    position: where an operand is expected `neg` is the prefix operator."""
    # top-level infix operators: an operator token met while an operator is expected
    expect_operand, infix_at = True, []
    for i, t in enumerate(toks):
        if expect_operand:
            if t == "neg":
                continue
            assert is_prim(t), toks
            expect_operand = False
        elif t == "fac":
            continue
        else:
            assert t in INFIX, toks
            infix_at.append(i)
            expect_operand = True
    assert toks and not expect_operand, toks
    if infix_at:
        weakest = min(DOC_LEVEL[toks[i]] for i in infix_at)
        cands = [i for i in infix_at if DOC_LEVEL[toks[i]] == weakest]
        # operators of one level share their associativity
        i = cands[0] if toks[cands[0]] in DOC_RIGHT else cands[-1]
        return (toks[i], ref_ast(toks[:i]), ref_ast(toks[i + 1:]))
    # neg* primary fac*: postfix binds tighter than prefix
    n_neg = 0
    while toks[n_neg] == "neg":
        n_neg += 1
    p = toks[n_neg]
    if isinstance(p, tuple):
        a = ref_ast(p[1])
    elif p[0] == "i":
        a = ("int", int(p[1:]))
    else:
        a = ("var", p[1:])
    for _ in toks[n_neg + 1:]:
        a = ("fac", a)
    for _ in range(n_neg):
        a = ("neg", a)
    return a


def ref_eval(a, env):  # noqa: PLR0911, PLR0912
    k = a[0]
    if k == "int":
        return a[1]
    if k == "var":
        return env[a[1]]
    if k == "neg":
        return -ref_eval(a[1], env)
    if k == "fac":
        v = ref_eval(a[1], env)
        if isinstance(v, int) and v > 400:
            raise Guard
        return math.factorial(v)
    x, y = ref_eval(a[1], env), ref_eval(a[2], env)
    if k == "add":
        return x + y
    if k == "sub":
        return x - y
    if k == "mul":
        return x * y
    if k == "div":
        return x // y
    if (isinstance(x, int) and isinstance(y, int) and y > 0 and abs(x) > 1
            and (y.bit_length() > 16 or y * abs(x).bit_length() > 4000)):
        raise Guard
    return x ** y


def show_ref(a) -> str:
    k = a[0]
    if k == "int":
        return str(a[1])
    if k == "var":
        return a[1]
    if k in ("neg", "fac"):
        return f"({k} {show_ref(a[1])})"
    return f"({k} {show_ref(a[1])} {show_ref(a[2])})"


_OPNAME = {"add": "add", "sub": "sub", "mul": "mul", "floordiv": "div", "pow": "pow", "neg": "neg",
           "factorial": "fac"}


def show_impl(e) -> str:
    """an examples/calculator/_ast.py tree in the syntax of the Lean driver (`showAst`)"""
    n = type(e).__name__
    if n == "IntExpr":
        return str(e.value)
    if n == "VarExpr":
        return e.value
    op = _OPNAME.get(getattr(e.op, "__name__", "?"), "?" + getattr(e.op, "__name__", "?"))
    if n == "PrefixExpr":
        return f"({op} {show_impl(e.right)})"
    if n == "PostfixExpr":
        return f"({op} {show_impl(e.expr)})"
    return f"({op} {show_impl(e.left)} {show_impl(e.right)})"


class CalcCtx:
    def __init__(self) -> None:
        import pyside

        self.pc, self.pr, self.ge = EX.import_calculators()
        self.pratt = self.pr.CalculatorParser()
        # the pairs of the other execution modes, fed to the same tree builders
        self.flat: dict[str, object] = {}
        self.enc: dict[str, object] = {}
        d = REPO / "examples" / "calculator"
        for name, store in (("calculator.pest", self.flat), ("grammar_encoded_prec.pest", self.enc)):
            text = (d / name).read_text(encoding="utf-8")
            unopt = pyside.make_parser(text, optimizer=None)
            opt = pyside.Parser.from_grammar(text)
            store["interp"] = unopt.parse
            store["opt"] = opt.parse
            store["gen"] = pyside.load_generated(unopt.generate()).parse
            store["optgen"] = pyside.load_generated(opt.generate()).parse

    def asts(self, text: str, mode: str | None = None) -> dict:
        """impl name -> AST object or the exception; `mode=None`: the public entry points"""
        pc, pr, ge = self.pc, self.pr, self.ge
        out = {}
        try:
            pairs = pc.parse(pc.Rule.PROGRAM, text) if mode is None else self.flat[mode]("program", text)
            out["climb"] = pc.parse_program(pairs)
        except Exception as e:  # noqa: BLE001
            out["climb"] = e
        try:
            if mode is None:
                out["pratt"] = self.pratt.parse(text)
            else:
                pairs = self.flat[mode]("program", text)
                out["pratt"] = self.pratt.parse_expr(pairs.first().inner().first().stream())
        except Exception as e:  # noqa: BLE001
            out["pratt"] = e
        try:
            pairs = ge.parse(ge.Rule.PROGRAM, text) if mode is None else self.enc[mode]("program", text)
            out["encoded"] = ge.parse_program(pairs)
        except Exception as e:  # noqa: BLE001
            out["encoded"] = e
        return out


CCTX: CalcCtx | None = None
IMPLS = ("climb", "pratt", "encoded")


def outcome_of(f):
    """("v", type name, repr) of a value or ("x", exception class)"""
    try:
        v = f()
    except Guard:
        raise
    except Exception as e:  # noqa: BLE001
        return ("x", type(e).__name__)
    return ("v", type(v).__name__, repr(v))


class CaseTimeout(Exception):
    pass


def _on_alarm(signum, frame):
    raise CaseTimeout


def calc_problem_timed(toks, text: str, env: dict, mode: str | None = None, limit: int = 10):
    """`calc_problem` under an alarm: arithmetic on huge numbers is not what is being checked"""
    import signal

    old = signal.signal(signal.SIGALRM, _on_alarm)
    signal.alarm(limit)
    try:
        return calc_problem(toks, text, env, mode)
    except (CaseTimeout, MemoryError):
        return "timeout"
    finally:
        signal.alarm(0)
        signal.signal(signal.SIGALRM, old)


def calc_problem(toks, text: str, env: dict, mode: str | None = None) -> dict | None:
    """the calculator half of the property on one expression: None or the disagreement"""
    want_ast = ref_ast(toks)
    want_show = show_ref(want_ast)
    try:
        want = outcome_of(lambda: ref_eval(want_ast, env))
    except Guard:
        want = None
    got = CCTX.asts(text, mode)
    for name in IMPLS:
        a = got[name]
        if isinstance(a, Exception):
            return {"what": f"{name} raised {type(a).__name__} while parsing", "implementation": name,
                    "expected": want_show, "observed": f"{type(a).__name__}: {a}"[:200]}
        s = show_impl(a)
        if s != want_show:
            return {"what": f"{name} builds a different tree than the documented precedence table demands",
                    "implementation": name, "expected": want_show, "observed": s}
        if want is not None:
            o = outcome_of(lambda a=a: a.evaluate(dict(env)))
            if o != want:
                return {"what": f"{name} evaluates to a different value than the reference evaluator",
                        "implementation": name, "expected": list(want), "observed": list(o)}
    return None


# ---------------------------------------------------------------- generators

VARS = ("x", "y", "ab", "Zq")


def gen_env(rng: random.Random) -> dict:
    return {v: rng.choice((0, 1, 2, 3, -1, -2, 5)) for v in VARS}


def gen_prim(rng: random.Random, depth: int):
    r = rng.random()
    if depth > 0 and r < 0.22:
        return ("paren", gen_toks(rng, rng.choice((1, 1, 2, 3)), depth - 1))
    if r < 0.7:
        return "i" + str(rng.choice((0, 1, 2, 3, 4, 5, 6, 7, 10, 12, 100)))
    return "v" + rng.choice(VARS)


def gen_toks(rng: random.Random, units: int, depth: int = 2):
    out = []
    for u in range(units):
        if u:
            out.append(rng.choice(INFIX) if rng.random() < 0.85 else rng.choice(("sub", "pow", "pow", "div")))
        r = rng.random()
        out.extend(["neg"] * (0 if r < 0.6 else 1 if r < 0.85 else 2 if r < 0.97 else 4))
        out.append(gen_prim(rng, depth))
        r = rng.random()
        out.extend(["fac"] * (0 if r < 0.7 else 1 if r < 0.93 else 2))
    return out


def wf_lists(maxlen: int, prims, shard: int = 0, nshards: int = 1):
    """every well-formed token list with at most `maxlen` tokens (a parenthesis counts as one)"""
    count = 0

    def go(prefix, operand: bool):
        nonlocal count
        if not operand:
            count += 1
            if count % nshards == shard:
                yield list(prefix)
        if len(prefix) >= maxlen:
            return
        if operand:
            prefix.append("neg")
            yield from go(prefix, True)
            prefix.pop()
            for p in prims:
                prefix.append(p)
                yield from go(prefix, False)
                prefix.pop()
        else:
            prefix.append("fac")
            yield from go(prefix, False)
            prefix.pop()
            for o in INFIX:
                prefix.append(o)
                yield from go(prefix, True)
                prefix.pop()

    yield from go([], True)


# =====================================================================================
#  jobs (run in forked workers; the contexts are built before the fork)
# =====================================================================================

def _json_job(args):
    sd, n, with_prefixes, max_prefix_doc = args
    rng = random.Random(sd)
    res = {"kind": "json", "n": 0, "parses": 0, "prefixes": 0, "problems": [], "incons": [], "docs": [], "keys": set()}
    for i in range(n):
        r = rng.random()
        if r < 0.08:
            d = deep_doc(rng, rng.randrange(3, 6))
        else:
            d = gen_doc(rng, trailing=rng.random() < 0.5, size=rng.choice((6, 15, 40, 120)))
        text = doc_text(d)
        try:
            v = loads(text)
        except (ValueError, RecursionError) as e:
            res["incons"].append(f"generated document rejected by json.loads ({e}): {text[:120]!r}")
            continue
        if not same_value(v, doc_value(d[1])):
            res["incons"].append(f"json.loads disagrees with the generator about the value of {text[:120]!r}")
            continue
        res["n"] += 1
        res["keys"].add(hashlib.sha1(text.encode("utf-8", "surrogatepass")).digest()[:8])
        probs = json_accept_problems(text)
        res["parses"] += 8
        d2 = example_ast_defect(text, v)
        if d2:
            probs.append({"grammar": "examples/json/json.pest", "mode": "examples/json/json_.py",
                          "what": "parse_json_file does not mirror json.loads", "observed": d2, "expected": "same structure"})
        if with_prefixes:
            body = doc_text((d[0], d[1], ""))
            if len(body) <= max_prefix_doc:
                lengths = range(len(body))
            else:
                lengths = sorted(set(rng.sample(range(len(body)), 40)) | {0, 1, len(body) - 1, len(body) - 2})
            pp = prefix_problems(body, lengths)
            res["prefixes"] += 8 * len(lengths)
            for p in pp:
                p["text"] = body
            probs.extend(pp)
        for p in probs:
            p.setdefault("text", text)
        res["problems"].extend(probs[:3])
        if len(res["docs"]) < 40 and len(text) <= 400:
            res["docs"].append((enc_doc(d), text))
    return res


def _neg_job(args):
    sd, n = args
    rng = random.Random(sd)
    res = {"kind": "neg", "n": 0, "parses": 0, "problems": [], "incons": [], "classes": {"invalid": 0, "lenient": 0, "valid": 0}}
    texts = list(FIXED_NEGATIVES) if sd == 0 else []
    while len(texts) < n:
        d = gen_doc(rng, max_depth=3, size=8)
        t = doc_text(d)
        for _ in range(rng.choice((1, 1, 2))):
            t = mutate_text(rng, t)
        texts.append(t)
    for t in texts:
        probs, cls = negative_problems(t)
        if cls == "inconsistent":
            res["incons"].append(probs[0]["inconsistent"])
            continue
        res["n"] += 1
        res["classes"][cls] += 1
        res["parses"] += 8
        if cls == "valid" and t.lstrip(WS_CHARS)[:1] in ("[", "{"):
            probs = json_accept_problems(t)          # the mutation kept it a document: it must be accepted
        for p in probs:
            p["text"] = t
        res["problems"].extend(probs[:2])
    return res


def _calc_random_job(args):
    sd, n, max_units = args
    rng = random.Random(sd)
    res = {"kind": "calc-random", "n": 0, "problems": [], "corr": [], "keys": set(), "timeouts": 0}
    for i in range(n):
        toks = gen_toks(rng, rng.randrange(1, max_units + 1), depth=rng.choice((0, 1, 2, 3)))
        text = toks_text(toks, rng)
        env = gen_env(rng)
        mode = None if i % 4 else MODES[(i // 4) % 4]
        p = calc_problem_timed(toks, text, env, mode)
        if p == "timeout":
            res["timeouts"] += 1
            continue
        res["n"] += 1
        res["keys"].add(hashlib.sha1(toks_enc(toks).encode()).digest()[:8])
        if p:
            res["problems"].append({**p, "tokens": toks_enc(toks), "text": text, "env": env, "mode": mode or "public entry point"})
        if i % 3 == 0:
            res["corr"].append((toks_enc(toks), text))
    return res


def _calc_exh_job(args):
    maxlen, prims, shard, nshards = args
    res = {"kind": "calc-exhaustive", "n": 0, "problems": [], "corr": [], "keys": set()}
    env = {"x": 3, "y": -2, "ab": 0, "Zq": 1}
    for toks in wf_lists(maxlen, prims, shard, nshards):
        text = toks_text(toks)
        p = calc_problem(toks, text, env)
        res["n"] += 1
        if p:
            res["problems"].append({**p, "tokens": toks_enc(toks), "text": text, "env": env, "mode": "public entry point"})
        res["corr"].append((toks_enc(toks), text))
    return res


def _call(job):
    f, args = job
    return f(args)


def corr_calc(cases: list[tuple[str, str]]) -> tuple[list[tuple[str, str, str]], int]:
    """Lean `K` answers against the real implementations' ASTs on the same token lists.
    Returns (mismatches as (request, code, model), number of comparisons)."""
    reqs, want = [], []
    for enc, text in cases:
        got = CCTX.asts(text)
        n_top = len(toks_dec(enc))
        for name in IMPLS:
            a = got[name]
            reqs.append(f"K {name} {enc}")
            want.append("error" if isinstance(a, Exception) else show_impl(a))
        ref_cap = 8 if _driver_mode() == "pestdriver" else 6     # `ref` enumerates every tree over the tokens
        if n_top <= ref_cap and max_level_len(toks_dec(enc)) <= ref_cap:
            reqs.append(f"K ref {enc}")
            want.append(show_ref(ref_ast(toks_dec(enc))))
        reqs.append(f"KW {enc}")
        want.append("wf")
    ans = lean(reqs)
    mism = [(r, w, a) for r, w, a in zip(reqs, want, ans) if w != a]
    return mism, len(reqs)


def max_level_len(toks) -> int:
    return max([len(toks)] + [max_level_len(t[1]) for t in toks if isinstance(t, tuple)])


def corr_json(docs: list[tuple[str, str]], spec_budget: int) -> tuple[list[tuple[str, str, str]], dict]:
    """Lean `render` against the Python renderer, Lean `mirror` against the trees the implementation
    returns (all modes, both grammars), and — on the shorter documents — the L0 specification run on the
    regenerated grammar terms against `mirror` (`J accepts`) and on every proper prefix (`J prefixes`)."""
    reqs, want = [], []
    used = 0
    for enc, text in docs:
        reqs.append("J render " + enc)
        want.append(enc_cps(text))
        for g in GRAMMARS:
            trees = set()
            for mode in MODES:
                st, res = run_mode(g, mode, text)
                trees.add(enc_pairs(res) if st == "ok" else st)
            reqs.append(f"J mirror {g} {enc}")
            want.append(trees.pop() if len(trees) == 1 else "modes-disagree:" + "|".join(sorted(trees))[:200])
            if used + len(text) <= spec_budget:
                reqs.append(f"J accepts {g} {enc}")
                want.append("ok")
                if not text or text[-1] not in WS_CHARS:
                    reqs.append(f"J prefixes {g} {enc}")
                    want.append(f"ok {len(text)}")
        used += len(text)
    ans = lean(reqs)
    mism = [(r, w, a) for r, w, a in zip(reqs, want, ans) if w != a]
    return mism, {"requests": len(reqs)}


# =====================================================================================
#  replay
# =====================================================================================

def _setup_contexts(td) -> None:
    global JCTX, CCTX, JSON_EXAMPLE
    use_repo()
    JCTX = JsonCtx()
    CCTX = CalcCtx()
    try:
        JSON_EXAMPLE = EX.import_json_example(td)
    except Exception:  # noqa: BLE001
        JSON_EXAMPLE = None


def replay(out: Outcome, payload: dict) -> None:
    out.coverage = {"explanation": "replay of one recorded finding", "evaluations": 1, "distinct_nontrivial": 2}
    broken = payload.get("broken", "")
    if broken.startswith("theorem "):
        EX.export_all()
        info = proof_stage(out, "C17", THEOREMS, extra_targets=["PestModel.Drv.Examples"])
        out.coverage = {**proof_coverage(info, "C17"), **out.coverage}
        if info["broken"]:
            out.unproved({"broken": "theorem " + "; ".join(info["broken"])[:1500]})
        return
    with EX.scratch_examples() as td:
        _setup_contexts(td)
        if broken.startswith("correspondence "):
            line = broken[len("correspondence "):]
            text = payload.get("text", "")
            kind = line.split(" ", 1)[0]
            if kind in ("K", "KW"):
                mism, _ = corr_calc([(payload["tokens"], text)])
                toks = toks_dec(payload["tokens"])
                p = calc_problem(toks, text, payload.get("env") or {"x": 3, "y": -2, "ab": 0, "Zq": 1})
                if p:
                    out.violation({"kind": "calc", "tokens": payload["tokens"], "text": text, **p})
                elif mism:
                    out.unproved({**payload, "code_answer": mism[0][1], "model_answer": mism[0][2]})
            else:
                mism, _ = corr_json([(payload["doc"], text)], spec_budget=10 ** 6)
                probs = json_accept_problems(text)
                if probs:
                    out.violation({"kind": "json", "text": text, "input": [ord(c) for c in text], **probs[0]})
                elif mism:
                    out.unproved({**payload, "code_answer": mism[0][1], "model_answer": mism[0][2]})
            return
        kind = payload.get("kind")
        text = "".join(chr(c) for c in payload["input"]) if "input" in payload else payload.get("text", "")
        if str(payload.get("note", "")).startswith("under the default recursion limit"):
            pr_ = subprocess.run(["/venv/bin/python", __file__.rsplit("/", 1)[0] + "/deep_json_probe.py", str(REPO)],
                                 capture_output=True, text=True, timeout=600)
            probe_ = json.loads(pr_.stdout.strip().splitlines()[-1])
            bad_ = {k_: r_ for k_, r_ in probe_["results"].items() if r_ not in ("ok", "rec")}
            if bad_:
                k_ = sorted(bad_)[0]
                out.violation({**payload, "observed": bad_[k_], "where": k_})
            return
        if kind == "calc":
            toks = toks_dec(payload["tokens"])
            mode = payload.get("mode")
            p = calc_problem(toks, text, payload.get("env", {}), mode if mode in MODES else None)
            out.coverage["samples"] = [{"text": text, "tokens": payload["tokens"]}]
            if p:
                out.violation({**payload, **p})
            return
        what = payload.get("what", "")
        g = {v: k for k, v in GRAMMARS.items()}.get(payload.get("grammar"), None)
        gs = (g,) if g else tuple(GRAMMARS)
        ms = (payload["mode"],) if payload.get("mode") in MODES else MODES
        out.coverage["samples"] = [{"text": text[:200], "grammar": payload.get("grammar"), "mode": payload.get("mode")}]
        if "prefix" in what:
            probs = prefix_problems(text, [payload["prefix_length"]], gs, ms)
        elif "not RFC 8259" in what:
            probs, _ = negative_problems(text, gs, ms)
        elif "parse_json_file" in what:
            d = example_ast_defect(text, loads(text))
            probs = [{"what": what, "observed": d}] if d else []
        else:
            probs = json_accept_problems(text, gs, ms)
        if probs:
            out.violation({**payload, **probs[0]})


# =====================================================================================
#  main
# =====================================================================================

def run(out: Outcome) -> None:  # noqa: PLR0912, PLR0915
    t0 = time.time()
    thorough = out.tier == "thorough"
    rng = random.Random(seed() * 7919 + 17)
    try:
        exported = EX.export_all()
    except Exception as e:  # noqa: BLE001
        out.infra_error = f"export from the repository failed: {type(e).__name__}: {e}"[:400]
        return
    t_export = time.time() - t0
    info = proof_stage(out, "C17", THEOREMS, extra_targets=["PestModel.Drv.Examples"])
    lean_ok = bool(info.get("driver_ok")) and (info["build_ok"] or _examples_driver_builds())
    t_proof = time.time() - t0 - t_export

    n_json = 4500 if thorough else 480
    n_neg = 60000 if thorough else 6000
    n_calc = 300000 if thorough else 30000
    exh_len = 8 if thorough else 6
    max_units = 40 if thorough else 14
    n_corr_json = 1500 if thorough else 250
    spec_budget = 120000 if thorough else 12000
    max_corr_exh = 10 ** 9
    if _driver_mode() == "scratch":          # interpreted entry point: an order of magnitude slower
        spec_budget = 10000 if thorough else 4000
        n_corr_calc_random = 4000 if thorough else 2000
        max_corr_exh = 30000
    n_corr_calc_random = 20000 if thorough else 3000

    with EX.scratch_examples() as td:
        _setup_contexts(td)
        if JCTX.load_error:
            g, msg = next(iter(JCTX.load_error.items()))
            out.violation({"kind": "json", "grammar": GRAMMARS[g], "what": "the bundled grammar does not load",
                           "observed": msg, "expected": "a parser", "text": "[]", "input": [91, 93]})
            out.coverage = {**proof_coverage(info, "C17"), "evaluations": 1, "distinct_nontrivial": 1,
                            "explanation": "a bundled JSON grammar could not be loaded"}
            return

        jobs = []
        per = 25
        for i in range(0, n_json, per):
            jobs.append((_json_job, (rng.randrange(1 << 30), per, True, 260 if thorough else 160)))
        per = 500
        jobs.append((_neg_job, (0, len(FIXED_NEGATIVES))))
        for i in range(0, n_neg, per):
            jobs.append((_neg_job, (rng.randrange(1, 1 << 30), per)))
        per = 1000
        for i in range(0, n_calc, per):
            jobs.append((_calc_random_job, (rng.randrange(1 << 30), per, max_units)))
        prims = ["i2", "vx", ("paren", ["i1", "sub", "vy"])]
        nsh = 4 * NCPU
        for sh in range(nsh):
            jobs.append((_calc_exh_job, (exh_len, prims, sh, nsh)))

        stats = {"json": 0, "neg": 0, "calc-random": 0, "calc-exhaustive": 0}
        parses = prefixes = 0
        classes = {"invalid": 0, "lenient": 0, "valid": 0}
        json_problems: list[dict] = []
        neg_problems: list[dict] = []
        calc_problems: list[dict] = []
        incons: list[str] = []
        docs: list[tuple[str, str]] = []
        corr_cases_exh: list[tuple[str, str]] = []
        corr_cases_rnd: list[tuple[str, str]] = []
        jkeys: set = set()
        ckeys: set = set()
        with mp.Pool(NCPU) as pool:
            for res in pool.imap_unordered(_call, jobs):
                k = res["kind"]
                stats[k] += res["n"]
                if k == "json":
                    parses += res["parses"]
                    prefixes += res["prefixes"]
                    json_problems.extend(res["problems"])
                    incons.extend(res["incons"])
                    docs.extend(res["docs"])
                    jkeys |= res["keys"]
                elif k == "neg":
                    parses += res["parses"]
                    neg_problems.extend(res["problems"])
                    incons.extend(res["incons"])
                    for c, n in res["classes"].items():
                        classes[c] += n
                else:
                    calc_problems.extend(res["problems"])
                    (corr_cases_exh if k == "calc-exhaustive" else corr_cases_rnd).extend(res["corr"])
                    ckeys |= res.get("keys", set())

        if incons:
            out.infra_error = "the harness's own references disagree: " + incons[0][:600]
            return

        # documents that nest deeply but well within what the interpreter's recursion budget carries (a RecursionError is the
        # budget, not a verdict, and is skipped): every mode must still accept them and mirror json.loads
        deep_skipped = 0
        for kind_, depth_, leaf_ in (("A", 30, "1"), ("A", 80, "1"), ("A", 80, '"a\\nb"'), ("O", 30, "1"), ("O", 60, "1"), ("O", 60, '"x"'),
                                     ("AO", 60, "null"), ("A", 8, '"' + "\\n" * 140 + '"')):
            text_ = leaf_
            for i_ in range(depth_):
                text_ = "[" + text_ + "]" if kind_ == "A" or (kind_ == "AO" and i_ % 2) else '{"k":' + text_ + "}"
            for p_ in json_accept_problems(text_):
                if p_.get("observed") == "RecursionError":
                    deep_skipped += 1
                    continue
                p_["text"] = text_
                json_problems.append(p_)
            parses += 8
            stats["json"] += 1
        stats["deep-json-skipped-for-recursion"] = deep_skipped
        # the same documents under CPython's default recursion limit (this harness raises it), in a process of its own
        try:
            pr_ = subprocess.run(["/venv/bin/python", __file__.rsplit("/", 1)[0] + "/deep_json_probe.py", str(REPO)],
                                 capture_output=True, text=True, timeout=600)
            probe_ = json.loads(pr_.stdout.strip().splitlines()[-1])
            for key_, r_ in probe_["results"].items():
                g_, mode_, dn_ = key_.split("|", 2)
                if r_ in ("ok", "rec"):
                    deep_skipped += r_ == "rec"
                    continue
                json_problems.append({"grammar": GRAMMARS[g_], "mode": mode_, "what": "valid document not accepted",
                                      "observed": "PestParsingError" if r_ == "fail" else r_[4:], "expected": "a parse tree",
                                      "text": probe_["docs"][dn_], "note": "under the default recursion limit of 1000"})
            parses += len(probe_["results"])
        except Exception as e_:  # noqa: BLE001
            stats["deep-json-probe-failed:" + type(e_).__name__] = 1

        t_search = time.time() - t0 - t_export - t_proof
        # ---- correspondence with the Lean models
        corr_mism: list[tuple[str, str, str, dict]] = []
        n_corr = 0
        if lean_ok:
            docs.sort(key=lambda d: len(d[1]))
            rng.shuffle(corr_cases_rnd)
            if len(corr_cases_exh) > max_corr_exh:
                corr_cases_exh = rng.sample(corr_cases_exh, max_corr_exh)
            cc = corr_cases_exh + corr_cases_rnd[:n_corr_calc_random]
            text_of = dict(cc)
            m1, n1 = corr_calc(cc)
            for r, w, a in m1:
                enc = r.split(" ", 2)[2] if r.startswith("K ") else r.split(" ", 1)[1]
                corr_mism.append((r, w, a, {"tokens": enc, "text": text_of.get(enc, "")}))
            jd = docs[:n_corr_json]
            m2, st2 = corr_json(jd, spec_budget)
            doc_of = {e: t for e, t in jd}
            for r, w, a in m2:
                enc = next((e for e in doc_of if r.endswith(e)), "")
                corr_mism.append((r, w, a, {"doc": enc, "text": doc_of.get(enc, "")}))
            n_corr = n1 + st2["requests"]

        # ---- verdict (DESIGN §5)
        def report(problems: list[dict], kind: str, limit: int) -> None:
            seen = set()
            problems = sorted(problems, key=lambda p: len(p.get("text", "")))
            for p in problems:
                key = (p.get("grammar"), p.get("what"), p.get("implementation"))
                if key in seen:
                    continue
                seen.add(key)
                p = {**p, "modes_affected": sorted({q.get("mode") for q in problems
                                                    if (q.get("grammar"), q.get("what"), q.get("implementation")) == key
                                                    and q.get("mode")})}
                text = p.get("text", "")
                pay = {"kind": kind, **p, "seed": seed(), "command": "./check C17 --replay <this file>"}
                if kind != "calc":
                    pay["input"] = [ord(c) for c in text]
                    pay["text"] = text[:300].encode("ascii", "backslashreplace").decode()
                out.violation(pay)
                if len(seen) >= limit:
                    break

        report(calc_problems, "calc", 4)
        report(json_problems, "json", 4)
        report(neg_problems, "json", 3)
        direct = bool(calc_problems or json_problems or neg_problems)
        if not direct:
            if corr_mism:
                r, w, a, extra = corr_mism[0]
                out.unproved({"broken": "correspondence " + r[:1500], "code_answer": w[:1500], "model_answer": a[:1500],
                              **extra, "more": [{"request": x[:300], "code": y[:300], "model": z[:300]}
                                                for x, y, z, _ in corr_mism[1:5]],
                              "searched": {"cases": sum(stats.values()),
                                           "note": "the implementation agreed with json.loads / the reference evaluator "
                                                   "on every generated case"}})
            elif info["broken"] or not lean_ok:
                out.unproved({"broken": "theorem " + "; ".join(info["broken"] or ["lake build failed"])[:1500],
                              "searched": {"cases": sum(stats.values()),
                                           "note": "implementation agreed with the references and (where it builds) the model"}})

    evals = sum(stats.values())
    out.coverage = {
        **proof_coverage(info, "C17"),
        "evaluations": evals,
        "distinct_nontrivial": len(jkeys) + len(ckeys) + stats["calc-exhaustive"],
        "rule": (
            f"JSON: {stats['json']} seeded RFC 8259 documents with generated concrete syntax (containers nested to depth 5, "
            f"whitespace from {{space, tab, LF, CR}} at every legal place, all number spellings, all nine escapes with either "
            f"hex case, surrogate pairs as escapes, raw non-ASCII and astral characters, empty containers, duplicate names, "
            f"strings up to 1500 characters), each checked against json.loads (value and acceptance) and then parsed by both "
            f"bundled grammars in the four modes ({parses} parses): accepted, tree mirrors json.loads; examples/json/json_.py "
            f"parse_json_file likewise; {prefixes} parses of proper prefixes (every prefix of documents up to "
            f"{260 if thorough else 160} characters, 44 sampled ones of longer documents), all to be rejected; "
            f"{stats['neg']} texts that are not documents ({len(FIXED_NEGATIVES)} hand-written + seeded 1–2-character edits "
            f"of valid documents: {classes['invalid']} invalid for both grammars, {classes['lenient']} inside a recorded "
            f"leniency of at least one grammar, {classes['valid']} still valid), to be rejected.  "
            f"Calculator: every well-formed token list of up to {exh_len} tokens over {{neg, fac, + - * / ^, an integer, a "
            f"variable, a parenthesised difference}} ({stats['calc-exhaustive']}) and {stats['calc-random']} seeded random "
            f"expressions (up to {max_units} operands, repeated prefix/postfix operators, parentheses nested to depth 3, "
            f"arbitrary spacing incl. none, a quarter of them through the pairs of the interp/opt/gen/optgen parsers instead "
            f"of the public entry points): the three implementations' ASTs and values against the reference evaluator "
            f"written from the documented table.  Correspondence: {n_corr} requests to the Lean models (K: ASTs of "
            f"precClimb/pratt/encoded/reference on {len(corr_cases_exh)} of the exhaustive lists and {min(len(corr_cases_rnd), n_corr_calc_random)} "
            f"random ones; J: render, mirror vs the real trees, and the L0 specification of pest on the regenerated grammar "
            f"terms, whole documents and every proper prefix, within a budget of {spec_budget} characters).  "
            f"Distinct = distinct texts/token lists, counted."
        ),
        "exhaustive": False,
        "samples": ([{"json": t[:120]} for _, t in docs[len(docs) // 2: len(docs) // 2 + 2]]
                    + [{"calculator": t[:120], "tokens": e[:120]} for e, t in corr_cases_rnd[:2]]),
        "tables": exported["tables"],
        "correspondence_mismatches": len(corr_mism),
        "direct_failures": len(calc_problems) + len(json_problems) + len(neg_problems),
        "lean_driver": _driver_mode() if lean_ok else "unavailable",
        "json_theorems_proved": ["json_number_accepts", "json_string_accepts", "json_number_accepts_tests",
                                 "json_string_accepts_tests", "json_value_accepts", "json_value_accepts_tests",
                                 "json_accepts", "json_accepts_tests", "json_accepts_both", "json_rejects_prefix",
                                 "json_modes_accept", "json_modes_reject_prefix"],
        "json_theorems_open": [],
        "phases_s": {"export": round(t_export, 1), "build_and_audit": round(t_proof, 1), "search": round(t_search, 1),
                     "correspondence_and_verdict": round(time.time() - t0 - t_export - t_proof - t_search, 1)},
    }
    out.assumptions = [
        "the calculator theorems are about token lists; that the pest grammars turn a text into these tokens (rule names, "
        "`-` as neg or sub by position, nesting of parentheses) is checked by running the real implementations on rendered "
        "token lists and comparing their ASTs with the Lean model's, not proved",
        "the three implementations are modelled in two stages (tree over the tokens with the AST constructors abstracted "
        "to the four constructors of the C18 model, then one shared mapping to the AST that resolves a parenthesis by "
        "running the same implementation on its tokens); building nodes has no other effect",
        "documented precedence table: header of examples/calculator/grammar_encoded_prec.pest (+ - < * / < ^ < prefix - < "
        "postfix ! < primary; ^ right-associative, the others left-associative), the same as the pest book's and as "
        "examples/calculator/pratt.py; so -2^2 = (-2)^2 = 4, -3! = -(3!), 2^3! = 2^(3!), 2^-3 = 2^(-3), 2^-3^2 = 2^((-3)^2)",
        "values are compared exactly (type and repr, or the class of the exception: ZeroDivisionError, ValueError for "
        "the factorial of a negative number, TypeError for the factorial of a float, KeyError never since every variable "
        "is bound); expressions whose reference value would exceed about 4000 bits are compared as ASTs only",
        "JSON: `every RFC 8259 document` is the harness's Doc generator (validated against json.loads on every document); "
        "json.loads is read with parse_constant rejecting NaN/Infinity and object_pairs_hook keeping duplicate names in order",
        "leniencies of the bundled grammars that the property's wording does not exclude are recorded, not reported: both "
        "accept raw control characters U+0000–U+001F inside strings, examples/json/json.pest accepts a fraction without "
        "digits (`1.`), tests/grammars/json.pest accepts a scalar at top level (its `json` rule is SOI ~ value ~ EOI); every "
        "other text that is not RFC 8259 must be rejected in all modes",
        "JSON: proved in Lean (all documents and prefixes, unbounded), about the regenerated grammar terms of both "
        "bundled grammars: every document whose top level is a container is accepted with exactly the tree `mirror` "
        "(json_accepts_both) and every proper prefix of it, written without trailing whitespace, is rejected "
        "(json_rejects_prefix) under the L0 specification of pest; and the same for the Lean models of the four "
        "execution modes (json_modes_accept, json_modes_reject_prefix: interpreter L1 and generated code LG, on the "
        "regenerated table and on its optimized version), by C03, C01/C07 and C02, whose decidable hypotheses are "
        "evaluated for both tables.  Outside the theorems: L1/LG/Opt are models, tied to the real code by correspondence "
        "runs (C01-C04; here: the real parsers in the four modes against `mirror` on generated documents and all their "
        "prefixes); `mirrors json.loads` beyond the spans (float(token), decoding of escapes) and the reading of RFC 8259 "
        "as `Doc`/`render` are checked against Python's json module on every generated document, not proved",
        "Python's recursion limit is not modelled (random documents nest at most 5-6 deep; eight documents 30-80 deep are run in all modes, in-process and under the default limit of 1000 in a process of their own; a RecursionError there is skipped)",
    ]


def _examples_driver_builds() -> bool:
    from common import lake_build

    ok, _ = lake_build(["PestModel.Drv.Examples"])
    return ok
