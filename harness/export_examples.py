"""C17 — regenerate, from /repo's working tree, the data the theorems of Props/C17.lean mention:

  lean/PestModel/Generated/CalcTables.lean    PREFIX_OPS / POSTFIX_OPS / INFIX_OPS of
        examples/calculator/pratt.py (class attributes of the imported class) and the
        precedence table of examples/calculator/prec_climber.py (PRECEDENCES, Precedence.PRE,
        Precedence.LOWEST, INFIX/PREFIX/POSTFIX/RIGHT_ASSOCIATIVE operator sets)
  lean/PestModel/Generated/JsonGrammars.lean  the rule tables of examples/json/json.pest and
        tests/grammars/json.pest as `Pest.Grammar` terms, printed from the real `Expression`
        trees the front end builds (`Parser.from_grammar(text, optimizer=None).rules`)

Also here: `scratch_examples()` — the example packages import *committed generated* parser
modules that may be stale, so nothing is ever imported from /repo/examples directly: the
packages are copied to a scratch directory under /verif/.work, the parser modules are
regenerated there from the current grammar files with the current generator (what
examples/calculator/generate.py does), and the copy is imported with `pest` resolving to
REPO/src.
"""

from __future__ import annotations

import contextlib
import importlib
import os
import shutil
import sys
import tempfile
from pathlib import Path

from common import GENERATED, REPO, WORK, use_repo, write_if_changed

JSON_GRAMMARS = {
    "examplesJson": "examples/json/json.pest",
    "testsJson": "tests/grammars/json.pest",
}
CALC_GRAMMARS = {
    "calculator.pest": "parser.py",
    "grammar_encoded_prec.pest": "grammar_encoded_prec_parser.py",
}


# ---------------------------------------------------------------- scratch copy of the examples

def _purge_examples_modules() -> None:
    for name in list(sys.modules):
        if name == "examples" or name.startswith("examples."):
            del sys.modules[name]


@contextlib.contextmanager
def scratch_examples():
    """Copy examples/calculator and examples/json of REPO to a fresh directory, regenerate the
    generated parser modules there, make `import examples.calculator…` resolve to the copy.
    Yields the directory (the parent of the `examples` package).  Removed on exit."""
    use_repo()
    from pest import Parser

    WORK.mkdir(exist_ok=True)
    td = Path(tempfile.mkdtemp(prefix="c17ex_", dir=WORK))
    try:
        pkg = td / "examples"
        pkg.mkdir()
        (pkg / "__init__.py").write_text("")
        for sub in ("calculator", "json"):
            shutil.copytree(REPO / "examples" / sub, pkg / sub,
                            ignore=shutil.ignore_patterns("__pycache__"))
            init = pkg / sub / "__init__.py"
            if not init.exists():
                init.write_text("")
        for gram, out in CALC_GRAMMARS.items():
            # the generated modules are always rebuilt from the grammar next to them
            (pkg / "calculator" / out).unlink(missing_ok=True)
            parser = Parser.from_grammar((pkg / "calculator" / gram).read_text(encoding="utf-8"))
            (pkg / "calculator" / out).write_text(parser.generate(), encoding="utf-8")
        _purge_examples_modules()
        sys.path.insert(0, str(td))
        importlib.invalidate_caches()
        try:
            yield td
        finally:
            with contextlib.suppress(ValueError):
                sys.path.remove(str(td))
            _purge_examples_modules()
    finally:
        shutil.rmtree(td, ignore_errors=True)


def import_calculators():
    """(prec_climber, pratt, grammar_encoded_prec) modules of the scratch copy (call inside
    `scratch_examples()`)."""
    pc = importlib.import_module("examples.calculator.prec_climber")
    pr = importlib.import_module("examples.calculator.pratt")
    ge = importlib.import_module("examples.calculator.grammar_encoded_prec")
    return pc, pr, ge


def import_json_example(td: Path):
    """examples.json.json_ of the scratch copy; it opens "examples/json/json.pest" relative to
    the working directory at import time."""
    cwd = os.getcwd()
    os.chdir(td)
    try:
        return importlib.import_module("examples.json.json_")
    finally:
        os.chdir(cwd)


# ---------------------------------------------------------------- Lean printers

def lean_str(s: str) -> str:
    return "[" + ", ".join(str(ord(c)) for c in s) + "]"


def lean_name(s: str) -> str:
    assert all(c.isalnum() or c == "_" for c in s), s
    return '"' + s + '"'


def lean_opt_name(t) -> str:
    return "none" if t is None else f"(some {lean_name(t)})"


def lean_opt_int(t) -> str:
    return "none" if t is None else f"(some ({int(t)}))"


class Unsupported(Exception):
    pass


def lean_expr(e) -> str:  # noqa: PLR0911, PLR0912
    """a real `Expression` object as a Lean term of type `Pest.Expr` (lean/PestModel/Expr.lean);
    node for node what harness/pyside.py `ser_expr` sends to the driver"""
    from pest.grammar import expressions as X
    from pest.grammar.rule import Rule
    from pest.grammar.rules import special

    r = lean_expr
    t = type(e)
    lst = lambda xs: "[" + ", ".join(r(x) for x in xs) + "]"  # noqa: E731
    if t is X.String:
        return f"(.str {lean_str(e.value)})"
    if t is X.CIString:
        return f"(.ci {lean_str(e.value)})"
    if t is X.Range:
        return f"(.range {ord(e.start)} {ord(e.stop)})"
    if t is X.Identifier:
        return f"(.ident {lean_name(e.value)} {lean_opt_name(e.tag)})"
    if isinstance(e, Rule):
        self_map = "false" if type(e).with_children is Rule.with_children else "true"
        return f"(.rule {lean_name(e.name)} {int(e.modifier)} {self_map} {r(e.expression)})"
    if t is X.Sequence:
        return f"(.seq {lst(e.expressions)})"
    if t is X.Choice:
        return f"(.choice {lst(e.expressions)})"
    if t is X.Optional:
        return f"(.opt {r(e.expression)})"
    if t is X.Repeat:
        return f"(.rep {r(e.expression)})"
    if t is X.RepeatOnce:
        return f"(.rep1 {r(e.expression)})"
    if t is X.RepeatExact:
        return f"(.repExact {r(e.expression)} {int(e.number)})"
    if t is X.RepeatMin:
        return f"(.repMin {r(e.expression)} {int(e.number)})"
    if t is X.RepeatMax:
        return f"(.repMax {r(e.expression)} {int(e.number)})"
    if t is X.RepeatMinMax:
        return f"(.repMinMax {r(e.expression)} {int(e.min)} {int(e.max)})"
    if t is X.PositivePredicate:
        return f"(.andP {r(e.expression)})"
    if t is X.NegativePredicate:
        return f"(.notP {r(e.expression)})"
    if t is X.Group:
        return f"(.group {r(e.expression)} {lean_opt_name(e.tag)})"
    if t is X.Push:
        return f"(.push {r(e.expression)})"
    if t is X.PushLiteral:
        return f"(.pushLit {lean_str(e.value)})"
    if t is X.Peek:
        return ".peek"
    if t is X.Pop:
        return ".pop"
    if t is X.Drop:
        return ".drop"
    if t is X.PeekAll:
        return ".peekAll"
    if t is X.PopAll:
        return ".popAll"
    if t is X.PeekSlice:
        return f"(.peekSlice {lean_opt_int(e.start)} {lean_opt_int(e.stop)})"
    if t is special._Any:
        return ".anyB"
    if t is special._SOI:
        return ".soiB"
    if t is special._EOI:
        return ".eoiB"
    raise Unsupported(t.__name__)


def lean_grammar(rules: dict) -> str:
    """`Parser.rules` (the entries that can matter, dictionary order — as `pyside.ser_rules`)
    as a term of type `Pest.Grammar`"""
    import pyside
    from pest.grammar.rule import BuiltInRule

    names = set(pyside.referenced(rules))
    out = []
    for n, rule in rules.items():
        if n not in names:
            continue
        kind = ".builtin" if isinstance(rule, BuiltInRule) else ".grammar"
        out.append(
            f"    {{ name := {lean_name(rule.name)}, mod := {int(rule.modifier)}, kind := {kind},\n"
            f"      body := {lean_expr(rule.expression)} }}"
        )
    return "{ rules := [\n" + ",\n".join(out) + "\n  ], usets := [] }"


HEADER = """/-
  GENERATED by harness/export_examples.py from the working tree of the repository under
  check — do not edit.  Regenerated before every build of Props/C17.lean.
  {what}
-/
"""


def export_json() -> str:
    use_repo()
    from pest import Parser

    parts = [HEADER.format(what="Rule tables of the bundled JSON grammars, as the front end builds them "
                                "(Parser.from_grammar(text, optimizer=None).rules).")]
    parts.append("import PestModel.Expr\n\nnamespace Pest\nnamespace Generated\n")
    for name, rel in JSON_GRAMMARS.items():
        text = (REPO / rel).read_text(encoding="utf-8")
        try:
            parser = Parser.from_grammar(text, optimizer=None)
            term = lean_grammar(parser.rules)
        except Exception as ex:  # noqa: BLE001 — a grammar that no longer loads is reported by the engine
            term = "{ rules := [], usets := [] }"
            parts.append(f"-- {rel} could not be exported: {type(ex).__name__}\n")
        parts.append(f"/-- {rel} -/\ndef {name} : Grammar :=\n  {term}\n")
    parts.append("end Generated\nend Pest\n")
    return "\n".join(parts)


def _pairs(d) -> str:
    return "[" + ", ".join(f"({lean_name(str(k))}, {int(v)})" for k, v in d.items()) + "]"


def calc_tables() -> dict:
    """the operator tables of the two table-driven calculators, read off the imported modules"""
    with scratch_examples():
        pc, pr, _ = import_calculators()
        cls = pr.CalculatorParser
        pratt = {
            "pre": {str(k): int(v) for k, v in cls.PREFIX_OPS.items()},
            "post": {str(k): int(v) for k, v in cls.POSTFIX_OPS.items()},
            "inf": {str(k): (int(p), bool(ra)) for k, (p, ra) in cls.INFIX_OPS.items()},
        }
        climb = {
            "precedences": {str(k): int(v) for k, v in pc.PRECEDENCES.items()},
            "lowest": int(pc.Precedence.LOWEST),
            "pre": int(pc.Precedence.PRE),
            "infix": sorted(str(x) for x in pc.INFIX_OPERATORS),
            "prefix": sorted(str(x) for x in pc.PREFIX_OPERATORS),
            "postfix": sorted(str(x) for x in pc.POSTFIX_OPERATORS),
            # absent at the pinned commit (every operator climbed as if right-associative)
            "right_assoc": sorted(str(x) for x in getattr(pc, "RIGHT_ASSOCIATIVE_OPERATORS", ())),
            "has_right_assoc": hasattr(pc, "RIGHT_ASSOCIATIVE_OPERATORS"),
        }
    return {"pratt": pratt, "climb": climb}


def export_calc(tables: dict | None = None) -> str:
    t = tables or calc_tables()
    pratt, climb = t["pratt"], t["climb"]
    names = lambda xs: "[" + ", ".join(lean_name(x) for x in xs) + "]"  # noqa: E731
    inf = "[" + ", ".join(
        f"({lean_name(k)}, ({p}, {'true' if ra else 'false'}))" for k, (p, ra) in pratt["inf"].items()
    ) + "]"
    return "\n".join([
        HEADER.format(what="Operator tables of examples/calculator/pratt.py (CalculatorParser.PREFIX_OPS / "
                           "POSTFIX_OPS / INFIX_OPS)\n  and of examples/calculator/prec_climber.py (PRECEDENCES, "
                           "Precedence.PRE / LOWEST, the operator sets).  Keys are rule names."),
        "namespace Pest\nnamespace Generated\nnamespace Calc\n",
        "/-- `CalculatorParser.PREFIX_OPS` : rule name ↦ precedence -/",
        f"def prattPrefix : List (String × Nat) := {_pairs(pratt['pre'])}",
        "/-- `CalculatorParser.POSTFIX_OPS` : rule name ↦ precedence -/",
        f"def prattPostfix : List (String × Nat) := {_pairs(pratt['post'])}",
        "/-- `CalculatorParser.INFIX_OPS` : rule name ↦ (precedence, right_associative) -/",
        f"def prattInfix : List (String × (Nat × Bool)) := {inf}\n",
        "/-- `prec_climber.PRECEDENCES` -/",
        f"def climbPrecedences : List (String × Nat) := {_pairs(climb['precedences'])}",
        "/-- `Precedence.LOWEST` (default of `PRECEDENCES.get` and of the `precedence` argument) -/",
        f"def climbLowest : Nat := {climb['lowest']}",
        "/-- `Precedence.PRE` (what `parse_prefix_expression` passes down) -/",
        f"def climbPre : Nat := {climb['pre']}",
        f"def climbInfixOps : List String := {names(climb['infix'])}",
        f"def climbPrefixOps : List String := {names(climb['prefix'])}",
        f"def climbPostfixOps : List String := {names(climb['postfix'])}",
        "/-- `RIGHT_ASSOCIATIVE_OPERATORS` -/",
        f"def climbRightAssoc : List String := {names(climb['right_assoc'])}\n",
        "end Calc\nend Generated\nend Pest\n",
    ])


def export_all() -> dict:
    """write both files (only when their text changes, so that an unchanged tree costs no
    rebuild); returns what was read, for the engine's coverage record"""
    tables = calc_tables()
    changed = []
    if write_if_changed(GENERATED / "CalcTables.lean", export_calc(tables)):
        changed.append("CalcTables.lean")
    if write_if_changed(GENERATED / "JsonGrammars.lean", export_json()):
        changed.append("JsonGrammars.lean")
    return {"tables": tables, "changed": changed}


if __name__ == "__main__":
    print(export_all())
