"""pest's meta-grammar as an oracle for the grammar front end (properties C10, C11).

* `META` — tests/grammars/meta.pest transcribed by hand, rule by rule, into small tuples.  It
  does NOT go through the front end under test; `meta_g_line()` serialises it for the Lean
  driver's `G` request, and `P spec grammar_rules 0 <fuel> <text>` then runs the *executable
  Lean specification of pest's PEG semantics* (lean/PestModel/Spec.lean) on it: `ok <pairs>`
  means "this text is a syntactically valid pest v2 grammar", and `<pairs>` is pest's own
  parse tree of it.  (The transcription is compared on every run with what the real front end
  builds from the file, see eng_front.check_transcription.)
* `denote` — the reference reading of such a parse tree (a port of what pest_meta's consumer
  does): rule names, modifiers, doc comments, precedence and grouping, prefix and postfix
  chains, repetition bounds, tags, PEEK slices, decoded literals — printed in the serialised
  form of harness/pyside.py so that it can be compared with the rules the front end built.
* `SentenceGen` — random sentences of the meta-grammar (every production, trivia at every place
  where implicit WHITESPACE/COMMENT applies).
"""

from __future__ import annotations

import random

# ---------------------------------------------------------------- the transcription
# expr: ("s", text) ("ci", text) ("rg", a, b) ("id", name) ("seq", [..]) ("ch", [..]) ("opt", e)
#       ("rep", e) ("rep1", e) ("x", n, e) ("mm", m, n, e) ("not", e) ("g", e) = parentheses
#       ("ANY",) ("SOI",)        modifiers: "" "_" "@" "$"


def _s(t):
    return ("s", t)


def _id(n):
    return ("id", n)


def _seq(*xs):
    return ("seq", list(xs))


def _ch(*xs):
    return ("ch", list(xs))


def _g(e):
    return ("g", e)


ANY = ("ANY",)
_ident_body = _seq(("not", _s("PUSH")), _g(_ch(_s("_"), _id("alpha"))), ("rep", _g(_ch(_s("_"), _id("alpha_num")))))
_rest_of_line = ("rep", _g(_seq(("not", _id("newline")), ANY)))

META: list[tuple[str, str, tuple]] = [
    ("grammar_rules", "_", _seq(("SOI",), ("rep", _id("grammar_doc")), ("rep", _id("grammar_rule")), _id("EOI"))),
    ("grammar_rule", "", _ch(
        _seq(_id("identifier"), _id("assignment_operator"), ("opt", _id("modifier")), _id("opening_brace"),
             _id("expression"), _id("closing_brace")),
        _id("line_doc"))),
    ("assignment_operator", "", _s("=")),
    ("opening_brace", "", _s("{")),
    ("closing_brace", "", _s("}")),
    ("opening_paren", "", _s("(")),
    ("closing_paren", "", _s(")")),
    ("opening_brack", "", _s("[")),
    ("closing_brack", "", _s("]")),
    ("modifier", "_", _ch(_id("silent_modifier"), _id("atomic_modifier"), _id("compound_atomic_modifier"),
                          _id("non_atomic_modifier"))),
    ("silent_modifier", "", _s("_")),
    ("atomic_modifier", "", _s("@")),
    ("compound_atomic_modifier", "", _s("$")),
    ("non_atomic_modifier", "", _s("!")),
    ("tag_id", "@", _seq(_s("#"), _g(_ch(_s("_"), _id("alpha"))), ("rep", _g(_ch(_s("_"), _id("alpha_num")))))),
    ("node_tag", "_", _seq(_id("tag_id"), _id("assignment_operator"))),
    ("expression", "", _seq(("opt", _id("choice_operator")), _id("term"),
                            ("rep", _g(_seq(_id("infix_operator"), _id("term")))))),
    ("term", "", _seq(("opt", _id("node_tag")), ("rep", _id("prefix_operator")), _id("node"),
                      ("rep", _id("postfix_operator")))),
    ("node", "_", _ch(_seq(_id("opening_paren"), _id("expression"), _id("closing_paren")), _id("terminal"))),
    ("terminal", "_", _ch(_id("_push_literal"), _id("_push"), _id("peek_slice"), _id("identifier"), _id("string"),
                          _id("insensitive_string"), _id("range"))),
    ("prefix_operator", "_", _ch(_id("positive_predicate_operator"), _id("negative_predicate_operator"))),
    ("infix_operator", "_", _ch(_id("sequence_operator"), _id("choice_operator"))),
    ("postfix_operator", "_", _ch(_id("optional_operator"), _id("repeat_operator"), _id("repeat_once_operator"),
                                  _id("repeat_exact"), _id("repeat_min"), _id("repeat_max"), _id("repeat_min_max"))),
    ("positive_predicate_operator", "", _s("&")),
    ("negative_predicate_operator", "", _s("!")),
    ("sequence_operator", "", _s("~")),
    ("choice_operator", "", _s("|")),
    ("optional_operator", "", _s("?")),
    ("repeat_operator", "", _s("*")),
    ("repeat_once_operator", "", _s("+")),
    ("repeat_exact", "", _seq(_id("opening_brace"), _id("number"), _id("closing_brace"))),
    ("repeat_min", "", _seq(_id("opening_brace"), _id("number"), _id("comma"), _id("closing_brace"))),
    ("repeat_max", "", _seq(_id("opening_brace"), _id("comma"), _id("number"), _id("closing_brace"))),
    ("repeat_min_max", "", _seq(_id("opening_brace"), _id("number"), _id("comma"), _id("number"),
                                _id("closing_brace"))),
    ("number", "@", ("rep1", ("rg", "0", "9"))),
    ("integer", "@", _ch(_id("number"), _seq(_s("-"), ("rep", _s("0")), ("rg", "1", "9"), ("opt", _id("number"))))),
    ("comma", "", _s(",")),
    ("_push", "", _seq(_s("PUSH"), _id("opening_paren"), _id("expression"), _id("closing_paren"))),
    ("_push_literal", "", _seq(_s("PUSH_LITERAL"), _id("opening_paren"), _id("string"), _id("closing_paren"))),
    ("peek_slice", "", _seq(_s("PEEK"), _id("opening_brack"), ("opt", _id("integer")), _id("range_operator"),
                            ("opt", _id("integer")), _id("closing_brack"))),
    ("identifier", "@", _ident_body),
    ("alpha", "_", _ch(("rg", "a", "z"), ("rg", "A", "Z"))),
    ("alpha_num", "_", _ch(_id("alpha"), ("rg", "0", "9"))),
    ("string", "$", _seq(_id("quote"), _id("inner_str"), _id("quote"))),
    ("insensitive_string", "", _seq(_s("^"), _id("string"))),
    ("range", "", _seq(_id("character"), _id("range_operator"), _id("character"))),
    ("character", "$", _seq(_id("single_quote"), _id("inner_chr"), _id("single_quote"))),
    ("inner_str", "@", _seq(("rep", _g(_seq(("not", _g(_ch(_s('"'), _s("\\")))), ANY))),
                            ("opt", _g(_seq(_id("escape"), _id("inner_str")))))),
    ("inner_chr", "@", _ch(_id("escape"), ANY)),
    ("escape", "@", _seq(_s("\\"), _g(_ch(_s('"'), _s("\\"), _s("r"), _s("n"), _s("t"), _s("0"), _s("'"),
                                          _id("code"), _id("unicode"))))),
    ("code", "@", _seq(_s("x"), ("x", 2, _id("hex_digit")))),
    ("unicode", "@", _seq(_s("u"), _id("opening_brace"), ("mm", 2, 6, _id("hex_digit")), _id("closing_brace"))),
    ("hex_digit", "@", _ch(("rg", "0", "9"), ("rg", "a", "f"), ("rg", "A", "F"))),
    ("quote", "", _s('"')),
    ("single_quote", "", _s("'")),
    ("range_operator", "", _s("..")),
    ("newline", "_", _ch(_s("\n"), _s("\r\n"))),
    ("WHITESPACE", "_", _ch(_s(" "), _s("\t"), _id("newline"))),
    ("line_comment", "_", _g(_seq(_s("//"), ("not", _g(_ch(_s("/"), _s("!")))), _rest_of_line))),
    ("block_comment", "_", _seq(_s("/*"), ("rep", _g(_ch(_id("block_comment"), _seq(("not", _s("*/")), ANY)))),
                                _s("*/"))),
    ("COMMENT", "_", _ch(_id("block_comment"), _id("line_comment"))),
    ("space", "_", _ch(_s(" "), _s("\t"))),
    ("grammar_doc", "$", _seq(_s("//!"), ("opt", _id("space")), _id("inner_doc"))),
    ("line_doc", "$", _seq(_s("///"), ("opt", _id("space")), _id("inner_doc"))),
    ("inner_doc", "@", _rest_of_line),
]
META_RULES = {n: (m, e) for n, m, e in META}
MODBITS = {"": 0, "_": 2, "@": 4, "$": 8, "!": 16}


def enc_str(s: str) -> str:
    return ".".join(str(ord(c)) for c in s) if s else "-"


def _ser(e) -> str:  # noqa: PLR0911
    k = e[0]
    if k == "s":
        return "S " + enc_str(e[1])
    if k == "rg":
        return f"RG {ord(e[1])} {ord(e[2])}"
    if k == "id":
        return f"ID {e[1]} -"
    if k in ("seq", "ch"):
        return f"{'SEQ' if k == 'seq' else 'CH'} {len(e[1])} " + " ".join(_ser(x) for x in e[1])
    if k == "opt":
        return "OPT " + _ser(e[1])
    if k == "rep":
        return "REP " + _ser(e[1])
    if k == "rep1":
        return "REP1 " + _ser(e[1])
    if k == "x":
        return f"REPX {e[1]} " + _ser(e[2])
    if k == "mm":
        return f"REPMM {e[1]} {e[2]} " + _ser(e[3])
    if k == "not":
        return "NOT " + _ser(e[1])
    if k == "g":
        return "GRP - " + _ser(e[1])
    if k == "ANY":
        return "RULE ANY 2 1 ANY"
    if k == "SOI":
        return "RULE SOI 2 1 SOI"
    raise ValueError(k)


def meta_rules_ser() -> list[str]:
    """one `R …` item per rule (EOI, the only built-in referenced by name, first: this is
    the order of `Parser.rules`)"""
    return ["R EOI 0 b EOI"] + [f"R {n} {MODBITS[m]} g {_ser(e)}" for n, m, e in META]


def meta_g_line() -> str:
    rs = meta_rules_ser()
    return f"G {len(rs)} " + " ".join(rs)


def oracle_request(text: str, fuel: int | None = None) -> str:
    # recursion depth of the spec on the meta-grammar: a few frames per character at worst
    fuel = fuel or (60 * len(text) + 2000)
    return f"P spec grammar_rules 0 {fuel} {enc_str(text)}"


# ---------------------------------------------------------------- pairs


def parse_pairs(s: str):
    """`[(name,start,end,tag,[children])…]` → nested tuples (name, start, end, children)"""
    pos = 0

    def plist():
        nonlocal pos
        assert s[pos] == "[", s[pos : pos + 20]
        pos += 1
        out = []
        while s[pos] == "(":
            out.append(ppair())
        assert s[pos] == "]"
        pos += 1
        return out

    def ppair():
        nonlocal pos
        pos += 1
        j = s.index(",", pos)
        name = s[pos:j]
        pos = j + 1
        j = s.index(",", pos)
        a = int(s[pos:j])
        pos = j + 1
        j = s.index(",", pos)
        b = int(s[pos:j])
        pos = j + 1
        j = s.index(",", pos)
        pos = j + 1
        ch = plist()
        assert s[pos] == ")"
        pos += 1
        return (name, a, b, ch)

    out = plist()
    assert pos == len(s), (pos, len(s))
    return out


# ---------------------------------------------------------------- the reference reading of escapes


class SpecError(Exception):
    """the literal does not denote a string (only: an escape beyond U+10FFFF)"""


_SIMPLE = {"n": "\n", "r": "\r", "t": "\t", "\\": "\\", '"': '"', "'": "'", "0": "\0"}


def spec_unescape(body: str) -> str:
    """what the body of a pest string/character literal denotes (pest_meta `unescape`):
    \\n \\r \\t \\\\ \\" \\' \\0, \\xHH = code point 0xHH, \\u{H…} (2–6 digits) = that code point.
    Only called on bodies the meta-grammar accepted."""
    out, i = [], 0
    while i < len(body):
        c = body[i]
        if c != "\\":
            out.append(c)
            i += 1
            continue
        d = body[i + 1]
        if d in _SIMPLE:
            out.append(_SIMPLE[d])
            i += 2
        elif d == "x":
            out.append(chr(int(body[i + 2 : i + 4], 16)))
            i += 4
        elif d == "u":
            j = body.index("}", i)
            v = int(body[i + 3 : j], 16)
            if v > 0x10FFFF:
                raise SpecError(f"\\u{{{body[i + 3 : j]}}} is beyond U+10FFFF")
            out.append(chr(v))
            i = j + 1
        else:
            raise AssertionError("not an escape: " + body[i : i + 2])
    return "".join(out)


# ---------------------------------------------------------------- denote

KEYWORD_NODES = {"PEEK": "PEEK", "POP": "POP", "DROP": "DROP", "PEEK_ALL": "PEEKALL", "POP_ALL": "POPALL"}
MOD_OF = {"silent_modifier": 2, "atomic_modifier": 4, "compound_atomic_modifier": 8, "non_atomic_modifier": 16}


class Denote:
    """expected rule table for a text, from pest's parse tree of it.

    Representation conventions of python-pest that are *not* part of what is checked (they
    are how its trees spell the same structure):
      * a parenthesised expression is a `Group` node (`GRP`);
      * right-nested `a ~ (b ~ c)` / `a | (b | c)` chains produced by the right-associative
        infix operators are n-ary `SEQ n` / `CH n` nodes;
      * PEEK POP DROP PEEK_ALL POP_ALL (pest: built-in rules) are dedicated node kinds;
      * a reference to a built-in rule other than EOI is printed `ID <name> -` (the real
        tree holds the shared built-in rule object; compared by name);
      * a tag is printed only where the serialised form has a slot for it: on the term's
        node when that is an identifier of a grammar rule or a parenthesised group and the
        term has no prefix operator.
    """

    def __init__(self, text: str, builtins: set[str]):
        self.t = text
        self.builtins = builtins

    def doc(self, p) -> str:
        # grammar_doc = ${ "//!" ~ space? ~ inner_doc }, line_doc = ${ "///" ~ space? ~ inner_doc }: the doc line
        # is inner_doc, the optional blank belongs to the marker
        return self.txt(p[3][0])

    def txt(self, p) -> str:
        return self.t[p[1] : p[2]]

    def grammar(self, pairs):
        gdocs, rules, pending = [], {}, []
        for p in pairs:
            if p[0] == "grammar_doc":
                gdocs.append(self.doc(p))
            elif p[0] == "grammar_rule":
                ch = p[3]
                if ch[0][0] == "line_doc":
                    pending.append(self.doc(ch[0]))
                    continue
                name = self.txt(ch[0])
                mod = 0
                for c in ch:
                    if c[0] in MOD_OF:
                        mod = MOD_OF[c[0]]
                expr = next(c for c in ch if c[0] == "expression")
                # dict semantics for a repeated name: the later definition, at the first position
                rules[name] = (mod, pending, self.expression(expr))
                pending = []
            else:
                assert p[0] == "EOI", p[0]
        return gdocs, rules

    def expression(self, p) -> str:
        ch = list(p[3])
        if ch and ch[0][0] == "choice_operator":
            ch = ch[1:]
        alts, cur = [], []
        for c in ch:
            if c[0] == "term":
                cur.append(self.term(c))
            elif c[0] == "choice_operator":
                alts.append(cur)
                cur = []
            else:
                assert c[0] == "sequence_operator", c[0]
        alts.append(cur)
        seqs = [a[0] if len(a) == 1 else f"SEQ {len(a)} " + " ".join(a) for a in alts]
        return seqs[0] if len(seqs) == 1 else f"CH {len(seqs)} " + " ".join(seqs)

    def term(self, p) -> str:  # noqa: PLR0912
        ch = list(p[3])
        tag = None
        if ch[0][0] == "tag_id":
            tag = self.txt(ch[0])[1:]
            ch = ch[2:]
        prefixes = []
        while ch[0][0] in ("positive_predicate_operator", "negative_predicate_operator"):
            prefixes.append("AND" if ch[0][0].startswith("pos") else "NOT")
            ch = ch[1:]
        shown = tag if not prefixes else None
        if ch[0][0] == "opening_paren":
            node = f"GRP {shown or '-'} " + self.expression(ch[1])
            ch = ch[3:]
        else:
            node = self.terminal(ch[0], shown)
            ch = ch[1:]
        for c in ch:
            k = c[0]
            nums = [spec_int(self.txt(x)) for x in c[3] if x[0] == "number"]
            if k == "optional_operator":
                node = "OPT " + node
            elif k == "repeat_operator":
                node = "REP " + node
            elif k == "repeat_once_operator":
                node = "REP1 " + node
            elif k == "repeat_exact":
                node = f"REPX {nums[0]} " + node
            elif k == "repeat_min":
                node = f"REPMIN {nums[0]} " + node
            elif k == "repeat_max":
                node = f"REPMAX {nums[0]} " + node
            elif k == "repeat_min_max":
                node = f"REPMM {nums[0]} {nums[1]} " + node
            else:
                raise AssertionError(k)
        for op in reversed(prefixes):
            node = op + " " + node
        return node

    def string(self, p) -> str:
        return spec_unescape(self.txt(p[3][1]))

    def terminal(self, p, tag) -> str:  # noqa: PLR0911
        k = p[0]
        if k == "identifier":
            name = self.txt(p)
            if name in KEYWORD_NODES:
                return KEYWORD_NODES[name]
            if name != "EOI" and name in self.builtins:
                return f"ID {name} -"
            return f"ID {name} {tag or '-'}"
        if k == "string":
            return "S " + enc_str(self.string(p))
        if k == "insensitive_string":
            return "CI " + enc_str(self.string(p[3][0]))
        if k == "range":
            a, b = (spec_unescape(self.txt(c[3][1])) for c in (p[3][0], p[3][2]))
            return f"RG {ord(a)} {ord(b)}"
        if k == "_push":
            return "PUSH " + self.expression(p[3][1])
        if k == "_push_literal":
            return "PUSHL " + enc_str(self.string(p[3][1]))
        if k == "peek_slice":
            op = next(c for c in p[3] if c[0] == "range_operator")
            a = [spec_int(self.txt(c)) for c in p[3] if c[0] == "integer" and c[1] < op[1]]
            b = [spec_int(self.txt(c)) for c in p[3] if c[0] == "integer" and c[1] > op[1]]
            return f"SLICE {a[0] if a else '-'} {b[0] if b else '-'}"
        raise AssertionError(k)


def spec_int(s: str) -> int:
    """the value of a `number` / `integer` of the meta-grammar; leading zeros are stripped first so that CPython's
    limit on the length of a digit string (4300) only concerns significant digits"""
    neg = s.startswith("-")
    digits = s.lstrip("-").lstrip("0") or "0"
    return -int(digits) if neg else int(digits)


def denote(text: str, pairs_str: str, builtins: set[str]):
    """(grammar docs, {name: (modifier bits, doc lines, serialised expression)})"""
    return Denote(text, builtins).grammar(parse_pairs(pairs_str))


# ---------------------------------------------------------------- sentences of the meta-grammar

TRIVIA = ["", "", "", " ", " ", " ", "\n", "\t", "\r\n", "  ", "/*c*/", "/* a /* b */ c */", "// c\n", "//\n",
          " /**/ ", "/* * / */", "// x\r\n", "/*/*/**/*/*/"]
IDENT_POOL = ["a", "b", "rule_1", "_", "_x", "Ab9", "x", "EOI", "ANY", "SOI", "ASCII_DIGIT", "NEWLINE", "LETTER",
              "WHITESPACE", "COMMENT", "PEEK", "POP", "DROP", "PEEK_ALL", "POP_ALL", "POPCORN", "PEEKABOO", "DROPS",
              "POP_ALLY", "PEEK_ALLx", "PUSHY", "PUSH", "PUSH_LITERAL", "PUSH_LITERALLY", "aPUSH", "PEE", "P", "z9_"]
STR_CHARS = "ab c'~|{}()[]*/#\n\té漢\U0001F600\r"
ESCAPES_OK = ['\\n', '\\r', '\\t', '\\\\', '\\"', "\\'", '\\0', '\\x41', '\\x7f', '\\xfF', '\\x00', '\\u{41}', '\\u{041}',
              '\\u{0041}', '\\u{1F600}', '\\u{01F600}', '\\u{10FFFF}', '\\u{d7ff}', '\\u{E000}', '\\u{00}', '\\u{aB}']
ESCAPES_BAD = ['\\q', '\\x4', '\\xg1', '\\x', '\\u{1}', '\\u{1234567}', '\\u{}', '\\u41', '\\u{41', '\\u', '\\/', '\\b',
               '\\f', '\\N', '\\u{12g4}', '\\ ', '\\u{110000}', '\\u{D800}', '\\u{FFFFFF}']


class SentenceGen:
    """random walk over META; `wild` ∈ [0,1] = probability of a deliberately odd choice"""

    def __init__(self, rng: random.Random, wild: float = 0.15, trivia: float = 0.5):
        self.rng, self.wild, self.trivia = rng, wild, trivia

    def triv(self) -> str:
        r = self.rng
        if r.random() > self.trivia:
            return ""
        return "".join(r.choice(TRIVIA) for _ in range(r.choice([1, 1, 1, 2])))

    def gen(self, name: str = "grammar_rules", depth: int = 0) -> str:
        return self.rule(name, depth, False)

    def rule(self, name: str, depth: int, atomic: bool) -> str:  # noqa: PLR0911, PLR0912
        r = self.rng
        odd = r.random() < self.wild
        if name == "identifier":
            return r.choice(IDENT_POOL) if odd or r.random() < 0.5 else r.choice("abcxyz_") + "".join(
                r.choice("ab_09Z") for _ in range(r.choice([0, 1, 3])))
        if name == "tag_id":
            return "#" + r.choice(["t", "tag", "_", "_1", "T9", "a_b", "PUSH", "x"])
        if name == "number":
            return r.choice(["0", "1", "2", "3", "10", "007", "12"])
        if name == "integer":
            return r.choice(["0", "1", "2", "-1", "-2", "-01", "-10", "007", "-007"] + (["-0", "-", "+1", "--1", "-00"] if odd else []))
        if name == "inner_str":
            out = []
            for _ in range(r.choice([0, 1, 1, 2, 3, 5])):
                x = r.random()
                if x < 0.55:
                    out.append(r.choice(STR_CHARS))
                elif x < 0.95 or not odd:
                    out.append(r.choice(ESCAPES_OK))
                else:
                    out.append(r.choice(ESCAPES_BAD))
            return "".join(out)
        if name == "inner_chr":
            x = r.random()
            if odd and x < 0.3:
                return r.choice(ESCAPES_BAD + ["ab", "", "\\"])
            if x < 0.5:
                return r.choice(ESCAPES_OK)
            return r.choice(STR_CHARS + '"\\' if odd else STR_CHARS + '"')
        if name == "inner_doc":
            return "".join(r.choice("ab c/*!{}=\"\té") for _ in range(r.choice([0, 1, 4, 9]))) + (
                r.choice(["\r", " ", ""]) if odd else "")
        if name == "expression" and depth > 5:
            return r.choice(['"x"', "a", "ANY", "'a'..'z'"])
        mod, e = META_RULES[name]
        inner_atomic = True if mod == "@" else False if mod in ("$", "!") else atomic
        if mod == "$":
            inner_atomic = True          # no implicit trivia directly inside a `$` rule either
        return self.expr(e, depth + 1, inner_atomic)

    def sep(self, atomic: bool) -> str:
        if atomic:
            return " " if self.rng.random() < self.wild * 0.2 else ""
        return self.triv()

    def expr(self, e, depth: int, atomic: bool) -> str:  # noqa: PLR0911, PLR0912
        r = self.rng
        k = e[0]
        if k == "s":
            return e[1]
        if k == "rg":
            return chr(r.randint(ord(e[1]), ord(e[2])))
        if k == "id":
            if e[1] == "EOI":
                return ""
            return self.rule(e[1], depth, atomic)
        if k == "seq":
            parts = [self.expr(x, depth, atomic) for x in e[1]]
            out = parts[0]
            prev_visible = e[1][0][0] not in ("SOI", "not")
            for x, p in zip(e[1][1:], parts[1:]):
                out += (self.sep(atomic) if prev_visible or True else "") + p
                prev_visible = True
            return out
        if k == "ch":
            alts = e[1]
            if depth > 7:
                alts = alts[-3:]       # terminals come last in `node`/`terminal`
            return self.expr(r.choice(alts), depth, atomic)
        if k == "opt":
            return self.expr(e[1], depth, atomic) if r.random() < 0.5 else ""
        if k in ("rep", "rep1"):
            lo = 1 if k == "rep1" else 0
            n = r.choice([lo, lo, 1, 1, 2, 3]) if depth < 6 else r.choice([lo, 1])
            n = max(n, lo)
            return self.sep(atomic).join(self.expr(e[1], depth, atomic) for _ in range(n))
        if k == "x":
            n = e[1] + (r.choice([-1, 1]) if r.random() < self.wild else 0)
            return "".join(self.expr(e[2], depth, atomic) for _ in range(n))
        if k == "mm":
            n = r.randint(e[1], e[2]) + (r.choice([-2, 1, 3]) if r.random() < self.wild else 0)
            return "".join(self.expr(e[3], depth, atomic) for _ in range(max(n, 0)))
        if k == "not":
            return ""
        if k == "g":
            return self.expr(e[1], depth, atomic)
        if k == "ANY":
            return r.choice(STR_CHARS)
        if k == "SOI":
            return ""
        raise ValueError(k)
