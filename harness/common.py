"""Shared machinery of the checks: paths, Lean build + axiom audit, driver invocation,
evidence files, verdict printing.  See DESIGN.md §5 (verdict logic)."""

from __future__ import annotations

import contextlib
import fcntl
import hashlib
import json
import os
import re
import subprocess
import sys
import tempfile
import time
from pathlib import Path

ROOT = Path(__file__).resolve().parent.parent          # /verif (or a snapshot of it)
REPO = Path(os.environ.get("PEST_REPO", "/repo"))
LEAN = ROOT / "lean"
DRIVER = LEAN / ".lake" / "build" / "bin" / "pestdriver"
WORK = ROOT / ".work"
EVIDENCE = ROOT / "evidence"
REPLAY = ROOT / "replay"
GENERATED = LEAN / "PestModel" / "Generated"

ALLOWED_AXIOMS = {"propext", "Classical.choice", "Quot.sound"}
NCPU = max(1, min(16, os.cpu_count() or 1))

TRUSTED_BASE = [
    "Lean 4.33.0 kernel (lake build re-checks every proof; thorough tier: leanchecker on the .olean files)",
    "axioms: at most propext, Classical.choice, Quot.sound (audited with #print axioms on every run); "
    "no sorry/admit/native_decide/bv_decide/added axioms (grep on every run)",
    "the hand-written Lean model is a reading of the Python source; it is tied to /repo's working tree "
    "only by the behavioural correspondence run of this check (exact on every explored case, not beyond)",
    "tables and bundled grammar trees in lean/PestModel/Generated are regenerated from /repo by harness/export.py "
    "(Python introspection) before every build",
    "CPython, the `regex` package and the standard library behave as documented",
]


def use_repo() -> None:
    """Make `import pest` resolve to the working tree under REPO (never a cached copy)."""
    src = str(REPO / "src")
    if sys.path[0] != src:
        sys.path.insert(0, src)
    for name in list(sys.modules):
        if name == "pest" or name.startswith("pest."):
            mod = sys.modules[name]
            f = getattr(mod, "__file__", "") or ""
            if not f.startswith(src):
                del sys.modules[name]


def seed() -> int:
    try:
        return int(os.environ.get("VERIF_SEED", "0"))
    except ValueError:
        return 0


@contextlib.contextmanager
def build_lock():
    WORK.mkdir(exist_ok=True)
    with open(WORK / "build.lock", "w") as fh:
        fcntl.flock(fh, fcntl.LOCK_EX)
        try:
            yield
        finally:
            fcntl.flock(fh, fcntl.LOCK_UN)


def write_if_changed(path: Path, text: str) -> bool:
    path.parent.mkdir(parents=True, exist_ok=True)
    if path.exists() and path.read_text() == text:
        return False
    path.write_text(text)
    return True


def lake_build(targets: list[str]) -> tuple[bool, str]:
    """Build the given lake targets (modules or the driver).  Returns (ok, log)."""
    with build_lock():
        p = subprocess.run(
            ["lake", "build", *targets], cwd=LEAN, capture_output=True, text=True
        )
    return p.returncode == 0, (p.stdout + p.stderr)


def failing_modules(log: str) -> list[str]:
    return sorted(set(re.findall(r"✖ \[\d+/\d+\] Building ([\w.]+)", log)))


def failing_decls(log: str) -> list[str]:
    """Best effort: names of theorems whose proof no longer checks, from lake's error output."""
    out = []
    for m in re.finditer(r"error: ([\w/.]+\.lean):(\d+):(\d+)", log):
        path, line = LEAN / m.group(1), int(m.group(2))
        try:
            src = path.read_text().splitlines()
        except OSError:
            continue
        name = None
        for i in range(min(line, len(src)) - 1, -1, -1):
            mm = re.match(r"\s*(?:@\[[^\]]*\]\s*)?(?:theorem|lemma|def|example|instance)\s+([\w.']+)?", src[i])
            if mm:
                name = mm.group(1) or f"example@{i + 1}"
                break
        out.append(f"{m.group(1)}:{line} ({name})")
    return sorted(set(out))


# the module that carries every obligation of a property (default PestModel.Props.<ID>)
PROP_MODULE = {"C10": "PestModel.Props.C10Exact", "C06": "PestModel.Lemmas.OptSoundKeepsAll", "C07": "PestModel.Lemmas.OptSoundKeepsAll",
               "C13": "PestModel.Props.AllModes", "C16": "PestModel.Props.AllModes", "C02": "PestModel.Props.AllModes",
               "C04": "PestModel.Props.AllModes", "C05": "PestModel.Props.AllModes"}


def prop_module(prop: str) -> str:
    return PROP_MODULE.get(prop, f"PestModel.Props.{prop}")


def audit(prop: str, theorems: list[str]) -> dict[str, list[str] | None]:
    """`#print axioms` for each theorem.  Returns name -> axiom list (None = not found / error)."""
    WORK.mkdir(exist_ok=True)
    mod = prop_module(prop)
    src = f"import {mod}\n" + "".join(f"#print axioms {t}\n" for t in theorems)
    f = WORK / f"Audit_{prop}_{os.getpid()}.lean"
    f.write_text(src)
    try:
        p = subprocess.run(["lake", "env", "lean", str(f)], cwd=LEAN, capture_output=True, text=True)
    finally:
        with contextlib.suppress(OSError):
            f.unlink()
    text = p.stdout + p.stderr
    res: dict[str, list[str] | None] = {t: None for t in theorems}
    for t in theorems:
        m = re.search(r"'" + re.escape(t) + r"' depends on axioms: \[([^\]]*)\]", text, re.S)
        if m:
            res[t] = [a.strip() for a in m.group(1).replace("\n", " ").split(",") if a.strip()]
        elif re.search(r"'" + re.escape(t) + r"' does not depend on any axioms", text):
            res[t] = []
    return res


_FORBIDDEN = re.compile(
    r"\bsorry\b|\badmit\b|^\s*axiom\s|native_decide|bv_decide|implemented_by|\bunsafe\s|maxHeartbeats\s+0\b"
)


def strip_lean_comments(src: str) -> str:
    out, i, depth, n = [], 0, 0, len(src)
    while i < n:
        if src.startswith("/-", i):
            depth += 1
            i += 2
        elif depth and src.startswith("-/", i):
            depth -= 1
            i += 2
        elif depth:
            if src[i] == "\n":
                out.append("\n")
            i += 1
        elif src.startswith("--", i):
            while i < n and src[i] != "\n":
                i += 1
        else:
            out.append(src[i])
            i += 1
    return "".join(out)


def import_closure(module: str) -> list[Path]:
    """the project files a module depends on (transitively), itself included"""
    seen: dict[str, Path] = {}
    todo = [module]
    while todo:
        m = todo.pop()
        if m in seen or not m.startswith("PestModel"):
            continue
        path = LEAN / (m.replace(".", "/") + ".lean")
        if not path.exists():
            continue
        seen[m] = path
        for mm in re.findall(r"^\s*(?:public\s+)?import\s+([\w.]+)", path.read_text(), re.M):
            todo.append(mm)
    return sorted(seen.values())


def grep_forbidden(module: str | None = None) -> list[str]:
    """forbidden tokens in the files the property's module depends on (all project files if None)"""
    hits = []
    files = import_closure(module) if module else sorted((LEAN / "PestModel").rglob("*.lean"))
    for path in files:
        text = strip_lean_comments(path.read_text())
        for ln, line in enumerate(text.splitlines(), 1):
            if _FORBIDDEN.search(line):
                hits.append(f"{path.relative_to(LEAN)}:{ln}: {line.strip()}")
    return hits


def run_driver(lines: list[str], shards: int | None = None) -> list[str]:
    """Feed request lines to the compiled Lean model; one answer line per request."""
    if not lines:
        return []
    if not DRIVER.exists():
        raise RuntimeError(f"driver not built: {DRIVER}")
    shards = shards or (NCPU if len(lines) > 20000 else 1)
    shards = max(1, min(shards, len(lines)))
    WORK.mkdir(exist_ok=True)
    size = (len(lines) + shards - 1) // shards
    procs = []
    with tempfile.TemporaryDirectory(dir=WORK) as td:
        for i in range(shards):
            chunk = lines[i * size : (i + 1) * size]
            if not chunk:
                continue
            fin = Path(td) / f"in{i}"
            fin.write_text("\n".join(chunk) + "\n")
            fh = open(fin)
            fout = Path(td) / f"out{i}"
            oh = open(fout, "w")
            # answers go to a file, not a pipe: with several shards a full pipe would stall all but the one being read
            p = subprocess.Popen([str(DRIVER)], stdin=fh, stdout=oh, text=True)
            procs.append((p, fh, len(chunk), oh, fout))
        out: list[str] = []
        for p, fh, n, oh, fout in procs:
            p.wait()
            fh.close()
            oh.close()
            data = fout.read_text()
            got = data.split("\n")
            if got and got[-1] == "":
                got.pop()
            if p.returncode != 0 or len(got) != n:
                got = (got + ["driver-error"] * n)[:n]
            out.extend(got)
    return out


class Outcome:
    """Collects what a check run found; `finish` writes evidence, prints the verdict lines
    and returns the exit code."""

    def __init__(self, prop: str, tier: str, level: str):
        self.prop, self.tier, self.level = prop, tier, level
        self.t0 = time.time()
        self.violations: list[tuple[str, bool]] = []   # (replay path, has_failing_input)
        self.known: list[str] = []
        self.coverage: dict = {}
        self.assumptions: list[str] = []
        self.infra_error: str | None = None

    def save_replay(self, payload: dict) -> str:
        REPLAY.mkdir(exist_ok=True)
        payload = {"property": self.prop, **payload}
        blob = json.dumps(payload, sort_keys=True, ensure_ascii=True)
        h = hashlib.sha1(blob.encode()).hexdigest()[:10]
        path = REPLAY / f"{self.prop}-{h}.json"
        path.write_text(json.dumps(payload, indent=1, ensure_ascii=True))
        return str(path.relative_to(ROOT))

    def violation(self, payload: dict) -> None:
        """A concrete failing input/history on the implementation."""
        self.violations.append((self.save_replay(payload), True))

    def unproved(self, payload: dict) -> None:
        """A proof obligation or correspondence no longer checks and no failing input was found."""
        self.violations.append((self.save_replay(payload), False))

    def finish(self) -> int:
        EVIDENCE.mkdir(exist_ok=True)
        ev = {
            "property_id": self.prop,
            "tier": self.tier,
            "seed": seed(),
            "level": self.level,
            "coverage": self.coverage,
            "assumptions": self.assumptions,
            "wall_s": round(time.time() - self.t0, 3),
            "violations": len(self.violations),
        }
        (EVIDENCE / f"{self.prop}.json").write_text(json.dumps(ev, indent=1, ensure_ascii=True) + "\n")
        for k in self.known:
            print(f"KNOWN-FINDING: property={self.prop} {k}")
        if self.infra_error:
            print(f"INFRASTRUCTURE-ERROR property={self.prop}: {self.infra_error}", file=sys.stderr)
            return 2
        for path, concrete in self.violations:
            tail = "" if concrete else " no-failing-input-found"
            print(f"VIOLATION property={self.prop} replay={path}{tail}")
        if self.violations:
            return 1
        print(f"OK property={self.prop} tier={self.tier} wall_s={ev['wall_s']}")
        return 0


def proof_stage(out: Outcome, prop: str, theorems: list[str], extra_targets: list[str] | None = None) -> dict:
    """Steps 1–2 of DESIGN §5: build the property's module and the driver, audit axioms.
    Returns a dict describing which obligations are discharged; never decides the verdict
    (a broken proof is not by itself a violation: the caller runs the failing-input search)."""
    targets = [prop_module(prop), "pestdriver", *(extra_targets or [])]
    ok, log = lake_build(targets)
    info: dict = {"build_ok": ok, "obligations": len(theorems), "discharged": 0, "broken": []}
    if not ok:
        info["broken"] = failing_decls(log) or failing_modules(log) or ["lake build failed"]
        info["log_tail"] = log[-3000:]
        # is the driver still usable?
        ok2, _ = lake_build(["pestdriver"])
        info["driver_ok"] = ok2 and DRIVER.exists()
        return info
    info["driver_ok"] = True
    ax = audit(prop, theorems)
    bad = []
    for t, a in ax.items():
        if a is None:
            bad.append(f"{t}: not found")
        elif not set(a) <= ALLOWED_AXIOMS:
            bad.append(f"{t}: axioms {a}")
        else:
            info["discharged"] += 1
    forb = grep_forbidden(prop_module(prop))
    if forb:
        bad.extend("forbidden: " + h for h in forb)
    info["axioms"] = {t: a for t, a in ax.items()}
    info["broken"] = bad
    if out.tier == "thorough":
        p = subprocess.run(
            ["lake", "env", "leanchecker", prop_module(prop)], cwd=LEAN, capture_output=True, text=True
        )
        info["leanchecker"] = "ok" if p.returncode == 0 else (p.stdout + p.stderr)[-500:]
        if p.returncode != 0:
            info["broken"].append("leanchecker rejected " + prop_module(prop))
    return info


def proof_coverage(info: dict, prop: str) -> dict:
    return {
        "obligations": info["obligations"],
        "discharged": info["discharged"],
        "checker_cmd": f"cd lean && lake build {prop_module(prop)} && lake env lean <#print axioms for each obligation>",
        "trusted_base": TRUSTED_BASE,
        "axioms": info.get("axioms", {}),
        "broken_obligations": info.get("broken", []),
        **({"leanchecker": info["leanchecker"]} if "leanchecker" in info else {}),
    }


# ---------------------------------------------------------------- killable worker processes

def run_killable(fn, jobs: list, per_job_s: float, ncpu: int | None = None):
    """fn over jobs in at most ncpu daemon child processes, each with a deadline after which it is killed (a loop inside a C
    extension cannot be interrupted by a signal handler).  Yields ("ok", result), ("hung", (job, pid)) or ("died", (job, why))."""
    import multiprocessing as _mp
    ncpu = ncpu or NCPU
    ctx = _mp.get_context("fork")
    pending = list(reversed(jobs))
    running: list = []

    def child(job, conn):
        try:
            conn.send(("ok", fn(job)))
        except BaseException as e:  # noqa: BLE001
            import traceback
            conn.send(("exc", f"{type(e).__name__}: {e}\n{traceback.format_exc()[-1500:]}"))
        finally:
            conn.close()

    while pending or running:
        while pending and len(running) < ncpu:
            job = pending.pop()
            a, b = ctx.Pipe(duplex=False)
            pr = ctx.Process(target=child, args=(job, b), daemon=True)
            pr.start()
            b.close()
            running.append((pr, a, job, time.time()))
        time.sleep(0.05)
        still = []
        for pr, a, job, t0 in running:
            if a.poll(0):
                try:
                    kind, res = a.recv()
                except EOFError:
                    kind, res = "exc", "worker died"
                pr.join()
                yield ("ok", res) if kind == "ok" else ("died", (job, res))
            elif not pr.is_alive():
                pr.join()
                yield "died", (job, "worker died without an answer (killed for memory?)")
            elif time.time() - t0 > per_job_s:
                pid = pr.pid
                pr.kill()
                pr.join()
                yield "hung", (job, pid)
            else:
                still.append((pr, a, job, t0))
        running = still
