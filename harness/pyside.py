"""The implementation's side of the line protocol: serialise real `Expression` trees and
run real parsers, printing exactly what the Lean driver prints (lean/PestModel/Drv/Core.lean)."""

from __future__ import annotations

import sys
import types

from common import use_repo

use_repo()

from pest import Parser  # noqa: E402
from pest.exceptions import PestParsingError  # noqa: E402
from pest.grammar import expressions as X  # noqa: E402
from pest.grammar.expression import RegexExpression  # noqa: E402
from pest.grammar.expressions.choice import ChoiceCase, ChoiceLiteral, ChoiceRange  # noqa: E402
from pest.grammar.rule import BuiltInRule, Rule  # noqa: E402
from pest.grammar.rules import special  # noqa: E402
from pest.grammar.rules.unicode import UnicodePropertyRule  # noqa: E402

sys.setrecursionlimit(20000)


def enc_str(s: str) -> str:
    return ".".join(str(ord(c)) for c in s) if s else "-"


def enc_opt(t) -> str:
    return "-" if t is None else str(t)


class Unsupported(Exception):
    pass


def ser_alt(c) -> str:
    if isinstance(c, ChoiceLiteral):
        return f"L {enc_str(c.value)} {'i' if c.case == ChoiceCase.INSENSITIVE else 's'}"
    if isinstance(c, ChoiceRange):
        return f"R {ord(c.start)} {ord(c.end)}"
    if isinstance(c, UnicodePropertyRule):
        return f"U {c.name}"
    raise Unsupported(type(c).__name__)


# classes met in a rule table that the model has no constructor for, but which derive from one it has: serialised as that base
# class (the model then answers for the base class, and any behaviour the subclass changes shows as a disagreement) and reported
UNKNOWN_SUBCLASSES: set = set()


def _known_classes():
    return (X.String, X.CIString, X.Range, X.Identifier, X.Sequence, X.Choice, X.Optional, X.Repeat, X.RepeatOnce, X.RepeatExact,
            X.RepeatMin, X.RepeatMax, X.RepeatMinMax, X.PositivePredicate, X.NegativePredicate, X.Group, X.Push, X.PushLiteral, X.Peek,
            X.Pop, X.Drop, X.PeekAll, X.PopAll, X.PeekSlice, special._Any, special._SOI, special._EOI, RegexExpression, X.SkipUntil,  # noqa: SLF001
            X.OptimizedChoice, X.OptimizedChoiceRepeat)


def ser_expr(e, uprops: set | None = None) -> str:  # noqa: PLR0911, PLR0912
    r = lambda x: ser_expr(x, uprops)  # noqa: E731
    t = type(e)
    if not isinstance(e, Rule) and t not in _known_classes():
        base = next((b for b in t.__mro__[1:] if b in _known_classes()), None)
        if base is not None:
            UNKNOWN_SUBCLASSES.add(t.__name__)
            t = base
    if t is X.String:
        return f"S {enc_str(e.value)}"
    if t is X.CIString:
        return f"CI {enc_str(e.value)}"
    if t is X.Range:
        return f"RG {ord(e.start)} {ord(e.stop)}"
    if t is X.Identifier:
        return f"ID {e.value} {enc_opt(e.tag)}"
    if isinstance(e, Rule):
        self_map = 0 if type(e).with_children is Rule.with_children else 1
        return f"RULE {e.name} {e.modifier} {self_map} {r(e.expression)}"
    if t is X.Sequence:
        return f"SEQ {len(e.expressions)}" + "".join(" " + r(x) for x in e.expressions)
    if t is X.Choice:
        return f"CH {len(e.expressions)}" + "".join(" " + r(x) for x in e.expressions)
    if t is X.Optional:
        return "OPT " + r(e.expression)
    if t is X.Repeat:
        return "REP " + r(e.expression)
    if t is X.RepeatOnce:
        return "REP1 " + r(e.expression)
    if t is X.RepeatExact:
        return f"REPX {e.number} " + r(e.expression)
    if t is X.RepeatMin:
        return f"REPMIN {e.number} " + r(e.expression)
    if t is X.RepeatMax:
        return f"REPMAX {e.number} " + r(e.expression)
    if t is X.RepeatMinMax:
        return f"REPMM {e.min} {e.max} " + r(e.expression)
    if t is X.PositivePredicate:
        return "AND " + r(e.expression)
    if t is X.NegativePredicate:
        return "NOT " + r(e.expression)
    if t is X.Group:
        return f"GRP {enc_opt(e.tag)} " + r(e.expression)
    if t is X.Push:
        return "PUSH " + r(e.expression)
    if t is X.PushLiteral:
        return "PUSHL " + enc_str(e.value)
    if t is X.Peek:
        return "PEEK"
    if t is X.Pop:
        return "POP"
    if t is X.Drop:
        return "DROP"
    if t is X.PeekAll:
        return "PEEKALL"
    if t is X.PopAll:
        return "POPALL"
    if t is X.PeekSlice:
        return f"SLICE {enc_opt(e.start)} {enc_opt(e.stop)}"
    if t is special._Any:
        return "ANY"
    if t is special._SOI:
        return "SOI"
    if t is special._EOI:
        return "EOI"
    if t is RegexExpression:
        # body of a Unicode property rule: identified by its pattern
        name = "P:" + "".join(ch if ch.isalnum() or ch in "=_" else "" for ch in e.pattern)
        if uprops is not None:
            uprops.add((name, e.pattern))
        return f"UPROP {name}"
    if t is X.SkipUntil:
        return f"SKIPU {len(e.subs)}" + "".join(" " + enc_str(s) for s in e.subs)
    if t is X.OptimizedChoice or t is X.OptimizedChoiceRepeat:
        for c in e.choices:
            if uprops is not None and isinstance(c, UnicodePropertyRule):
                uprops.add((c.name, c.expression.pattern))
        return f"OC {1 if t is X.OptimizedChoiceRepeat else 0} {len(e.choices)}" + "".join(
            " " + ser_alt(c) for c in e.choices
        )
    raise Unsupported(t.__name__)


def referenced(rules: dict) -> list[str]:
    """names of the entries of `Parser.rules` that can matter: everything that is not a
    built-in, plus the built-ins some Identifier mentions by name, plus EOI"""
    names = [n for n, r in rules.items() if not isinstance(r, BuiltInRule)]
    seen = set(names)

    def walk(e):
        if isinstance(e, X.Identifier) and e.value in rules and e.value not in seen:
            seen.add(e.value)
            names.append(e.value)
            walk(rules[e.value].expression)
        for c in e.children():
            walk(c)

    for n in list(names):
        walk(rules[n].expression)
    return names


def ser_rules(rules: dict, uprops: set | None = None, also: set | None = None) -> str:
    """`also`: names to print even if this table no longer refers to them (the optimized table is compared with the model's,
    which keeps every rule of the un-optimized table it was given, e.g. a built-in whose only reference sat inside e{,0})"""
    names = list(referenced(rules)) + [n for n in (also or ()) if n in rules]
    # dictionary order of Parser.rules
    order = [n for n in rules if n in set(names)]
    out = [str(len(order))]
    for n in order:
        r = rules[n]
        kind = "b" if isinstance(r, BuiltInRule) else "g"
        out.append(f"R {r.name} {r.modifier} {kind} {ser_expr(r.expression, uprops)}")
    return " ".join(out)


_USET_CACHE: dict[str, str] = {}


def uset_line(name: str, pattern: str) -> str:
    """code-point set of a Unicode property pattern, swept from the `regex` engine"""
    import regex as re

    if name not in _USET_CACHE:
        rx = re.compile(pattern)
        ivs, start, prev = [], None, None
        for cp in range(0x110000):
            if rx.match(chr(cp)):
                if start is None:
                    start = cp
                prev = cp
            elif start is not None:
                ivs.append((start, prev))
                start = None
        if start is not None:
            ivs.append((start, prev))
        _USET_CACHE[name] = f"US {name} " + " ".join(f"{a} {b}" for a, b in ivs)
    return _USET_CACHE[name]


# ---------------------------------------------------------------- running parsers


def enc_pair(p) -> str:
    return f"({p.name},{p.start},{p.end},{enc_opt(p.tag)},[{''.join(enc_pair(c) for c in p.children)}])"


def enc_pairs(pairs) -> str:
    return "[" + "".join(enc_pair(p) for p in pairs) + "]"


def enc_keys(d: dict) -> str:
    return ",".join(f"{k}*{len(v)}" for k, v in d.items()) if d else "-"


def run_parse(parse, rule: str, text: str, k: int = 0, *, full: bool = True) -> str:
    """result of `parse(rule, text, start_pos=k)` in the driver's answer format"""
    try:
        return "ok " + enc_pairs(parse(rule, text, start_pos=k))
    except PestParsingError as e:
        st = e.state
        if not full:
            return f"fail {st.furthest_pos}"
        stack = ",".join(f.name for f in st.furthest_stack) or "-"
        return f"fail {st.furthest_pos} E:{enc_keys(st.furthest_expected)} U:{enc_keys(st.furthest_unexpected)} S:{stack}"
    except RecursionError:
        return "oof"
    except Exception as e:  # noqa: BLE001
        return "exc " + type(e).__name__


def load_generated(source: str):
    m = types.ModuleType("pest_generated_module")
    exec(compile(source, "<generated>", "exec"), m.__dict__)  # noqa: S102
    return m


def make_parser(grammar_text: str, optimizer=None):
    return Parser.from_grammar(grammar_text, optimizer=optimizer)
