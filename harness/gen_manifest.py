"""Regenerates MANIFEST.json from the tables below (run by hand after changing a check)."""
import json
from pathlib import Path

ROOT = Path(__file__).resolve().parent.parent
props = [json.loads(l) for l in (ROOT / "properties.jsonl").read_text().splitlines() if l.strip()]

LEVEL_NOTE = ("Trusted: Lean 4.33 kernel; axioms propext/Classical.choice/Quot.sound only (audited each run with #print axioms; no sorry/"
              "native_decide/added axioms, grep each run); the hand-written Lean model is tied to /repo only by the correspondence run "
              "(exact on explored cases, not beyond); CPython and the regex package behave as documented. See DESIGN.md §8.")

T_MODEL = ("hand-written Lean 4 model (spec L0 / interpreter L1 / generated code LG / optimizer OPT) tied to the code by exact differential "
           "correspondence; property oracle evaluated on the implementation")

CHECKS = {
    "C01": ("core", "proof",
            "Theorems gen_equiv_interp / generated_parse_eq (all grammars incl. optimizer-made nodes, expressions, inputs, start positions, "
            "related states, fuel): the model LG of every generate() template, generate_rule, generate_parse_trivia and the generated parse() "
            "gives the same verdict as the interpreter model L1, exactly the same pairs (names, spans, nesting, tags) on success and the same "
            "furthest-failure position on failure, and never raises IndexError/UnboundLocalError. LG and L1 are tied to the code by exact "
            "correspondence (exec'd Parser.generate() module vs LG, Parser.parse vs L1: tree, furthest position, key lists) on random grammars "
            "from 13 feature groups and the bundled grammars; the same run compares Parser.parse with the generated parse on the same Parser. "
            "Not a theorem (checked on every generated module of the run): the source compiles/imports; generating twice is byte-identical.",
            "Lean 4 simulation proof LG ≈ L1 (state relation + frame conditions, induction on fuel) + " + T_MODEL),
    "C02": ("core", "other",
            "Correspondence + direct oracle (soundness theorems for the passes in progress): the Lean mirror of the optimizer is compared with "
            "the real Optimizer's output AS TREES for the default pipeline and random lists of default passes; opt/optgen parse results are "
            "compared with the models; the same run compares optimizer=None with Optimizer(passes), interpreted and generated.",
            T_MODEL),
    "C03": ("core", "proof",
            "Theorems interp_refines_spec / parse_agrees_with_spec (all grammars, expressions, inputs, start positions, states, fuel): the "
            "interpreter mirror L1 (Expression.parse, Rule.parse, ParserState incl. the delta-encoded Stack) refines the specification L0 of "
            "pest's semantics - same success/failure, same tree up to tags, same end state, every saved checkpoint untouched, no exception but "
            "KeyError for an undefined rule; plus the reading-level laws of L0 (ordered committed choice, greedy repetition, bounded = unrolled, "
            "predicates consume nothing, one pair per non-silent rule). L1 is tied to the code by exact correspondence (tree, furthest position, "
            "key lists) and the executable L0 is run against the implementation, on generated core-operator grammars.",
            "Lean 4 refinement proof L1 ⊑ L0 (frame/checkpoint discipline, induction on fuel) + " + T_MODEL),
    "C04": ("core", "other",
            "Proved (Lean): the trivia-placement and atomicity laws of L0 (seq_trivia_between, rep_trailing_trivia_given_back, atomic_no_trivia, "
            "rule_atomicity, atomic_rule_single_pair/visible_spec, …), that the interpreter model obeys them for every grammar "
            "(interp_trivia_and_modifiers, trivia_interp_eq) and that generated code equals the interpreter (C01). Not yet proved: the optimizer "
            "half (opt/optgen modes), which is C02 - hence level 'other'. All four modes are compared with the executable L0 and with their "
            "models on trivia/modifier feature groups.",
            "Lean 4 refinement proof (interp, gen modes) + " + T_MODEL),
    "C05": ("core", "other",
            "Proved (Lean): the seven stack clauses of L0 restated (push_spec … peek_slice_spec), stack_ops_never_raise and "
            "failed_op_is_identity for the interpreter model, undo on backtracking as the refinement theorem (rests on C09), and the same for "
            "generated code via C01. Not yet proved: optimized modes (C02) - hence level 'other'. All four modes are compared with the "
            "executable L0 and with their models on stack feature groups with nested catch points.",
            "Lean 4 refinement proof (interp, gen modes; Stack via C09) + " + T_MODEL),
    "C06": ("core", "other",
            "Tree well-formedness invariants evaluated through the public Pair/Pairs API on every successful parse of the run in all four modes "
            "(random and bundled grammars); exact correspondence of trees with the models; theorem spec_tree_wf in progress.", T_MODEL),
    "C07": ("core", "other",
            "Proved (Lean): the interpreter and generated-code models never raise anything but KeyError for an undefined rule "
            "(interp_exc_only_undefined, gen_no_exc), and they are functions of (grammar, rule, input, start position). Not proved: termination "
            "for well-formed grammars. Checked on the implementation: all four modes on well-formed grammars - only PestParsingError escapes, the "
            "repeated call is equal, every parse ends within the time limit.", T_MODEL),
    "C08": ("core", "other",
            "Metamorphic run on the implementation: meaning-preserving rewrites (parentheses, re-association, extraction into a silent rule, e|e, "
            "(e~NEVER)|e, (!e~NEVER)|e) at random sites of random grammars and of the bundled grammars (ASTs recovered from the real trees, "
            "printer round-trip checked), original vs rewritten in all four modes; L0 algebra theorems in progress.", T_MODEL),
    "C09": ("stack", "proof",
            "Theorems (all histories, unbounded): the delta-encoded Stack model refines a full-copy stack (stack_refines, inv_apply, abs_apply), "
            "its asserts cannot fail, SnapshottingInt and ParserState.checkpoint/ok/restore refine full copies in lock-step (snapint_history, "
            "pstate_refines). The model is tied to src/pest/stack.py, checkpoint_int.py, state.py by an exhaustive correspondence run (all op "
            "sequences to length 7/9 on Stack, 5/6 on ParserState, plus random long histories); the same run compares the implementation with "
            "a full-copy reference and yields the failing history as replay.",
            "Lean 4 refinement proof (invariant + abstraction function, induction over histories) + exhaustive differential correspondence"),
    "C13": ("core", "other",
            "Every failing parse of the run in all four modes: furthest position in range, listed names are rules/built-ins, "
            "str()/detailed_message() render, error_context equals the C14 formula; exact correspondence of furthest position and key lists "
            "with the L1/LG models; Lean theorems for error_context (total, equals line/col of p) are proved (Props/C13Text), fpos_in_range in "
            "progress.", T_MODEL),
    "C14": ("text", "proof",
            "Theorems for all texts and offsets (induction over the text): Position.line_col equals the specification (1 + number of line "
            "breaks before p, 1 + distance from the last line break) on \\n-texts (line_col_spec), the specification is injective, Span.lines "
            "returns exactly the lines the closed span touches, line_of returns the line containing p, str(span) = text[a:b], and none of them "
            "raises for any text over Python's full line-separator set. The model mirrors the Python statement by statement and is tied to "
            "src/pest/pairs.py by an exhaustive correspondence run (all texts over {a,b,\\n} to length 7/9 x all offsets and spans, plus other "
            "separators and random long texts); the same run evaluates the property's formula directly on the real code.",
            "Lean 4 proof by induction over the text (model = spec) + exhaustive differential correspondence"),
    "C15": ("world", "other",
            "Proved (Lean, World model: shared built-in table, parser objects aliasing it, generated modules, idempotent per-node caches): no "
            "history of operations writes the shared table or a caller's rule objects (shared_table_invariant, mappings_invariant), the result of "
            "a call after ANY history equals the result in a fresh world (history_independence, module_history_independence), a parse writes "
            "only idempotent cache flags (parse_writes_only_caches), and a generic commutation lemma (interleaving_irrelevant / "
            "schedule_independent) for steps whose only shared writes are such cache fills. The theorems are about the model's step "
            "granularity: CPython's GIL, the regex module's caches and real preemption are not modelled - hence level 'other'. Checked on the "
            "implementation on every run: a write-set monitor during parse()/newParser/generate, random histories vs the same call in a FRESH "
            "interpreter process, N threads on shared objects vs sequential results, and exact correspondence of every parse result of the "
            "history with the World model.",
            "Lean 4 invariant proof over histories of a process-level model + write-set monitor, fresh-process differential and thread stress on the implementation"),
    "C16": ("core", "other",
            "On SOI-free grammars in all four modes: parse(r,t,start_pos=k) equals parse(r,t[k:]) shifted by k (trees and failure positions), "
            "and changing the characters before k changes nothing; every correspondence request of the run uses random k as well; theorem "
            "shift_invariance in progress.", T_MODEL),
    "C18": ("pratt", "proof",
            "Theorems for all operator tables and all token streams: the model of the repaired parse_expr consumes every well-formed stream "
            "(pratt_consumes_all), yields the input (pratt_yield), returns a tree satisfying the binding-power specification Good (pratt_good), "
            "which is the unique such tree (good_unique, pratt_complete, pratt_spec). The model mirrors PrattParser.parse_expr and "
            "Stream.next/peek and is tied to src/pest/pratt.py by a correspondence run over random and exhaustive small tables x all well-formed "
            "streams up to length 7/9; the same run compares the real code with an independent Python reference of the specification.",
            "Lean 4 proof (induction on fuel/stream; uniqueness of the Good tree) + exhaustive differential correspondence"),
}

ENGINES = [
    {"name": "stack", "path": "harness/eng_stack.py", "serves_properties": ["C09"],
     "kind_free_text": "Lean model lean/PestModel/{Stack,State}.lean + proofs Props/C09.lean; exhaustive + random histories, three-way comparison impl / full-copy reference / Lean model"},
    {"name": "core", "path": "harness/eng_core.py", "serves_properties": ["C01", "C02", "C03", "C04", "C05", "C06", "C07", "C08", "C13", "C16"],
     "kind_free_text": "Lean models Spec (L0), Interp (L1), Gen (LG), Opt; proofs Lemmas/{Frame,Refine,GenEq}.lean, Props/C0x.lean; grammar generator; four execution modes; per-property oracles"},
    {"name": "world", "path": "harness/eng_world.py", "serves_properties": ["C15"],
     "kind_free_text": "Lean model lean/PestModel/World.lean + proofs Props/C15.lean; write-set monitor, history search vs fresh process, thread stress, correspondence with the World model"},
    {"name": "pratt", "path": "harness/eng_pratt.py", "serves_properties": ["C18"],
     "kind_free_text": "Lean model lean/PestModel/Pratt.lean + proofs Props/C18.lean; tables x streams, three-way comparison"},
    {"name": "text", "path": "harness/eng_text.py", "serves_properties": ["C14"],
     "kind_free_text": "Lean model lean/PestModel/LineCol.lean + proofs Props/C14.lean; exhaustive small texts x offsets, three-way comparison impl / formula / Lean model"},
]

NOT_YET = "check not integrated yet in this snapshot of /verif (engine under construction; see DESIGN.md §9.1)"

checks, na = [], []
for p in props:
    pid = p["id"]
    if pid in CHECKS:
        eng, cat, text, tech = CHECKS[pid]
        checks.append({
            "property_id": pid,
            "quick_cmd": f"./check {pid} --tier quick",
            "thorough_cmd": f"./check {pid} --tier thorough",
            "evidence_file": f"evidence/{pid}.json",
            "replay_cmd_template": f"./check {pid} --replay {{path}}",
            "engine": eng,
            "level_claimed": {"category": cat, "text": text, "design_ref": f"§6 {pid}"},
            "level_note": LEVEL_NOTE,
            "technique": tech,
        })
    else:
        na.append({"property_id": pid, "reason": NOT_YET})

manifest = {
    "version": 1,
    "setup_cmd": "cd lean && lake build",
    "hooks": {
        "guard": "PYTHON_PEST_VERIF",
        "enable": "no hooks: the harness reaches everything through Python introspection of /repo/src (PYTHONPATH), so the guard is never read",
        "baseline_off_cmd": "cd /repo && /venv/bin/python -m pytest -ra -q -p no:cacheprovider --timeout=900 --continue-on-collection-errors",
        "source_commits": [],
        "add_only": True,
    },
    "engines": ENGINES,
    "checks": checks,
    "not_applicable": na,
    "notes": "Technique family: machine-checked proof in Lean 4 with a hand-written model tied to the code by a behavioural correspondence check. See DESIGN.md.",
}
(ROOT / "MANIFEST.json").write_text(json.dumps(manifest, indent=1) + "\n")
print("wrote MANIFEST.json:", len(checks), "checks,", len(na), "not applicable")

# keep main.py's level per property in sync with the table
main = (ROOT / "harness" / "main.py").read_text()
for pid, (_e, cat, _t, _k) in CHECKS.items():
    import re
    main, n = re.subn(rf'("{pid}": \("[\w]+", )"[\w]+"\)', rf'\1"{cat}")', main)
(ROOT / "harness" / "main.py").write_text(main)
