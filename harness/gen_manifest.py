"""Regenerates MANIFEST.json from the tables below (run by hand after changing a check)."""
import json
from pathlib import Path

ROOT = Path(__file__).resolve().parent.parent
props = [json.loads(l) for l in (ROOT / "properties.jsonl").read_text().splitlines() if l.strip()]

LEVEL_NOTE = ("Trusted: Lean 4.33 kernel; axioms propext/Classical.choice/Quot.sound only (audited each run with #print axioms; no sorry/"
              "native_decide/added axioms, grep each run); the hand-written Lean model is tied to /repo only by the correspondence run "
              "(exact on explored cases, not beyond); CPython and the regex package behave as documented. See DESIGN.md §8.")

T_MODEL = ("hand-written Lean 4 model (spec L0 / interpreter L1 / generated code LG / optimizer OPT) tied to the code by exact differential "
           "correspondence; property oracle evaluated on the implementation")

CHECKS = {
    "C01": ("core", "proof",
            "Theorems gen_equiv_interp / generated_parse_eq (all grammars incl. optimizer-made nodes, expressions, inputs, start positions, "
            "related states, fuel): the model LG of every generate() template, generate_rule, generate_parse_trivia and the generated parse() "
            "gives the same verdict as the interpreter model L1, exactly the same pairs (names, spans, nesting, tags) on success and the same "
            "furthest-failure position on failure, and never raises IndexError/UnboundLocalError. LG and L1 are tied to the code by exact "
            "correspondence (exec'd Parser.generate() module vs LG, Parser.parse vs L1: tree, furthest position, key lists) on random grammars "
            "from 13 feature groups and the bundled grammars; the same run compares Parser.parse with the generated parse on the same Parser. "
            "Not a theorem (checked on every generated module of the run): the source compiles/imports; generating twice is byte-identical.",
            "Lean 4 simulation proof LG ≈ L1 (state relation + frame conditions, induction on fuel) + " + T_MODEL),
    "C02": ("core", "proof",
            "Theorem optimizer_sound (Props/C02.lean): for every pass list drawn from the exported default passes - any subset, order or repetition - every start rule, input, start position inside the input and every result r (success with end state and pairs, failure, or the KeyError of an undefined reference), the grammar has meaning r in pest's semantics L0 exactly when the optimized grammar has; so the optimized parser also terminates exactly when the un-optimized one does (optimizer_preserves_termination). Lifted to the interpreter model and the generated-code model run on the optimized table (opt_interp_agrees, opt_interp_vs_plain, optgen_agrees: same verdict, same end position, same pairs up to tags) through C03 and C01; optimized_skip_total discharges the SkipTotal hypothesis of those theorems for every optimized table; optimizer_keeps_signature / optimizer_keeps_soiFree: rule names, modifiers and SOI-freeness survive. The optimizer is Opt.lean, a mirror of Optimizer.optimize and the five passes compared AS TREES with the real optimizer's output on every grammar of every run (default pipeline and random pass lists; also cyclic rule graphs). Hypothesis OptS.WF g, executable as OptS.wfCheck and evaluated through the model on every grammar of the run (evidence hyp:g:optwf): the tree shapes the front end builds, no rule named SKIP with modifier SILENT+ATOMIC, SKIP referenced only if defined, and no empty-string alternative in a fused WHITESPACE (open finding nullable-trivia-diverges, replayed on every run); each remaining hypothesis has a proved witness that it is needed. Outside the model: what the regex engine folds for a ^ literal on non-ASCII input (the model folds ASCII letters only, as pest does) - open finding ci-nonascii-fold, the one place where the real modes are known to differ, replayed on every run. The proof work found five defects of the real optimizer; four are repaired in /repo (85eed0c cd28459 ef95f87 a679cfa) and their witnesses run in the regression corpus. Tags: equal up to tags in the theorem; compared exactly on the implementation. The same run compares optimizer=None with Optimizer(passes), interpreted and generated, on random, template and bundled grammars.",
            "Lean 4 proof: rewrite relation TR simulated in L0 by induction on fuel (squash: is_order_preserving suffices; skip; SKIP fusion), composed over pass lists; lifted through L1 ⊑ L0 and LG ≈ L1; " + T_MODEL),
    "C03": ("core", "proof",
            "Theorems interp_refines_spec / parse_agrees_with_spec (all grammars, expressions, inputs, start positions, states, fuel): the "
            "interpreter mirror L1 (Expression.parse, Rule.parse, ParserState incl. the delta-encoded Stack) refines the specification L0 of "
            "pest's semantics - same success/failure, same tree up to tags, same end state, every saved checkpoint untouched, no exception but "
            "KeyError for an undefined rule; plus the reading-level laws of L0 (ordered committed choice, greedy repetition, bounded = unrolled, "
            "predicates consume nothing, one pair per non-silent rule). L1 is tied to the code by exact correspondence (tree, furthest position, "
            "key lists) and the executable L0 is run against the implementation, on generated core-operator grammars.",
            "Lean 4 refinement proof L1 ⊑ L0 (frame/checkpoint discipline, induction on fuel) + " + T_MODEL),
    "C04": ("core", "proof",
            "Theorems: the trivia-placement and atomicity laws of pest's semantics L0 (seq_trivia_between, seq_no_trailing_trivia, rep_trailing_trivia_given_back, rep_trivia_between, rep_first_no_trivia, bounded_trivia_as_unrolled, peek_all_no_trivia, atomic_no_trivia, rule_atomicity, rule_restores_atomicity, atomic_rule_single_pair / visible_spec, compound_keeps_children, trivia_pairs_where_matched), that the interpreter model obeys them for every grammar (interp_trivia_and_modifiers, trivia_interp_eq; refinement L1 ⊑ L0), that generated code equals the interpreter (C01) and that the optimized grammar means the same in L0 (C02.optimizer_sound, under OptS.WF, evaluated per grammar) - together all four execution modes. Modifier bits, modifier symbols, the pass table and the list of Expression classes are regenerated from the source on every run and proved equal to the model's (Props/Tables.lean). All four modes are compared with the executable L0 and with their models on trivia/modifier feature groups, modifier chains and modifier trees (every assignment of modifiers to four / five nested rules).",
            "Lean 4 refinement proof + optimizer soundness (C02) + " + T_MODEL),
    "C05": ("core", "proof",
            "Theorems: the seven stack clauses of L0 (push_spec, push_literal_spec, peek_spec, pop_spec, drop_spec, peek_all_spec, pop_all_spec, peek_slice_spec), stack_ops_never_raise and failed_op_is_identity for the interpreter model, undo on backtracking as the refinement theorem L1 ⊑ L0 (every abandoned alternative / optional / repetition item / predicate restores the stack exactly; rests on C09's refinement of the delta-encoded Stack to full copies), the same for generated code via C01 (gen_equiv_interp, gen_no_exc) and for the optimized modes via C02.optimizer_sound (under OptS.WF, evaluated per grammar). All four modes are compared with the executable L0 and with their models on stack feature groups with nested catch points, stack templates, stack read-out grammars and stack-history grammars (every balanced push/drop/commit/abort history up to length 8/9 as a grammar whose accepted input is the stack).",
            "Lean 4 refinement proof (Stack via C09) + optimizer soundness (C02) + " + T_MODEL),
    "C06": ("core", "proof",
            'Theorems interp_tree_wf / gen_tree_wf (every rule table incl. optimizer-made nodes and the fused SKIP rule, every start rule, input and start position k <= len(input), fuel): every successful parse of the interpreter model L1 and of the generated-code model LG returns a GoodTree - k <= start <= end <= len(input) for every pair at every depth, children in input order, pairwise non-overlapping and inside the parent (WFForest, wf_unfolded/wf_flat), names are non-silent rules of the table or EOI (spec_names, interp_names), tags are tags written in the table (interp_tags), a non-silent start rule yields exactly one root pair starting at k (interp_root_single); and for every list of pairs tokens() is balanced with non-decreasing positions, flatten() is its pre-order (tokens_balanced, tokens_sorted, flatten_is_preorder). text == input[start:end] holds by construction (a Pair stores only start/end). The optimized modes are the same models run on the optimized rule table (the run checks SkipTotal on it through the model: evidence hyp:og:skip). L1/LG are tied to the code by exact correspondence of trees; tokensL/flattenL are tied to Pairs.tokens()/flatten() by the T request on every successful parse of the run. For the two optimized modes the hypotheses are on the ORIGINAL grammar only (Props/AllModes.lean, Lemmas/OptSoundKeeps*.lean: opt_interp_tree_wf, opt_gen_tree_wf; opt_interp_names - every pair name is a non-silent rule of the original grammar or EOI, SKIP never names a pair; opt_interp_tags\' / opt_gen_tags\' - tags are tags written in the original grammar; opt_interp_root_single), using optimizer soundness (C02), optimized_skip_total and optimizer_keeps_tags / optimize_keeps_kind. Not a theorem (evaluated on every successful parse of the run through the public API, all four modes): dump()/dumps() render and agree (the compact rendering is read back and compared with the tree).',
            "Lean 4 proof: forest invariant through L0 + refinement L1 ⊑ L0 (C03) + simulation LG ≈ L1 (C01); " + T_MODEL),
    "C07": ("core", "proof",
            "Theorems parse_total / interp_terminates / parse_never_raises / modes_agree: for every rule table accepted by the decidable check WF.wellFormed (no left recursion incl. through implicit trivia - certified by a rank table -, no unbounded repetition over a nullable body, non-nullable WHITESPACE/COMMENT, no undefined reference), every defined start rule, every input and every start position inside it, there is a recursion budget from which on both Parser.parse (L1) and the generated parse() (LG) answer - Pairs or PestParsingError, never another exception (the models have explicit IndexError/UnboundLocalError/AssertionError/KeyError outcomes and they are proved unreachable) - and the two agree; the answer is a function of (grammar, rule, input, start position) (interp_deterministic; history independence of the real objects is C15). The run evaluates WF.wellFormed and the other hypotheses through the model on every grammar and on its optimized form (evidence hyp:*): the harness's own well-formedness filter is contained in it on all but a handful, which are counted. Checked on the implementation: all four modes on well-formed grammars - only PestParsingError escapes, the repeated call is equal, every parse ends within the time limit (a timeout is re-run with a 300 s limit before it is reported). For the two optimized modes: opt_parse_total\' (Lemmas/OptSoundKeepsAll.lean) - from wellFormed, OptS.WF, GenShape and callable of the ORIGINAL grammar alone, both models answer on the optimized table from some fuel on (optimizer_preserves_termination, optimizer_keeps_genShape, optimizer_keeps_callable). Not a theorem: CPython's own recursion limit (the property excludes inputs beyond the budget).",
            "Lean 4 termination proof (progress measure + nullability/rank certificates) + no-exception proofs through L1 ⊑ L0 and LG ≈ L1; " + T_MODEL),
    "C08": ("core", "proof",
            'Theorems (L0, fuel-independent, every grammar/input/state): group_id, seq_assoc/seq_flatten, choice_assoc/choice_flatten, dup_choice, never_seq, never_notpred (NEVER = any literal that fails at every position of the input; under total implicit trivia, and pointwise without), extract_silent (new silent rule, fresh and unreferenced), closed under any number of simultaneous rewrites at any depth of any rule bodies (Cong, GrammarRel, rewrites_preserve_parse) and under chaining (GEquiv.trans); lifted to the interpreter model and the generated-code model (grammar_rewrites_preserve_interp / _gen: same verdict, same end position, same trees up to tags). Counter-examples proved in the file show which hypotheses are needed (nullable WHITESPACE, a() ~ c). The equivalences are up to tags (L0 has none); for tags Props/Tags.lean proves what the rewrites rely on since the repair 48c96e3 - every abandoned alternative, optional, repetition item, predicate and trivia attempt gives the pending tags back (interp_tag_frame, choice_alternative_sees_same_tags and siblings, for L1 and LG); that original and rewritten grammar put each tag on the same pair is compared on the implementation in all modes, not proved. The same run is the metamorphic test on the implementation: rewrites at random sites of random grammars and of the bundled grammars (ASTs recovered from the real trees, printer round-trip checked), original vs rewritten in all four modes, and exact correspondence of every result with the models. Optimized modes rest on C02 for the step optimize(g) ~ g.',
            "Lean 4 proof: big-step reading of L0 (Conv), simulation between two grammars (Sim.conv), congruence; lifted through L1 ⊑ L0 and LG ≈ L1; " + T_MODEL),
    "C09": ("stack", "proof",
            "Theorems (all histories, unbounded): the delta-encoded Stack model refines a full-copy stack (stack_refines, inv_apply, abs_apply), "
            "its asserts cannot fail, SnapshottingInt and ParserState.checkpoint/ok/restore refine full copies in lock-step (snapint_history, "
            "pstate_refines). The model is tied to src/pest/stack.py, checkpoint_int.py, state.py by an exhaustive correspondence run (all op "
            "sequences to length 7/9 on Stack, 5/6 on ParserState, plus random long histories); the same run compares the implementation with "
            "a full-copy reference and yields the failing history as replay.",
            "Lean 4 refinement proof (invariant + abstraction function, induction over histories) + exhaustive differential correspondence"),
    "C10": ("front", "proof",
            "Theorem front_exact (Props/C10Exact.lean), for ALL texts: the model of scanner + grammar parser accepts a text and builds the rule "
            "table r EXACTLY WHEN the text is a layout (GrammarText': the tokens in order, each followed by any trivia - blanks, tabs, line "
            "breaks, nested block comments, line comments -, literals in any spelling that denotes the value, numbers in any digit string of "
            "the value, doc comments ended by LF, CR LF or the end of the text) of a source-level grammar g whose pieces are spellable (WF') "
            "and r is the table g denotes (names, modifiers, doc lines, ~ tighter than |, n-ary flattening, prefix outside postfix, Group, "
            "tags, PEEK slices, bounds, decoded literals; den_* theorems; den_unique: the text determines the table). Both halves: "
            "front_roundtrip_text' (accept + structure) and front_accepts_only_grammar_texts (nothing else is accepted; by scanner inversion "
            "scan_inversion and the parser run on concrete syntax trees parse_ctree). The syntax relation GrammarText' is a Lean definition; "
            "that it coincides with pest's own meta-grammar is NOT a theorem: it is decided on every run by the differential search - "
            "tests/grammars/meta.pest (its transcription compared with the file on every run) run by the executable Lean specification L0 of "
            "pest's PEG semantics as the syntax oracle, its parse tree read by a reference denotation - on meta-grammar sentences, mutated "
            "sentences, the bundled grammars and random token soups; four open findings where the implementation (and so the relation) "
            "deviates from the meta-grammar are listed in known_findings.txt and replayed on every run. The front-end model is tied to "
            "scanner.py / parser.py / unescape.py by exact correspondence (rule table / error kind / error start) on the same texts.",
            "Lean 4 proof: printer/layout → scanner → parser round trip and its converse (scanner inversion, concrete syntax trees) + meta-grammar oracle run by the Lean L0 specification + exact differential correspondence"),
    "C11": ("front", "proof",
            "Theorems for ALL texts (lists of code points): front_total - the model of Parser.from_grammar(text, optimizer=None) never "
            "returns an exception outcome (IndexError, ValueError, AssertionError, regex error, … are explicit outcomes of the model, proved "
            "unreachable) and never runs out of its loop bounds (every `while True` leaves through its own break/return/raise); "
            "front_ok_or_error, front_error_position (the error token starts inside the text), front_error_renders / error_context_total / "
            "error_context_exists / error_context_col_lt (the message renders and names a line and column that exist). The model mirrors "
            "scanner.py, grammar/parser.py, unescape.py and PestGrammarError._error_context and is tied to them by exact correspondence "
            "(accept / error kind / error start / tokens / error context) on the run's texts; the direct oracle calls Parser.from_grammar "
            "with and without the optimizer on every text and accepts only a Parser or PestGrammarError whose str() renders and whose line "
            "and column exist; for 16 nesting shapes the first depth that no longer loads is found by bisection and every depth within 24 of it "
            "is loaded (an exception that escapes only when the recursion limit is hit inside one particular frame). Outside the model: "
            "CPython's recursion limit and memory (open findings, replayed on every run; the copying by the unroll pass is stated for "
            "every size in Props/C11Blowup.lean), the optimizer's own exceptions on accepted grammars (searched, not proved).",
            "Lean 4 totality proof (every outcome classified, loop bounds never binding) + exact differential correspondence"),
    "C12": ("charset", "proof",
            "Theorems for all code points and all lists of alternatives (no enumeration): the regenerated ASCII tables denote pest's sets "
            "(ascii_tables_spec), NEWLINE, ANY, Range (case sensitive, same set in interpreter and generated code), ^\"…\" over ASCII = the "
            "ASCII case variants, _optimize_char_class keeps the set and writes sorted disjoint pieces (merge_char_class_spec, "
            "class_pieces_spec), the class build_optimized_pattern writes accepts exactly what the alternatives accept (class_pattern_spec, "
            "squash_set_spec); escapes: unescape_total / unescape_spec / unescape_append and one theorem per escape form. What the `regex` "
            "engine accepts for a written class, for re.I and for \\p{…} is not modelled: it is closed by an exhaustive sweep of all 1,114,112 "
            "code points per pattern in all four modes against the definition and against the model (every ASCII_* rule, every Unicode "
            "property rule, ranges/literals/classes around every boundary), which is complete per pattern. One open finding "
            "(ci-nonascii-fold), replayed on every run.",
            "Lean 4 proofs over interval lists and the class writer + regenerated tables + exhaustive code-point sweep of the regex objects each mode really uses"),
    "C13": ("core", "proof",
            'Theorems fpos_in_range / gen_fpos_in_range (every rule table, start rule, input, start position k <= len(input), fuel): the reported furthest-failure position is -1 (nothing recorded) or lies in [k, len(input)]; failure_names_known / gen_failure_names_known: every expected/unexpected key and every rule-stack entry of a failure names a rule of the table, a built-in or the fused SKIP rule; error_context_defined_on_failure / error_context_on_failure_is_linecol: error_context is defined at the reported position and shows its line and column (C14 formula); gen_fpos_agrees: generated code reports the same position as the interpreter. L1/LG are tied to the code by exact correspondence of furthest position and key lists on every failing parse of the run; the direct oracle checks position range, names, that str()/detailed_message() render and that error_context equals the C14 formula, in all four modes. For the optimized modes the names are known names of the ORIGINAL grammar or SKIP (AllModes.opt_failure_names_known). Not a theorem: the rendering of str()/detailed_message() themselves (string formatting).',
            "Lean 4 invariant proof (Bounded positions, known names) through every node of L1 and LG + LineCol theorems (C14); " + T_MODEL),
    "C14": ("text", "proof",
            "Theorems for all texts and offsets (induction over the text): Position.line_col equals the specification (1 + number of line "
            "breaks before p, 1 + distance from the last line break) on \\n-texts (line_col_spec), the specification is injective, Span.lines "
            "returns exactly the lines the closed span touches, line_of returns the line containing p, str(span) = text[a:b], and none of them "
            "raises for any text over Python's full line-separator set. The model mirrors the Python statement by statement and is tied to "
            "src/pest/pairs.py by an exhaustive correspondence run (all texts over {a,b,\\n} to length 7/9 x all offsets and spans, plus other "
            "separators and random long texts); the same run evaluates the property's formula directly on the real code.",
            "Lean 4 proof by induction over the text (model = spec) + exhaustive differential correspondence"),
    "C15": ("world", "other",
            "Proved (Lean, World model: shared built-in table, parser objects aliasing it, generated modules, idempotent per-node caches): no "
            "history of operations writes the shared table or a caller's rule objects (shared_table_invariant, mappings_invariant), the result of "
            "a call after ANY history equals the result in a fresh world (history_independence, module_history_independence), a parse writes "
            "only idempotent cache flags (parse_writes_only_caches), and a generic commutation lemma (interleaving_irrelevant / "
            "schedule_independent) for steps whose only shared writes are such cache fills. The theorems are about the model's step "
            "granularity: CPython's GIL, the regex module's caches and real preemption are not modelled - hence level 'other'. Checked on the "
            "implementation on every run: a write-set monitor during parse()/newParser/generate, random histories vs the same call in a FRESH "
            "interpreter process, N threads on shared objects vs sequential results, and exact correspondence of every parse result of the "
            "history with the World model.",
            "Lean 4 invariant proof over histories of a process-level model + write-set monitor, fresh-process differential and thread stress on the implementation"),
    "C16": ("core", "proof",
            'Theorems parse_shift / gen_parse_shift and no_lookbehind / gen_no_lookbehind (every SOI-free rule table incl. optimizer-made nodes, start rule, input, k <= len(input), fuel): parsing at start_pos = k equals parsing text[k:] at 0 shifted by k - same verdict, trees shifted, end position k further, furthest-failure position shifted (or both unset), same expected/unexpected keys and rule stack; and the result does not depend on the characters before k. Proved for the interpreter model L1 and directly for the generated-code model LG. The run evaluates SOI-freeness through the model on every grammar and its optimized form (evidence hyp:*:soifree). Checked on the implementation in all four modes: parse(r,t,start_pos=k) vs parse(r,t[k:]) shifted, prefix replaced, random k in every correspondence request. For the optimized modes the hypothesis is SOI-freeness of the ORIGINAL grammar (AllModes.opt_parse_shift, opt_no_lookbehind, via C02.optimizer_keeps_soiFree).',
            "Lean 4 simulation proof between the two inputs (ShiftRel/ResRel through every node of L1 and LG); " + T_MODEL),
    "C17": ("examples", "proof",
            "Calculator half, for all well-formed token lists of any length and nesting (calc_three_agree, calc_total, calc_values_agree): the "
            "tree the grammar-encoded implementation builds is Good in the sense of C18's binding-power specification for every "
            "calculator-shaped table whose levels are in the documented order, so by C18 (pratt_complete, good_unique) it is what the Pratt "
            "parser and the precedence-climbing loop return on their regenerated tables (compared by order, not by number) and what the "
            "reference evaluator computes; no implementation raises. JSON half, on the rule tables of BOTH bundled grammars regenerated from "
            "the source on every run: json_accepts - every RFC 8259 document with a container at top level (any nesting, any whitespace, "
            "any spelling of numbers and strings) is accepted by pest's semantics L0 with exactly the tree that mirrors the document; "
            "json_rejects_prefix - every proper prefix of a document written without trailing whitespace is rejected (the grammar is "
            "evaluated forward on the truncated input wherever the cut falls); json_modes_accept / json_modes_reject_prefix - the same for "
            "all four execution-mode models (L1 and LG on the plain and on the optimized table), using C03, C01/C07 and C02, whose "
            "hypotheses (genShapeB, skipTotalB, callable, OptS.wfCheck, WF.wellFormed, optimize = some …) are evaluated on the regenerated "
            "tables by decide. Not theorems (checked against Python's json module on every generated document): that Doc/render is RFC "
            "8259, float(token) equality and raw string slices as json.loads sees them. The models of the calculators, the JSON mirror and "
            "the four modes are compared with the implementation on generated documents, all their proper prefixes, and generated and "
            "exhaustive small arithmetic expressions, against json.loads and an independent evaluator.",
            "Lean 4 proofs (calculators via C18's uniqueness theorem; JSON by big-step derivations in L0 on regenerated grammar terms, lifted to the four mode models through C01/C02/C03) + regenerated tables + differential search against json.loads and a reference evaluator"),
    "C18": ("pratt", "proof",
            "Theorems for all operator tables and all token streams: the model of the repaired parse_expr consumes every well-formed stream "
            "(pratt_consumes_all), yields the input (pratt_yield), returns a tree satisfying the binding-power specification Good (pratt_good), "
            "which is the unique such tree (good_unique, pratt_complete, pratt_spec). The model mirrors PrattParser.parse_expr and "
            "Stream.next/peek and is tied to src/pest/pratt.py by a correspondence run over random and exhaustive small tables x all well-formed "
            "streams up to length 7/9; the same run compares the real code with an independent Python reference of the specification.",
            "Lean 4 proof (induction on fuel/stream; uniqueness of the Good tree) + exhaustive differential correspondence"),
}

ENGINES = [
    {"name": "stack", "path": "harness/eng_stack.py", "serves_properties": ["C09"],
     "kind_free_text": "Lean model lean/PestModel/{Stack,State}.lean + proofs Props/C09.lean; exhaustive + random histories, three-way comparison impl / full-copy reference / Lean model"},
    {"name": "core", "path": "harness/eng_core.py", "serves_properties": ["C01", "C02", "C03", "C04", "C05", "C06", "C07", "C08", "C13", "C16"],
     "kind_free_text": "Lean models Spec (L0), Interp (L1), Gen (LG), Opt; proofs Lemmas/{Frame,Refine,GenEq}.lean, Props/C0x.lean; grammar generator; four execution modes; per-property oracles"},
    {"name": "world", "path": "harness/eng_world.py", "serves_properties": ["C15"],
     "kind_free_text": "Lean model lean/PestModel/World.lean + proofs Props/C15.lean; write-set monitor, history search vs fresh process, thread stress, correspondence with the World model"},
    {"name": "pratt", "path": "harness/eng_pratt.py", "serves_properties": ["C18"],
     "kind_free_text": "Lean model lean/PestModel/Pratt.lean + proofs Props/C18.lean; tables x streams, three-way comparison"},
    {"name": "text", "path": "harness/eng_text.py", "serves_properties": ["C14"],
     "kind_free_text": "Lean model lean/PestModel/LineCol.lean + proofs Props/C14.lean; exhaustive small texts x offsets, three-way comparison impl / formula / Lean model"},
    {"name": "front", "path": "harness/eng_front.py", "serves_properties": ["C10", "C11"],
     "kind_free_text": "Lean models lean/PestModel/Front/{Scan,Parse,ErrorContext,Ast,AstTrivia}.lean, Unescape.lean + proofs Props/C10.lean, C11.lean; meta.pest oracle run by the Lean L0 spec; sentence/mutation/soup generators"},
    {"name": "charset", "path": "harness/eng_charset.py", "serves_properties": ["C12"],
     "kind_free_text": "Lean models lean/PestModel/{CharSet,CharClass,Unescape}.lean + proofs Props/C12.lean, C12Escapes.lean; exhaustive code-point sweeps in four modes; eng_escapes.py for the escape clause"},
    {"name": "examples", "path": "harness/eng_examples.py", "serves_properties": ["C17"],
     "kind_free_text": "Lean models lean/PestModel/{Calc,Json}.lean + proofs Props/C17.lean; regenerated calculator tables and JSON grammar terms; json.loads and reference-evaluator differential"},
]

NOT_YET = "check not integrated yet in this snapshot of /verif (engine under construction; see DESIGN.md §9.1)"

checks, na = [], []
for p in props:
    pid = p["id"]
    if pid in CHECKS:
        eng, cat, text, tech = CHECKS[pid]
        checks.append({
            "property_id": pid,
            "quick_cmd": f"./check {pid} --tier quick",
            "thorough_cmd": f"./check {pid} --tier thorough",
            "evidence_file": f"evidence/{pid}.json",
            "replay_cmd_template": f"./check {pid} --replay {{path}}",
            "engine": eng,
            "level_claimed": {"category": cat, "text": text, "design_ref": f"§6 {pid}"},
            "level_note": LEVEL_NOTE,
            "technique": tech,
        })
    else:
        na.append({"property_id": pid, "reason": NOT_YET})

manifest = {
    "version": 1,
    "setup_cmd": "cd lean && lake build",
    "hooks": {
        "guard": "PYTHON_PEST_VERIF",
        "enable": "no hooks: the harness reaches everything through Python introspection of /repo/src (PYTHONPATH), so the guard is never read",
        "baseline_off_cmd": "cd /repo && /venv/bin/python -m pytest -ra -q -p no:cacheprovider --timeout=900 --continue-on-collection-errors",
        "source_commits": [],
        "add_only": True,
    },
    "engines": ENGINES,
    "checks": checks,
    "not_applicable": na,
    "notes": "Technique family: machine-checked proof in Lean 4 with a hand-written model tied to the code by a behavioural correspondence check. See DESIGN.md.",
}
(ROOT / "MANIFEST.json").write_text(json.dumps(manifest, indent=1) + "\n")
print("wrote MANIFEST.json:", len(checks), "checks,", len(na), "not applicable")

# keep main.py's level per property in sync with the table
main = (ROOT / "harness" / "main.py").read_text()
for pid, (_e, cat, _t, _k) in CHECKS.items():
    import re
    main, n = re.subn(rf'("{pid}": \("[\w]+", )"[\w]+"\)', rf'\1"{cat}")', main)
(ROOT / "harness" / "main.py").write_text(main)
