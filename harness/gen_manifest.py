"""Regenerates MANIFEST.json from the table below (run by hand after adding a check)."""
import json
from pathlib import Path

ROOT = Path(__file__).resolve().parent.parent
props = [json.loads(l) for l in (ROOT / "properties.jsonl").read_text().splitlines() if l.strip()]

LEVEL_NOTE = ("Trusted: Lean 4.33 kernel; axioms propext/Classical.choice/Quot.sound only (audited each run); the hand-written "
              "Lean model is tied to /repo only by the correspondence run (exact on explored cases); CPython/regex behave as documented.")

CHECKS = {
    "C09": dict(
        engine="stack",
        category="proof",
        text=("Theorems (all histories, unbounded): the delta-encoded Stack model refines a full-copy stack (stack_refines, "
              "inv_apply, abs_apply), its asserts cannot fail, SnapshottingInt and ParserState.checkpoint/ok/restore refine "
              "full copies in lock-step (snapint_history, pstate_refines). The model is tied to src/pest/stack.py, "
              "checkpoint_int.py, state.py by an exhaustive correspondence run (all op sequences to length 7/9 on Stack, 5/6 on "
              "ParserState, plus random long histories); the same run compares the implementation with a full-copy reference "
              "and yields the failing history as replay."),
        design_ref="§6 C09",
        technique="Lean 4 refinement proof (invariant + abstraction function, induction over histories) + exhaustive differential correspondence model/impl",
    ),
    "C14": dict(
        engine="text",
        category="proof",
        text=("Theorems for all texts and offsets (induction over the text): Position.line_col equals the specification "
              "(1 + number of line breaks before p, 1 + distance from the last line break) on \\n-texts (line_col_spec), the "
              "specification is injective (line_col_injective), Span.lines returns exactly the lines the closed span touches "
              "(span_lines_spec, span_lines_touch), line_of returns the line containing p (line_of_spec), str(span) = text[a:b], "
              "and none of them raises for any text over Python's full line-separator set. The Lean model mirrors the Python "
              "statement by statement (splitlines(keepends=True) included) and is tied to src/pest/pairs.py by an exhaustive "
              "correspondence run (all texts over {a,b,\\n} to length 7/9 x all offsets and spans, plus texts with the other "
              "separators and random long texts); the same run evaluates the property's formula directly on the real code."),
        design_ref="§6 C14",
        technique="Lean 4 proof by induction over the text (model = spec) + exhaustive differential correspondence model/impl",
    ),
}

NOT_YET = "check not built yet in this snapshot of /verif (work in progress; see DESIGN.md §9.1 for the order of work)"

checks, na = [], []
for p in props:
    pid = p["id"]
    if pid in CHECKS:
        c = CHECKS[pid]
        checks.append({
            "property_id": pid,
            "quick_cmd": f"./check {pid} --tier quick",
            "thorough_cmd": f"./check {pid} --tier thorough",
            "evidence_file": f"evidence/{pid}.json",
            "replay_cmd_template": f"./check {pid} --replay {{path}}",
            "engine": c["engine"],
            "level_claimed": {"category": c["category"], "text": c["text"], "design_ref": c["design_ref"]},
            "level_note": c.get("level_note", LEVEL_NOTE),
            "technique": c["technique"],
        })
    else:
        na.append({"property_id": pid, "reason": NOT_YET})

manifest = {
    "version": 1,
    "setup_cmd": "cd lean && lake build",
    "hooks": {
        "guard": "PYTHON_PEST_VERIF",
        "enable": "no hooks: the harness reaches everything through Python introspection of /repo/src (PYTHONPATH), so the guard is never read",
        "baseline_off_cmd": "cd /repo && /venv/bin/python -m pytest -ra -q -p no:cacheprovider --timeout=900 --continue-on-collection-errors",
        "source_commits": [],
        "add_only": True,
    },
    "engines": [
        {"name": "stack", "path": "harness/eng_stack.py", "serves_properties": ["C09"],
         "kind_free_text": "Lean model lean/PestModel/{Stack,State}.lean + proofs Props/C09.lean; exhaustive + random histories, three-way comparison impl / full-copy reference / Lean model"},
        {"name": "text", "path": "harness/eng_text.py", "serves_properties": ["C14"],
         "kind_free_text": "Lean model lean/PestModel/LineCol.lean + proofs Props/C14.lean; exhaustive small texts x offsets, three-way comparison impl / formula / Lean model"},
    ],
    "checks": checks,
    "not_applicable": na,
    "notes": "Technique family: machine-checked proof in Lean 4 with a hand-written model tied to the code by a behavioural correspondence check. See DESIGN.md.",
}
(ROOT / "MANIFEST.json").write_text(json.dumps(manifest, indent=1) + "\n")
print("wrote MANIFEST.json:", len(checks), "checks,", len(na), "not applicable")
