"""Regenerates MANIFEST.json from the table below (run by hand after adding a check)."""
import json
from pathlib import Path

ROOT = Path(__file__).resolve().parent.parent
props = [json.loads(l) for l in (ROOT / "properties.jsonl").read_text().splitlines() if l.strip()]

LEVEL_NOTE = ("Trusted: Lean 4.33 kernel; axioms propext/Classical.choice/Quot.sound only (audited each run); the hand-written "
              "Lean model is tied to /repo only by the correspondence run (exact on explored cases); CPython/regex behave as documented.")

CHECKS = {
    "C09": dict(
        engine="stack",
        category="proof",
        text=("Theorems (all histories, unbounded): the delta-encoded Stack model refines a full-copy stack (stack_refines, "
              "inv_apply, abs_apply), its asserts cannot fail, SnapshottingInt and ParserState.checkpoint/ok/restore refine "
              "full copies in lock-step (snapint_history, pstate_refines). The model is tied to src/pest/stack.py, "
              "checkpoint_int.py, state.py by an exhaustive correspondence run (all op sequences to length 7/9 on Stack, 5/6 on "
              "ParserState, plus random long histories); the same run compares the implementation with a full-copy reference "
              "and yields the failing history as replay."),
        design_ref="§6 C09",
        technique="Lean 4 refinement proof (invariant + abstraction function, induction over histories) + exhaustive differential correspondence model/impl",
    ),
    "C14": dict(
        engine="text",
        category="proof",
        text=("Theorems for all texts and offsets (induction over the text): Position.line_col equals the specification "
              "(1 + number of line breaks before p, 1 + distance from the last line break) on \\n-texts (line_col_spec), the "
              "specification is injective (line_col_injective), Span.lines returns exactly the lines the closed span touches "
              "(span_lines_spec, span_lines_touch), line_of returns the line containing p (line_of_spec), str(span) = text[a:b], "
              "and none of them raises for any text over Python's full line-separator set. The Lean model mirrors the Python "
              "statement by statement (splitlines(keepends=True) included) and is tied to src/pest/pairs.py by an exhaustive "
              "correspondence run (all texts over {a,b,\\n} to length 7/9 x all offsets and spans, plus texts with the other "
              "separators and random long texts); the same run evaluates the property's formula directly on the real code."),
        design_ref="§6 C14",
        technique="Lean 4 proof by induction over the text (model = spec) + exhaustive differential correspondence model/impl",
    ),
    "C01": dict(
        engine="core",
        category="other",
        text="Correspondence + direct oracle (theorem gen_equiv_interp pending, see DESIGN §6 C01): the Lean mirror of every generate() template (LG) is compared with the exec'd Parser.generate() module, and the Lean mirror of the interpreter (L1) with Parser.parse, exactly (tree with tags, furthest position, expected/unexpected key lists), on random grammars from 13 feature groups and on the bundled grammars; the same run compares Parser.parse with the generated parse on the same Parser object (dump, or furthest position when both fail), checks that the source compiles and that generating twice gives identical source.",
        design_ref="§6 C01",
        technique="hand-written Lean 4 model (spec/interp/gen/opt layers) tied to the code by differential correspondence; property oracle on the implementation; Lean theorems being added",
    ),
    "C02": dict(
        engine="core",
        category="other",
        text="Correspondence + direct oracle (theorem optimizer_sound pending): the Lean mirror of the optimizer is compared with the real Optimizer's output AS TREES for the default pipeline and random lists of default passes; opt/optgen parse results are compared with the model; the same run compares optimizer=None with Optimizer(passes) interpreted and generated.",
        design_ref="§6 C02",
        technique="hand-written Lean 4 model (spec/interp/gen/opt layers) tied to the code by differential correspondence; property oracle on the implementation; Lean theorems being added",
    ),
    "C03": dict(
        engine="core",
        category="proof",
        text="Executable specification L0 of pest's semantics (lean/PestModel/Spec.lean) run by the Lean driver against the interpreter on core-operator grammars (trees and success/failure), plus exact correspondence of the L1 mirror; theorem interp_refines_spec pending.",
        design_ref="§6 C03",
        technique="hand-written Lean 4 model (spec/interp/gen/opt layers) tied to the code by differential correspondence; property oracle on the implementation; Lean theorems being added",
    ),
    "C04": dict(
        engine="core",
        category="other",
        text='Executable specification L0 (implicit trivia placement, atomicity, @-hiding) against all four execution modes on trivia/modifier feature groups, plus exact correspondence of the L1/LG/OPT mirrors; refinement theorem pending.',
        design_ref="§6 C04",
        technique="hand-written Lean 4 model (spec/interp/gen/opt layers) tied to the code by differential correspondence; property oracle on the implementation; Lean theorems being added",
    ),
    "C05": dict(
        engine="core",
        category="other",
        text='Executable specification L0 (stack operations, undo on backtracking) against all four modes on stack feature groups with nested catch points, plus exact correspondence of L1/LG; rests on the C09 refinement theorem for the stack; refinement theorem pending.',
        design_ref="§6 C05",
        technique="hand-written Lean 4 model (spec/interp/gen/opt layers) tied to the code by differential correspondence; property oracle on the implementation; Lean theorems being added",
    ),
    "C06": dict(
        engine="core",
        category="other",
        text='Tree well-formedness invariants evaluated through the public Pair/Pairs API on every successful parse of the run in all four modes (random and bundled grammars); theorem spec_tree_wf pending.',
        design_ref="§6 C06",
        technique="hand-written Lean 4 model (spec/interp/gen/opt layers) tied to the code by differential correspondence; property oracle on the implementation; Lean theorems being added",
    ),
    "C07": dict(
        engine="core",
        category="other",
        text='All four modes on well-formed grammars: no exception other than PestParsingError escapes, the repeated call is equal, every parse terminates within the time limit; exact correspondence with the models (which have an explicit exc result); theorems interp_no_exc / parse_terminates pending.',
        design_ref="§6 C07",
        technique="hand-written Lean 4 model (spec/interp/gen/opt layers) tied to the code by differential correspondence; property oracle on the implementation; Lean theorems being added",
    ),
    "C08": dict(
        engine="core",
        category="other",
        text='Metamorphic run on the implementation: meaning-preserving rewrites (parentheses, re-association, extraction into a silent rule, e|e, (e~NEVER)|e, (!e~NEVER)|e) at random sites of random grammars and of the bundled grammars (ASTs recovered from the real trees, printer round-trip checked), original vs rewritten in all four modes; L0 algebra theorems pending.',
        design_ref="§6 C08",
        technique="hand-written Lean 4 model (spec/interp/gen/opt layers) tied to the code by differential correspondence; property oracle on the implementation; Lean theorems being added",
    ),
    "C13": dict(
        engine="core",
        category="other",
        text='Every failing parse of the run in all four modes: furthest position in range, listed names are rules/built-ins, str()/detailed_message() render, error_context equals the C14 formula; exact correspondence of furthest position and key lists with the L1/LG models; theorems fpos_in_range etc. pending.',
        design_ref="§6 C13",
        technique="hand-written Lean 4 model (spec/interp/gen/opt layers) tied to the code by differential correspondence; property oracle on the implementation; Lean theorems being added",
    ),
    "C16": dict(
        engine="core",
        category="other",
        text='On SOI-free grammars in all four modes: parse(r,t,start_pos=k) equals parse(r,t[k:]) shifted by k (trees and failure positions), and changing the characters before k changes nothing; every correspondence request of the run uses random k as well; theorem shift_invariance pending.',
        design_ref="§6 C16",
        technique="hand-written Lean 4 model (spec/interp/gen/opt layers) tied to the code by differential correspondence; property oracle on the implementation; Lean theorems being added",
    ),
    "C18": dict(
        engine="pratt",
        category="proof",
        text=("Theorems for all operator tables and all token streams: the model of the repaired parse_expr consumes every well-formed "
              "stream (pratt_consumes_all), yields the input (pratt_yield), returns a tree satisfying the binding-power specification "
              "Good (pratt_good), which is the unique such tree (good_unique, pratt_complete, pratt_spec). The model mirrors "
              "PrattParser.parse_expr and Stream.next/peek and is tied to src/pest/pratt.py by a correspondence run over random and "
              "exhaustive small tables x all well-formed streams up to length 7/9; the same run compares the real code with an "
              "independent Python reference of the specification."),
        design_ref="§6 C18",
        technique="Lean 4 proof (induction on fuel/stream; uniqueness of the Good tree) + exhaustive differential correspondence model/impl",
    ),
}

NOT_YET = "check not built yet in this snapshot of /verif (work in progress; see DESIGN.md §9.1 for the order of work)"

checks, na = [], []
for p in props:
    pid = p["id"]
    if pid in CHECKS:
        c = CHECKS[pid]
        checks.append({
            "property_id": pid,
            "quick_cmd": f"./check {pid} --tier quick",
            "thorough_cmd": f"./check {pid} --tier thorough",
            "evidence_file": f"evidence/{pid}.json",
            "replay_cmd_template": f"./check {pid} --replay {{path}}",
            "engine": c["engine"],
            "level_claimed": {"category": c["category"], "text": c["text"], "design_ref": c["design_ref"]},
            "level_note": c.get("level_note", LEVEL_NOTE),
            "technique": c["technique"],
        })
    else:
        na.append({"property_id": pid, "reason": NOT_YET})

manifest = {
    "version": 1,
    "setup_cmd": "cd lean && lake build",
    "hooks": {
        "guard": "PYTHON_PEST_VERIF",
        "enable": "no hooks: the harness reaches everything through Python introspection of /repo/src (PYTHONPATH), so the guard is never read",
        "baseline_off_cmd": "cd /repo && /venv/bin/python -m pytest -ra -q -p no:cacheprovider --timeout=900 --continue-on-collection-errors",
        "source_commits": [],
        "add_only": True,
    },
    "engines": [
        {"name": "stack", "path": "harness/eng_stack.py", "serves_properties": ["C09"],
         "kind_free_text": "Lean model lean/PestModel/{Stack,State}.lean + proofs Props/C09.lean; exhaustive + random histories, three-way comparison impl / full-copy reference / Lean model"},
        {"name": "core", "path": "harness/eng_core.py", "serves_properties": ["C01", "C02", "C03", "C04", "C05", "C06", "C07", "C08", "C13", "C16"],
         "kind_free_text": "Lean models Spec (L0), Interp (L1), Gen (LG), Opt; grammar generator; four execution modes; per-property oracles"},
        {"name": "pratt", "path": "harness/eng_pratt.py", "serves_properties": ["C18"],
         "kind_free_text": "Lean model lean/PestModel/Pratt.lean + proofs Props/C18.lean; tables x streams, three-way comparison"},
        {"name": "text", "path": "harness/eng_text.py", "serves_properties": ["C14"],
         "kind_free_text": "Lean model lean/PestModel/LineCol.lean + proofs Props/C14.lean; exhaustive small texts x offsets, three-way comparison impl / formula / Lean model"},
    ],
    "checks": checks,
    "not_applicable": na,
    "notes": "Technique family: machine-checked proof in Lean 4 with a hand-written model tied to the code by a behavioural correspondence check. See DESIGN.md.",
}
(ROOT / "MANIFEST.json").write_text(json.dumps(manifest, indent=1) + "\n")
print("wrote MANIFEST.json:", len(checks), "checks,", len(na), "not applicable")
