"""Run by eng_core (C05) in a process of its own.  A parse that is given too small a recursion budget may end in RecursionError;
if it returns a tree, that tree must not show stack entries that were pushed inside an abandoned attempt: an exception swallowed
on the way up must not leave checkpoints or stack snapshots behind.  argv[1] = repository root.  Prints {"mismatches": [...], "runs": n}."""
import json
import sys
import types

repo = sys.argv[1]
sys.path.insert(0, repo + "/src")
from pest import DEFAULT_OPTIMIZER, Parser  # noqa: E402
from pest.exceptions import PestParsingError  # noqa: E402

GRAMMAR = r"""
doc      = { tagged | text }
maybe    = { tagged? ~ text }
rep      = { (tagged ~ ",")* ~ text }
pred     = { !tagged ~ text | &tagged ~ text }
tagged   = { PUSH(name) ~ nest ~ POP }
nest     = { "(" ~ nest ~ ")" | "[" ~ PUSH("!") ~ nest ~ DROP ~ "]" | "x" }
name     = { ASCII_ALPHA+ }
text     = { leftover* ~ rest }
leftover = { DROP }
rest     = { ANY* }
"""


def tree(p):
    return [p.name, p.start, p.end, [tree(c) for c in p.children]]


def outcome(parse, rule, text):
    try:
        return ["ok", [tree(p) for p in parse(rule, text)]]
    except PestParsingError as e:
        return ["fail", e.state.furthest_pos]
    except RecursionError:
        return ["rec"]
    except Exception as e:  # noqa: BLE001
        return ["exc", type(e).__name__]


def main():
    modes = {}
    for label, opt in (("interp", None), ("opt", DEFAULT_OPTIMIZER)):
        p = Parser.from_grammar(GRAMMAR, optimizer=opt)
        modes[label] = p.parse
        m = types.ModuleType("generated_" + label)
        exec(compile(p.generate(), "<generated>", "exec"), m.__dict__)  # noqa: S102
        modes["gen" if label == "interp" else "optgen"] = m.parse
    inputs = []
    for d in (40, 41, 42, 43):
        for op, cl in (("(", ")"), ("[", "]")):
            inputs.append("ab" + op * d + "x" + cl * d + "ab")          # well nested: tagged matches
            inputs.append("ab" + op * d + "x" + cl * (d - 1) + "zab")     # spoiled at the very end: tagged fails after deep recursion
    mism, runs, differs = [], 0, 0
    for rule in ("doc", "maybe", "rep", "pred"):
        for text in inputs:
            sys.setrecursionlimit(100000)
            ref = {m: outcome(f, rule, text) for m, f in modes.items()}
            for limit in range(150, 400, 7):
                for m, f in modes.items():
                    sys.setrecursionlimit(limit)
                    try:
                        got = outcome(f, rule, text)
                    except RecursionError:
                        got = ["rec"]
                    finally:
                        sys.setrecursionlimit(100000)
                    runs += 1
                    # `text` is only ever reached with an empty stack (every PUSH lies inside `tagged`, which either matches with
                    # its pushes popped again or is abandoned), so `leftover = { DROP }` can never match: a `leftover` pair in a
                    # returned tree is a stack entry that survived the attempt it was pushed in
                    if got[0] == "ok" and '"leftover"' in json.dumps(got) and len(mism) < 6:
                        mism.append({"mode": m, "rule": rule, "input": text, "recursion_limit": limit, "observed": json.dumps(got)[:300],
                                     "expected": "no `leftover` pair: the stack is empty wherever `text` starts (with an ample budget: "
                                                 + json.dumps(ref[m])[:160] + ")"})
                    elif got[0] == "exc" and len(mism) < 6:
                        mism.append({"mode": m, "rule": rule, "input": text, "recursion_limit": limit, "observed": got[1] + " escaped parse()",
                                     "expected": "Pairs, PestParsingError or RecursionError"})
                    differs += got[0] != "rec" and got != ref[m]
    print(json.dumps({"mismatches": mism, "runs": runs, "differs_from_ample_budget": differs, "grammar": GRAMMAR}))


main()
