"""Random grammars (as small ASTs printed to pest syntax) and inputs for them.

AST nodes (tuples):
  ("str", s) ("ci", s) ("range", a, b) ("id", name, tag|None) ("seq", [..]) ("choice", [..])
  ("opt", e) ("rep", e) ("rep1", e) ("exact", e, n) ("min", e, n) ("max", e, n) ("minmax", e, m, n)
  ("and", e) ("not", e) ("group", e, tag|None) ("push", e) ("pushlit", s)
  ("peek",) ("pop",) ("drop",) ("peekall",) ("popall",) ("slice", a, b)
Grammar: dict name -> (modifier, expr), insertion ordered.
"""

from __future__ import annotations

import random

BUILTIN_NON_NULLABLE = {"ANY", "ASCII_DIGIT", "ASCII_ALPHA", "ASCII_HEX_DIGIT", "NEWLINE", "ASCII_ALPHANUMERIC",
                        "LETTER", "GREEK"}
BUILTIN_NULLABLE = {"EOI", "SOI"}
POSTFIX = ("opt", "rep", "rep1", "exact", "min", "max", "minmax")


def q(s: str) -> str:
    out = []
    for ch in s:
        if ch == "\\":
            out.append("\\\\")
        elif ch == '"':
            out.append('\\"')
        elif ch == "\n":
            out.append("\\n")
        elif ch == "\t":
            out.append("\\t")
        elif ch == "\r":
            out.append("\\r")
        else:
            out.append(ch)       # printed raw: `\u{..}` escapes followed by text are mis-decoded by the scanner
    return '"' + "".join(out) + '"'


def qc(ch: str) -> str:
    if ch == "'":
        return "'\\''"
    if ch == "\\":
        return "'\\\\'"
    if ord(ch) > 126 or ord(ch) < 32:
        return "'\\u{%04X}'" % ord(ch) if ord(ch) <= 0xFFFF else "'\\u{%06X}'" % ord(ch)
    return f"'{ch}'"


def starts_with_tag(x) -> bool:
    """the printed form of x begins with `#tag = `"""
    while x[0] in POSTFIX:
        x = x[1]
    return x[0] in ("id", "group") and bool(x[2])


def show(e) -> str:  # noqa: PLR0911, PLR0912
    k = e[0]
    if k == "str":
        return q(e[1])
    if k == "ci":
        return "^" + q(e[1])
    if k == "range":
        return f"{qc(e[1])}..{qc(e[2])}"
    if k == "id":
        return (f"#{e[2]} = " if e[2] else "") + e[1]
    if k == "seq":
        return "(" + " ~ ".join(show(x) for x in e[1]) + ")"
    if k == "choice":
        return "(" + " | ".join(show(x) for x in e[1]) + ")"
    if k == "group":
        # a sequence/choice prints its own parentheses (= the Group the front end builds for them)
        inner = show(e[1]) if e[1][0] in ("seq", "choice") else "(" + show(e[1]) + ")"
        return (f"#{e[2]} = " if e[2] else "") + inner

    def arg(x):
        s_ = show(x)
        # a node tag binds tighter than a postfix operator: `#t = (e)+` is the repetition of the tagged group
        if x[0] in POSTFIX or x[0] in ("and", "not"):
            s_ = "(" + s_ + ")"
        return s_

    if k == "opt":
        return arg(e[1]) + "?"
    if k == "rep":
        return arg(e[1]) + "*"
    if k == "rep1":
        return arg(e[1]) + "+"
    if k == "exact":
        return arg(e[1]) + "{%d}" % e[2]
    if k == "min":
        return arg(e[1]) + "{%d,}" % e[2]
    if k == "max":
        return arg(e[1]) + "{,%d}" % e[2]
    if k == "minmax":
        return arg(e[1]) + "{%d,%d}" % (e[2], e[3])
    if k in ("and", "not"):
        inner = show(e[1])
        if e[1][0] in ("and", "not") or starts_with_tag(e[1]):
            inner = "(" + inner + ")"
        return ("&" if k == "and" else "!") + inner
    if k == "push":
        return "PUSH(" + show(e[1]) + ")"
    if k == "pushlit":
        return "PUSH_LITERAL(" + q(e[1]) + ")"
    if k == "peek":
        return "PEEK"
    if k == "peekall":
        return "PEEK_ALL"
    if k == "pop":
        return "POP"
    if k == "popall":
        return "POP_ALL"
    if k == "drop":
        return "DROP"
    if k == "slice":
        return "PEEK[%s..%s]" % ("" if e[1] is None else e[1], "" if e[2] is None else e[2])
    raise ValueError(k)


def show_grammar(rules: dict) -> str:
    return "\n".join(f"{n} = {m}{{ {show(e)} }}" for n, (m, e) in rules.items())


def show_min(e, ctx: int = 0) -> str:
    """Printer with *no* redundant parentheses, for ASTs recovered from real trees (where every
    pair of parentheses is an explicit ("group", …) node).  ctx: 0 = choice allowed, 1 = sequence
    allowed, 2 = term.  A choice/sequence in a tighter context cannot come from the front end; it is
    parenthesised (and so becomes a Group on re-reading)."""
    k = e[0]
    if k == "choice":
        s_ = " | ".join(show_min(x, 1) for x in e[1])
        return s_ if ctx == 0 else "(" + s_ + ")"
    if k == "seq":
        s_ = " ~ ".join(show_min(x, 2) for x in e[1])
        return s_ if ctx <= 1 else "(" + s_ + ")"
    if k == "group":
        return (f"#{e[2]} = " if e[2] else "") + "(" + show_min(e[1], 0) + ")"
    if k in POSTFIX:
        inner = e[1]
        a = show_min(inner, 2)
        if inner[0] in POSTFIX or inner[0] in ("and", "not"):
            a = "(" + a + ")"
        suffix = {"opt": "?", "rep": "*", "rep1": "+"}.get(k)
        if suffix is None:
            suffix = {"exact": "{%d}" % e[2], "min": "{%d,}" % e[2], "max": "{,%d}" % e[2]}.get(k) or "{%d,%d}" % (e[2], e[3])
        return a + suffix
    if k in ("and", "not"):
        # the front end parses the operand of a prefix operator with its postfix operators attached
        a = show_min(e[1], 2)
        inner = e[1]
        if starts_with_tag(inner):
            a = "(" + a + ")"        # a node tag comes before the prefix operators of its term: &(#t = x), never &#t = x
        return ("&" if k == "and" else "!") + a
    if k == "push":
        return "PUSH(" + show_min(e[1], 0) + ")"
    return show(e)


def show_grammar_min(rules: dict) -> str:
    return "\n".join(f"{n} = {m}{{ {show_min(e)} }}" for n, (m, e) in rules.items())


# ---------------------------------------------------------------- well-formedness (Python copy of WF)

def nullable(e, rules, seen=()) -> bool:  # noqa: PLR0911
    k = e[0]
    if k in ("str", "ci"):
        return e[1] == ""
    if k == "range":
        return False
    if k == "id":
        if e[1] in BUILTIN_NON_NULLABLE:
            return False
        if e[1] in BUILTIN_NULLABLE:
            return True
        if e[1] not in rules or e[1] in seen:
            return True  # conservative
        return nullable(rules[e[1]][1], rules, (*seen, e[1]))
    if k in ("opt", "rep", "and", "not", "max", "pushlit", "peek", "pop", "drop", "peekall", "popall", "slice"):
        return True
    if k in ("group", "rep1", "push"):
        return nullable(e[1], rules, seen)
    if k == "exact":
        return e[2] == 0 or nullable(e[1], rules, seen)
    if k in ("min", "minmax"):
        return e[2] == 0 or nullable(e[1], rules, seen)
    if k == "seq":
        return all(nullable(x, rules, seen) for x in e[1])
    if k == "choice":
        return any(nullable(x, rules, seen) for x in e[1])
    raise ValueError(k)


def subexprs(e):
    yield e
    k = e[0]
    if k in ("seq", "choice"):
        for x in e[1]:
            yield from subexprs(x)
    elif k in ("opt", "rep", "rep1", "and", "not", "group", "push", "exact", "min", "max", "minmax"):
        yield from subexprs(e[1])


def bad_rep(e, rules) -> bool:
    return any(
        x[0] in ("rep", "rep1", "exact", "min", "max", "minmax") and nullable(x[1], rules) for x in subexprs(e)
    )


def left_calls(e, rules, trivia: bool):
    """rules that may be entered before any input is consumed"""
    k = e[0]
    if k == "id":
        return {e[1]} if e[1] in rules else set()
    if k in ("opt", "rep", "rep1", "and", "not", "group", "push", "exact", "min", "max", "minmax"):
        out = left_calls(e[1], rules, trivia)
        if trivia and k in ("rep", "rep1", "min", "minmax", "exact", "max"):
            out |= {"WHITESPACE", "COMMENT"} & set(rules)
        return out
    if k == "choice":
        return set().union(*[left_calls(x, rules, trivia) for x in e[1]])
    if k == "seq":
        out = set()
        for i, x in enumerate(e[1]):
            out |= left_calls(x, rules, trivia)
            if not nullable(x, rules):
                break
            if trivia and i < len(e[1]) - 1:
                out |= {"WHITESPACE", "COMMENT"} & set(rules)
        return out
    return set()


def left_recursive(rules) -> bool:
    trivia = "WHITESPACE" in rules or "COMMENT" in rules
    g = {n: left_calls(e, rules, trivia) for n, (m, e) in rules.items()}
    for n in g:
        seen, todo = set(), list(g[n])
        while todo:
            x = todo.pop()
            if x == n:
                return True
            if x in seen:
                continue
            seen.add(x)
            todo += list(g.get(x, ()))
    return False


def well_formed(rules) -> bool:
    if left_recursive(rules):
        return False
    if any(bad_rep(e, rules) for m, e in rules.values()):
        return False
    for n in ("WHITESPACE", "COMMENT"):
        if n in rules and nullable(rules[n][1], rules):
            return False
    return True


# ---------------------------------------------------------------- generation

FEATURE_GROUPS = [
    ("core", set()),
    ("bounded", {"bounded"}),
    ("ws", {"ws"}),
    ("cm", {"cm"}),
    ("ws+cm", {"ws", "cm"}),
    ("mods+ws", {"mods", "ws"}),
    ("mods+ws+cm", {"mods", "ws", "cm", "bounded"}),
    ("stack", {"stack"}),
    ("stack+ws", {"stack", "ws", "mods"}),
    ("ci+builtin", {"ci", "builtin"}),
    ("tags", {"tags", "ws", "builtin"}),
    ("skipish", {"skipish", "ws", "mods"}),
    ("all", {"bounded", "ws", "cm", "mods", "stack", "ci", "builtin", "tags", "skipish"}),
]


def gen_expr(rng: random.Random, depth: int, feats: set, names: list[str], tagn=[0]):  # noqa: B006, PLR0911, PLR0912
    leafs = ["str", "str", "str", "range", "id", "id", "id"]
    if "ci" in feats:
        leafs += ["ci"]
    if "stack" in feats:
        leafs += ["pushlit", "peek", "pop", "drop", "peekall", "popall", "slice", "pop"]
    if "builtin" in feats:
        leafs += ["any", "eoi", "digit", "nl", "hex"]
    ops = ["seq", "seq", "seq", "choice", "choice", "opt", "rep", "rep1", "and", "not", "group"]
    if "bounded" in feats:
        ops += ["exact", "min", "max", "minmax"]
    if "stack" in feats:
        ops += ["push", "push"]
    if "skipish" in feats:
        ops += ["skipish", "litchoice"]
    k = rng.choice(leafs) if depth <= 0 or rng.random() < 0.3 else rng.choice(ops)

    def sub():
        return gen_expr(rng, depth - 1, feats, names)

    def tag():
        if "tags" in feats and rng.random() < 0.4:
            tagn[0] += 1
            return "t%d" % (tagn[0] % 5)
        return None

    lits = ["a", "b", "c", "ab", "ba", "aa", "abc", "bc"]
    if k == "str":
        if rng.random() < 0.04:
            return ("str", "")            # the empty literal matches everywhere, also at the very end of the input
        return ("str", rng.choice(lits))
    if k == "ci":
        return ("ci", rng.choice(["a", "Ab", "bC", "B", "ss", "fi", "k", "ab"]))
    if k == "range":
        return ("range", *rng.choice([("a", "b"), ("a", "c"), ("b", "c"), ("A", "C")]))
    if k == "id":
        return ("id", rng.choice(names), tag())
    # (a reference to a built-in rule may be tagged like any other)
    if k == "any":
        return ("id", "ANY", tag())
    if k == "eoi":
        return ("id", "EOI", tag())
    if k == "digit":
        return ("id", "ASCII_DIGIT", tag())
    if k == "nl":
        return ("id", "NEWLINE", tag())
    if k == "hex":
        return ("id", "ASCII_HEX_DIGIT", tag())
    if k == "pushlit":
        return ("pushlit", rng.choice(["a", "b", "ab", ""]))
    if k in ("peek", "pop", "drop", "peekall", "popall"):
        return (k,)
    if k == "slice":
        return ("slice", rng.choice([None, 0, 1, -1, -2]), rng.choice([None, 1, 2, -1, 0]))
    if k in ("seq", "choice"):
        return (k, [sub() for _ in range(rng.choice([2, 2, 3]))])
    if k == "group":
        return ("group", sub(), tag())
    if k in ("opt", "rep", "rep1", "and", "not", "push"):
        if "tags" in feats and k in ("opt", "rep", "rep1") and rng.random() < 0.35:
            # a tagged group directly under a postfix operator, its first item a rule: `#t = (r ~ e)+`
            tagn[0] += 1
            return (k, ("group", ("seq", [("id", rng.choice(names), None), sub()]) if rng.random() < 0.6
                        else ("id", rng.choice(names), None), "t%d" % (tagn[0] % 5)))
        return (k, sub())
    def bsub():
        if "tags" in feats and rng.random() < 0.35:
            tagn[0] += 1
            return ("group", ("id", rng.choice(names), None), "t%d" % (tagn[0] % 5))
        return sub()

    if k == "exact":
        return ("exact", bsub(), rng.choice([0, 1, 2, 3]))
    if k == "min":
        return ("min", bsub(), rng.choice([0, 1, 2]))
    if k == "max":
        return ("max", bsub(), rng.choice([0, 1, 2, 3]))
    if k == "minmax":
        m = rng.choice([0, 1, 2])
        return ("minmax", bsub(), m, m + rng.choice([0, 1, 2]))
    if k == "skipish":
        # the shape the `skip` optimizer pass looks for: (!("a" | "b") ~ ANY)*
        alts = [("str", rng.choice(lits)) for _ in range(rng.choice([1, 2, 3]))]
        if "ci" in feats and rng.random() < 0.3:
            alts = [("ci", x[1]) for x in alts]          # stops that are case-insensitive literals only
        inner = alts[0] if len(alts) == 1 and rng.random() < 0.5 else ("group", ("choice", alts), None) if len(alts) > 1 else alts[0]
        return ("rep", ("group", ("seq", [("not", inner), ("id", "ANY", None)]), None))
    if k == "litchoice":
        # what squash_choice looks for: literals / ranges / ci literals with shared prefixes
        pool = [("str", x) for x in lits] + [("range", "a", "b"), ("range", "b", "c"), ("ci", "a"), ("ci", "Ab"), ("id", "ASCII_DIGIT", None)]
        return ("choice", [rng.choice(pool) for _ in range(rng.choice([2, 3, 4]))])
    raise ValueError(k)


def gen_grammar(rng: random.Random, feats: set):
    names = ["r0", "r1", "r2"] + (["r3"] if rng.random() < 0.3 else [])
    if ("ws" in feats or "cm" in feats) and rng.random() < 0.06:
        names.append("SKIP")              # a grammar rule that merely happens to be called SKIP
    mods = ["", "", "_"] + (["@", "$", "!", "@", "!"] if "mods" in feats else [])
    for _ in range(300):
        rules = {}
        for n in names:
            rules[n] = (rng.choice(mods), gen_expr(rng, rng.choice([1, 2, 2, 3]), feats, names))
        if "ws" in feats:
            body = rng.choice([("str", " "), ("choice", [("str", " "), ("str", "\t")]), ("str", " "),
                               ("choice", [("str", " "), ("id", "NEWLINE", None)]),
                               # a bare sequence: its first item can match where the whole rule fails
                               ("seq", [("str", " "), ("str", "\t")]), ("seq", [("str", " "), ("str", " ")])])
            rules["WHITESPACE"] = (rng.choice(["_", "_", "_", ""]), body)
        if "cm" in feats:
            body = rng.choice([
                ("seq", [("str", "#"), ("rep", ("range", "a", "b")), ("str", "#")]),
                ("str", "#"),
                ("seq", [("str", "/"), ("str", "/")]),
                ("seq", [("str", "#"), ("id", "r2", None)]) if rng.random() < 0.5 else ("str", "#"),
                ("seq", [("str", "#"), ("id", "r1", None), ("str", "#")]) if rng.random() < 0.5 else ("str", "#"),
            ])
            if "ws" in feats and rng.random() < 0.5:
                # a comment that overlaps the whitespace rule: which trivia rule is tried first is then visible
                body = rng.choice([
                    ("seq", [("opt", ("str", " ")), ("str", "#")]),
                    ("seq", [("str", " "), ("str", "#")]),
                    ("choice", [("seq", [("str", " "), ("str", " ")]), ("str", "#")]),
                ])
                rules["COMMENT"] = (rng.choice(["_", "", ""]), body)
            else:
                rules["COMMENT"] = (rng.choice(["_", "_", ""]), body)
        triv = [n for n in ("WHITESPACE", "COMMENT") if n in rules]
        if triv and rng.random() < 0.6:
            # definition order of the trivia rules among the rules is free in a grammar file
            rng.shuffle(triv)
            rest = [n for n in rules if n not in triv]
            order = triv + rest if rng.random() < 0.6 else rest[:1] + triv + rest[1:]
            rules = {n: rules[n] for n in order}
        if well_formed(rules):
            return rules
    raise RuntimeError("no well-formed grammar found")


def alphabet(feats: set) -> str:
    a = "abc"
    if "ws" in feats:
        a += " " + ("\t\n" if "builtin" in feats or True else "")
    if "cm" in feats:
        a += "#/"
    if "ci" in feats or "builtin" in feats:
        a += "BA1f"
    if "builtin" in feats:
        a += "\u00e9\U0001F600"          # non-ASCII and astral characters: ANY and position arithmetic
    return a


def gen_sentence(rng: random.Random, rules, e, depth=0) -> str:  # noqa: PLR0911, PLR0912
    """a string the expression plausibly matches (ignores predicates and the stack)"""
    k = e[0]
    if depth > 8:
        return ""
    r = lambda x: gen_sentence(rng, rules, x, depth + 1)  # noqa: E731
    tr = rng.choice(["", "", " ", "  ", "#", " #", "  #", "# "]) if ("WHITESPACE" in rules or "COMMENT" in rules) else ""
    if k == "str":
        return e[1]
    if k == "ci":
        return "".join(rng.choice([c.lower(), c.upper()]) for c in e[1])
    if k == "range":
        return chr(rng.randint(ord(e[1]), ord(e[2])))
    if k == "id":
        if e[1] == "ANY":
            return rng.choice("abc")
        if e[1] == "ASCII_DIGIT":
            return rng.choice("0123456789")
        if e[1] == "ASCII_HEX_DIGIT":
            return rng.choice("0123456789abcdefABCDEF")
        if e[1] == "NEWLINE":
            return rng.choice(["\n", "\r\n", "\r"])
        if e[1] in ("EOI", "SOI"):
            return ""
        if e[1] in rules:
            return r(rules[e[1]][1])
        return ""
    if k == "seq":
        return tr.join(r(x) for x in e[1])
    if k == "choice":
        return r(rng.choice(e[1]))
    if k in ("group", "push"):
        return r(e[1])
    if k == "opt":
        return r(e[1]) if rng.random() < 0.6 else ""
    if k in ("rep", "rep1", "min"):
        lo = 0 if k == "rep" else 1 if k == "rep1" else e[2]
        return tr.join(r(e[1]) for _ in range(lo + rng.choice([0, 0, 1, 2])))
    if k == "exact":
        return tr.join(r(e[1]) for _ in range(e[2]))
    if k == "max":
        return tr.join(r(e[1]) for _ in range(rng.randint(0, e[2])))
    if k == "minmax":
        return tr.join(r(e[1]) for _ in range(rng.randint(e[2], max(e[2], e[3]))))
    if k == "pushlit":
        return ""
    if k in ("pop", "peek", "peekall", "popall", "slice"):
        return rng.choice(["", "a", "b", "ab"])
    return ""


EXOTIC_INPUT_CHARS = ["\ud83d", "\ude00", "\ud800", "\udbff", "\udfff", "\U0001F600", "\x00", "\u2028", "\u2029", "\x85", "\r",
                      "\u00df", "\ufb01", "\uffff", "\U0010ffff",
                      # digits, letters and blanks that are not ASCII (what str.isdigit / isalpha / isspace also accept)
                      "\u0663", "\uff14", "\u00b2", "\u00e9", "\u0391", "\u00a0", "\u3000"]
# (not U+0130 / U+0131 / U+212A / U+017F: the `regex` engine folds them onto the ASCII letters i, k, s - the open finding
#  ci-nonascii-fold, which has its own oracle (ci_fold_oracle) and is outside the models)


def gen_inputs(rng: random.Random, rules, start: str, feats: set, n: int) -> list[str]:
    alpha = alphabet(feats)
    out = []
    for i in range(n):
        mode = i % 4
        if mode == 0:
            s = "".join(rng.choice(alpha) for _ in range(rng.choice([0, 1, 2, 3, 4, 5, 6])))
        else:
            s = gen_sentence(rng, rules, ("id", start, None))[:14]
            if mode == 2 and s:
                j = rng.randrange(len(s))
                # now and then a character nobody wrote a grammar for: unpaired surrogates (a `str` may hold them), an astral
                # character, NUL, the Unicode line separators, letters whose case mappings change length
                ch = rng.choice(EXOTIC_INPUT_CHARS) if rng.random() < 0.12 else rng.choice(alpha)
                if "builtin" in feats and rng.random() < 0.25:
                    ch = rng.choice(EXOTIC_INPUT_CHARS[-7:])       # beside the built-in character classes: non-ASCII digits, letters, blanks
                s = s[:j] + ch + s[j + (rng.random() < 0.5):]
            elif mode == 3:
                s = s[: rng.randint(0, len(s))] + (rng.choice(EXOTIC_INPUT_CHARS[:6]) if rng.random() < 0.15 else rng.choice(["", "", " ", "#", "a"]))
        out.append(s)
    return out


# ---------------------------------------------------------------- stack/backtracking templates (C05)

def gen_stack_ops(rng: random.Random, n: int, depth: int):
    """a sequence of n stack-touching items; nested catch points (optional, choice, predicates,
    repetition) around successful sub-matches that pop and push"""
    items = []
    for _ in range(n):
        k = rng.choice(["pop", "pop", "drop", "peek", "push", "push", "pushlit", "opt", "choice", "and", "not",
                        "popall", "peekall", "slice", "lit", "rep"] if depth > 0 else
                       ["pop", "pop", "drop", "peek", "push", "pushlit", "lit"])
        if k in ("pop", "drop", "peek", "popall", "peekall"):
            items.append((k,))
        elif k == "push":
            items.append(("push", ("id", "l", None)))
        elif k == "pushlit":
            items.append(("pushlit", rng.choice(["a", "b"])))
        elif k == "lit":
            items.append(("str", rng.choice(["a", "b", "!"])))
        elif k == "slice":
            items.append(("slice", rng.choice([None, 0, 1, -1]), rng.choice([None, 1, 2, -1])))
        elif k == "opt":
            items.append(("opt", ("group", ("seq", gen_stack_ops(rng, rng.choice([2, 3]), depth - 1)), None)))
        elif k == "rep":
            items.append(("max", ("group", ("seq", gen_stack_ops(rng, 2, depth - 1) + [("str", "a")]), None), 2))
        elif k == "choice":
            items.append(("group", ("choice", [("seq", gen_stack_ops(rng, rng.choice([2, 3]), depth - 1) + [("str", "!")]),
                                               ("seq", gen_stack_ops(rng, rng.choice([1, 2]), depth - 1))]), None))
        elif k == "and" and rng.random() < 0.4:
            # a predicate written directly over one stack terminal, no parentheses in between
            items.append((rng.choice(["and", "and", "not"]), rng.choice([("pop",), ("drop",), ("popall",), ("pushlit", "a"), ("peek",), ("peekall",)])))
        elif k == "and":
            items.append(("and", ("group", ("seq", gen_stack_ops(rng, rng.choice([2, 3]), depth - 1)), None)))
        else:
            items.append(("not", ("group", ("seq", gen_stack_ops(rng, rng.choice([2, 3]), depth - 1) + [("str", "!")]), None)))
    return items


def gen_stack_template(rng: random.Random):
    """r = { PUSH(l) ~ PUSH(l) ~ (A ~ "!" | B) ~ C ~ EOI? } over the alphabet {a, b, !}"""
    a_ = gen_stack_ops(rng, rng.choice([2, 3, 4]), 2)
    b_ = gen_stack_ops(rng, rng.choice([1, 2, 3]), 1)
    c_ = gen_stack_ops(rng, rng.choice([1, 2, 3]), 1)
    body = [("push", ("id", "l", None)), ("push", ("id", "l", None))]
    if rng.random() < 0.5:
        body.append(("push", ("id", "l", None)))
    body.append(("group", ("choice", [("seq", a_ + [("str", "!")]), ("seq", b_)]), None))
    body += c_
    if rng.random() < 0.6:
        body.append(("id", "EOI", None))
    rules = {"r": (rng.choice(["", "", "@", "$"]), ("seq", body)), "l": (rng.choice(["", "_"]), ("range", "a", "b"))}
    if rng.random() < 0.3:
        rules["WHITESPACE"] = ("_", ("str", " "))
    return rules


def _nc_ops(rng: random.Random, n: int, depth: int):
    """non-consuming stack manipulations (DROP, PUSH_LITERAL) with nested *successful* catch points"""
    items = []
    for _ in range(n):
        k = rng.choice(["drop", "drop", "drop", "pushlit", "pushlit", "nest", "nest"] if depth > 0
                       else ["drop", "drop", "pushlit"])
        if k == "drop":
            items.append(("drop",))
        elif k == "pushlit":
            items.append(("pushlit", rng.choice(["a", "b", "x", "xy"])))
        else:
            inner = ("group", ("seq", _nc_ops(rng, rng.choice([1, 2, 3]), depth - 1)), None)
            form = rng.choice(["opt", "choice", "max", "group", "rep"])
            if form == "opt":
                items.append(("opt", inner))
            elif form == "choice":
                items.append(("group", ("choice", [("seq", _nc_ops(rng, 2, depth - 1) + [("str", "!")]), inner]), None))
            elif form == "max":
                items.append(("max", inner, 1))
            elif form == "rep":
                # one successful iteration, then an iteration that fails after changing the stack
                items.append(("minmax", ("group", ("seq", [("drop",), ("pushlit", "b")]), None), 1, 1))
            else:
                items.append(inner)
    return items


def gen_stack_template2(rng: random.Random):
    """Every manipulation is non-consuming, the part under test is abandoned by a catch point, and the
    grammar ends with PEEK_ALL ~ EOI: the one input it accepts *is* the stack content (top to bottom)
    after the backtracking.  Enumerating all short inputs therefore reads the stack exactly."""
    pre = [("pushlit", x) for x in rng.sample(["a", "b", "ab", "x", "ba"], rng.choice([2, 3, 4]))]
    a_ = _nc_ops(rng, rng.choice([2, 3, 4, 5]), 2)
    how = rng.choice(["choice", "opt", "not", "and", "rep", "choice"])
    bad = ("seq", a_ + [("str", "!")])
    if how == "choice":
        undo = ("group", ("choice", [bad, ("seq", _nc_ops(rng, rng.choice([0, 1, 2]), 1) or [("pushlit", "a"), ("drop",)])]), None)
    elif how == "opt":
        undo = ("opt", ("group", bad, None))
    elif how == "not":
        undo = ("not", ("group", bad, None))
    elif how == "and":
        undo = ("and", ("group", ("seq", a_), None))          # a *successful* predicate is undone too
    else:
        undo = ("max", ("group", bad, None), 2)
    post = _nc_ops(rng, rng.choice([0, 1, 2]), 1)
    body = pre + ([("opt", ("group", ("seq", _nc_ops(rng, 2, 1)), None))] if rng.random() < 0.3 else []) + [undo] + post
    body += [("peekall",), ("id", "EOI", None)]
    return {"r": (rng.choice(["", "@"]), ("seq", body))}


# ---------------------------------------------------------------- stack histories as grammars (C05 ~ C09 at grammar level)

HIST_TOKENS = ["P", "D", "[c", "[a", "]"]


def balanced_histories(max_len: int):
    """all token sequences over push / drop / [commit … ] / [abort … ] with balanced brackets"""
    out = []

    def rec(seq, depth):
        if depth == 0 and seq:
            out.append(tuple(seq))
        if len(seq) >= max_len:
            return
        for t in HIST_TOKENS:
            if t == "]":
                if depth > 0 and seq[-1] not in ("[c", "[a"):
                    rec(seq + [t], depth - 1)
            elif t in ("[c", "[a"):
                if len(seq) + 2 < max_len + 0:
                    rec(seq + [t], depth + 1)
            else:
                rec(seq + [t], depth)

    rec([], 0)
    return out


def history_grammar(tokens, pre: int = 3):
    """pre-existing entries a, b, c; then the history; then PEEK_ALL ~ EOI reads the stack out.
    [c…] = a nested construct that succeeds (group / optional), [a…] = one that is abandoned
    ((… ~ "!")?): every stack change made inside must be undone."""
    fresh = iter("xyzuvw" * 4)

    def build(i):
        items = []
        while i < len(tokens):
            t = tokens[i]
            if t == "P":
                items.append(("pushlit", next(fresh)))
                i += 1
            elif t == "D":
                items.append(("drop",))
                i += 1
            elif t == "]":
                return items, i + 1
            else:
                inner, j = build(i + 1)
                if t == "[c":
                    # a catch point that commits: optional, or the first alternative of a choice
                    items.append(("opt", ("group", ("seq", inner), None)) if len(inner) % 2
                                 else ("group", ("choice", [("seq", inner), ("str", "!")]), None))
                else:
                    items.append(("opt", ("group", ("seq", inner + [("str", "!")]), None)))
                i = j
        return items, i

    items, _ = build(0)
    body = [("pushlit", x) for x in "abc"[:pre]] + items + [("peekall",), ("id", "EOI", None)]
    return {"r": ("", ("seq", body))}


def history_contents(tokens, pre: int = 3):
    """(stack content with full-copy semantics, content if nothing were undone) as top-to-bottom strings;
    None if the history fails outright (DROP on an empty stack outside an abandoned part)"""
    fresh = iter("xyzuvw" * 4)
    fresh2 = iter("xyzuvw" * 4)

    def run(i, st, undo):
        while i < len(tokens):
            t = tokens[i]
            if t == "P":
                st = st + [next(fresh if undo else fresh2)]
                i += 1
            elif t == "D":
                if not st:
                    return None, i
                st = st[:-1]
                i += 1
            elif t == "]":
                return st, i + 1
            else:
                # find the matching bracket
                depth, j = 1, i + 1
                while depth:
                    depth += {"[c": 1, "[a": 1, "]": -1}.get(tokens[j], 0)
                    j += 1
                inner, _ = run(i + 1, st, undo)
                if t == "[c":
                    # optional/group: a failing inner part is skipped by the optional (odd length) or fails the group
                    st = inner if inner is not None else st
                elif not undo and inner is not None:
                    st = inner
                else:
                    # consume fresh names the abandoned part used, to stay in step with the grammar
                    pass
                i = j
        return st, i

    a, _ = run(0, list("abc"[:pre]), True)
    b, _ = run(0, list("abc"[:pre]), False)
    f = lambda st: None if st is None else "".join(reversed(st))  # noqa: E731
    return f(a), f(b)


# ---------------------------------------------------------------- optimizer-targeted templates (C02)

def gen_skip_template(rng: random.Random):
    """what the `skip` pass rewrites, in a rule where it applies, followed by an observer; stop strings
    with overlaps and shared prefixes"""
    pool = ["ab", "ba", "aa", "abc", "bc", "cb", "a", "b", "bca", "ca"]
    stops = rng.sample(pool, rng.choice([2, 2, 3, 4]))
    alts = [("str", x) for x in stops]
    if rng.random() < 0.3:
        # one of the stops reached through a rule reference (the pass inlines through identifiers)
        rules_extra = {"st": (rng.choice(["", "_"]), ("choice", alts[:2]) if len(alts) > 2 else alts[0])}
        alts = [("id", "st", None)] + (alts[2:] if len(alts) > 2 else alts[1:])
    else:
        rules_extra = {}
    inner = ("group", ("choice", alts), None) if len(alts) > 1 else alts[0]
    skipper = ("rep", ("group", ("seq", [("not", inner), ("id", "ANY", None)]), None))
    tail = rng.choice([[("opt", ("group", ("choice", [("str", x) for x in stops]), None)), ("rep", ("id", "ANY", None))],
                       [("id", "w", None), ("rep", ("id", "ANY", None))],
                       [("id", "EOI", None)], []])
    rules = {"r": (rng.choice(["@", "$", "@", "", "!", "!"]), ("seq", [skipper, *tail]) if tail else skipper),
             "w": ("", ("choice", [("str", x) for x in stops])), **rules_extra}
    if rules["r"][0] == "!":
        # a non-atomic rule, reached from an atomic one: implicit trivia applies inside it again
        rules["r0"] = (rng.choice(["@", "$"]), ("seq", [("str", "["), ("id", "r", None), ("opt", ("str", "]"))]))
        rules["WHITESPACE"] = ("_", ("str", " "))
        return rules
    if rng.random() < 0.2:
        a_, b_ = rng.choice(["a", "b", "-"]), rng.choice(["b", "c", ">"])
        rules = {"r": (rng.choice(["@", "$", "@"]), ("seq", [("rep", ("group", ("seq", [("not", ("id", "st3", None)), ("id", "ANY", None)]), None)),
                                                         ("opt", ("id", "st3", None)), ("rep", ("id", "ANY", None))])),
                 "st3": (rng.choice(["!", "!", "", "_", "@"]), ("seq", [("str", a_), ("str", b_)])),
                 "WHITESPACE": ("_", ("str", " "))}
        return rules
    u = rng.random()
    if u < 0.2:
        # chained: the operand of the predicate is a rule that is itself a skip shape (and becomes a SkipUntil first)
        rules["st2"] = (rng.choice(["@", "@", "_", ""]), ("rep", ("group", ("seq", [("not", ("str", rng.choice(stops))), ("id", "ANY", None)]), None)))
        rules["r2"] = (rng.choice(["@", "$"]), ("seq", [("rep", ("group", ("seq", [("not", ("id", "st2", None)), ("id", "ANY", None)]), None)),
                                                     ("rep", ("id", "ANY", None))]))
    elif u < 0.35:
        # a grammar rule that merely happens to be called SKIP, with a skip-shaped body, next to real trivia
        rules["SKIP"] = (rng.choice(["", "", "_", "@"]), skipper)
        rules["r3"] = ("", ("seq", [("id", "SKIP", None), ("opt", ("group", ("choice", [("str", x) for x in stops]), None))]))
        rules["WHITESPACE"] = ("_", ("str", " "))
        return rules
    elif u < 0.5:
        # explicit references to a silent multi-item WHITESPACE from atomic and non-atomic rules
        rules["WHITESPACE"] = ("_", rng.choice([("seq", [("str", " "), ("str", "b")]), ("seq", [("str", "a"), ("str", "b")]),
                                                 ("choice", [("seq", [("str", " "), ("str", " ")]), ("str", "c")])]))
        rules["r4"] = (rng.choice(["", "", "@", "$", "!"]), ("seq", [("str", "a"), ("id", "WHITESPACE", None), ("str", "c")]))
        return rules
    if rng.random() < 0.4:
        rules["WHITESPACE"] = ("_", ("str", " "))
    return rules


def gen_squash_template(rng: random.Random):
    """what `squash_choice` rewrites: literals / ranges / case-insensitive literals / built-in classes with
    shared prefixes, in every order, followed by an observer"""
    pool = [("str", "a"), ("str", "ab"), ("str", "abc"), ("str", "b"), ("str", "ba"), ("ci", "a"), ("ci", "Ab"), ("ci", "aB"),
            ("range", "a", "b"), ("range", "b", "c"), ("id", "ASCII_DIGIT", None), ("id", "ASCII_HEX_DIGIT", None),
            ("str", "1a"), ("str", "A"), ("id", "NEWLINE", None), ("str", "")]
    alts = rng.sample(pool, rng.choice([2, 3, 3, 4, 5]))
    if rng.random() < 0.3:
        # class-syntax mode: one-character literals that mean something inside a regex class ( - ] ^ \ [ ) next to
        # ordinary ones that sort below and above them, and ranges ending right beside them
        special = rng.sample(["-", "]", "^", "\\", "[", "+", "*", "/", ",", ".", "!", " ", "{", "}", ":", "@", "`", "|", "$", "(", ")"],
                             rng.choice([2, 3, 4, 5]))
        alts = [("str", c) for c in special]
        if rng.random() < 0.5:
            alts.insert(rng.randrange(len(alts) + 1), rng.choice([("range", "a", "z"), ("range", "A", "Z"), ("range", "0", "9"),
                                                                    ("id", "ASCII_HEX_DIGIT", None), ("id", "ASCII_ALPHA_LOWER", None),
                                                                    ("range", "+", "-"), ("range", "*", "/")]))
        rules = {"r": (rng.choice(["", "@"]), ("seq", [("rep", ("group", ("choice", alts), None)), ("id", "EOI", None)]))}
        return rules
    if rng.random() < 0.4:
        # boundary mode: a range (or class) next to a longer literal whose first character sits on, just inside or just
        # outside the range's bounds - whether the optimizer may reorder them hinges on exactly that character
        lo = rng.choice("abc1")
        hi = chr(ord(lo) + rng.choice([0, 1, 2]))
        first = rng.choice([lo, hi, chr(ord(lo) - 1), chr(ord(hi) + 1), chr((ord(lo) + ord(hi)) // 2)])
        lit = ("str", first + rng.choice(["a", "b", "x", "1"])) if rng.random() < 0.8 else ("ci", first + "a")
        pair = [("range", lo, hi), lit]
        if rng.random() < 0.3:
            pair.reverse()
        extra = rng.sample(pool, rng.choice([0, 0, 1, 2]))
        at = rng.randrange(len(extra) + 1)
        alts = extra[:at] + pair[:1] + extra[at:] + pair[1:] if rng.random() < 0.5 else extra[:at] + pair + extra[at:]
    if rng.random() < 0.25:
        alts = alts[:1] + [("group", ("choice", alts[1:3]), None)] + alts[3:] if len(alts) > 3 else alts
    extra_rules = {}
    if rng.random() < 0.45:
        # nested mode: one alternative is itself a choice of literals, a repetition of one, or a silent rule that is one -
        # what an inlining pass that runs before squash_choice leaves behind, and what a pass that squashes repetitions produces
        sub = [x for x in rng.sample(pool[:13], rng.choice([2, 2, 3])) if x != ("str", "")] or [("str", "b")]
        inner = ("choice", sub) if len(sub) > 1 else sub[0]
        shape = rng.choice(["silent", "silent", "group", "rep", "rep1", "opt", "silent-rep", "class-rep"])
        if shape == "silent":
            extra_rules["u"] = ("_", inner)
            alt = ("id", "u", None)
        elif shape == "group":
            alt = ("group", inner, None)
        elif shape in ("rep", "rep1", "opt"):
            alt = (shape, ("group", inner, None))
        elif shape == "silent-rep":
            extra_rules["u"] = ("_", ("rep", ("group", inner, None)))
            alt = ("id", "u", None)
        else:
            alt = ("rep", rng.choice([("id", "ASCII_DIGIT", None), ("range", "a", "b")]))
        alts = [a for a in alts if a != ("str", "")][:3] or [("str", "c")]
        alts.insert(rng.randrange(len(alts) + 1), alt)
    if rng.random() < 0.2 and ("str", "") not in alts:
        alts = [*alts, ("str", "")]          # an empty last alternative: the choice always matches, possibly nothing, possibly at offset 0
    ch = ("group", ("choice", alts), None)
    body = rng.choice([[ch, ("rep", ("id", "ANY", None))], [ch, ("id", "EOI", None)], [("rep", ch), ("id", "EOI", None)], [ch, ch],
                       [("rep", ch), ("str", "c")], [("rep1", ch), ("id", "EOI", None)]])
    if ("str", "") in alts:
        body = rng.choice([[ch, ("rep", ("id", "ANY", None))], [ch, ("id", "EOI", None)], [ch, ("str", "c")], [ch, ch, ("id", "EOI", None)]])
    rules = {"r": (rng.choice(["", "@", "", "!"]), ("seq", body)), **extra_rules}
    u = rng.random()
    if u < 0.3:
        rules["WHITESPACE"] = ("_", ("choice", [("str", " "), ("str", "\t"), ("id", "NEWLINE", None)]))
    elif u < 0.5:
        rules["COMMENT"] = (rng.choice(["_", "_", ""]), ("str", "#"))            # a grammar with COMMENT but no WHITESPACE
    elif u < 0.6:
        rules["WHITESPACE"] = ("_", ("str", " "))
        rules["COMMENT"] = (rng.choice(["_", ""]), ("str", "#"))
    return rules


# ---------------------------------------------------------------- modifier chains (C04)

def modifier_chain(mods, ws_silent: bool = True):
    """r0 = m0{ "x" ~ r1 ~ "y" } … r3 = m3{ "a" ~ "b" } with WHITESPACE defined: which gaps accept trivia, and
    which pairs are visible, is decided by the whole chain of modifiers above each gap"""
    lits = [("x", "y"), ("p", "q"), ("u", "v")]
    rules = {}
    n = len(mods)
    for i, m in enumerate(mods):
        if i < n - 1:
            a, b = lits[i]
            rules[f"r{i}"] = (m, ("seq", [("str", a), ("id", f"r{i + 1}", None), ("str", b)]))
        else:
            rules[f"r{i}"] = (m, ("seq", [("str", "a"), ("str", "b")]))
    rules["WHITESPACE"] = ("_" if ws_silent else "", ("str", " "))
    return rules


def chain_inputs(n: int):
    """the sentence of the chain with a blank inserted at every subset of its gaps"""
    lits = [("x", "y"), ("p", "q"), ("u", "v")]
    word = "".join(lits[i][0] for i in range(n - 1)) + "ab" + "".join(lits[i][1] for i in reversed(range(n - 1)))
    out = []
    gaps = len(word) - 1
    for mask in range(1 << gaps):
        t = word[0]
        for i in range(gaps):
            if mask >> i & 1:
                t += " "
            t += word[i + 1]
        out.append(t)
    return out


# ---------------------------------------------------------------- modifier trees (C04, C06)

def modifier_tree(mods, ws_silent: bool = True):
    """a record / list / item / leaf grammar under an assignment of modifiers to its five rules: which inner pairs
    an atomic rule keeps (those under a nested $ or ! rule, in input order, however many hidden levels lie between)
    and where trivia is accepted is decided by the modifiers on the whole path"""
    m0, m1, m2, m3, m4 = mods
    rules = {
        "r0": (m0, ("seq", [("str", "<"), ("id", "r1", None), ("str", ">")])),
        "r1": (m1, ("seq", [("id", "r2", None), ("rep", ("group", ("seq", [("str", ","), ("id", "r2", None)]), None))])),
        "r2": (m2, ("choice", [("id", "r3", None), ("id", "r4", None)])),
        "r3": (m3, ("rep1", ("range", "a", "c"))),
        "r4": (m4, ("seq", [("range", "0", "9"), ("rep", ("range", "0", "9"))])),
        "WHITESPACE": ("_" if ws_silent else "", ("str", " ")),
    }
    return rules


TREE_INPUTS = ["<ab,12>", "<a>", "<1,b,22>", "< ab , 12 >", "<ab ,12, c>", "<a b,1 2>", "<ab,12", "<,>", "<ab,,12>", "<c,b,a,0>"]


# ---------------------------------------------------------------- PEEK[a..b] grid (C05)

def slice_grid():
    """r = { PUSH_LITERAL("a") ~ PUSH_LITERAL("b") ~ PUSH_LITERAL("c") ~ PEEK[i..j] ~ EOI } for every pair of bounds in
    {omitted, -4 … 4}: the one input each grammar accepts is the addressed slice, bottom to top"""
    bounds = [None, -4, -3, -2, -1, 0, 1, 2, 3, 4]
    out = []
    for i in bounds:
        for j in bounds:
            body = [("pushlit", "a"), ("pushlit", "b"), ("pushlit", "c"), ("slice", i, j), ("id", "EOI", None)]
            out.append({"r": ("", ("seq", body))})
    return out


# ---------------------------------------------------------------- trivia rules that use the stack (C05)

def trivia_stack_templates():
    """an implicit-trivia attempt that changes the stack and then fails must leave no trace: after `w`, the trivia rule
    matches "#", changes the stack and fails on its second "#"; the explicit "#" of r then matches and PEEK_ALL ~ EOI reads the
    stack (top to bottom) out of the input"""
    out = []
    for tname in ("COMMENT", "WHITESPACE"):
        for op in (("pushlit", "b"), ("push", ("str", "=")), ("drop",), ("pop",)):
            for mod in ("", "_"):
                pre = [("pushlit", "a")] + ([("pushlit", "=")] if op[0] in ("drop", "pop") else [])
                tail = [("str", "#")] if op[0] != "push" else [("str", "#")]
                body_t = [("str", "#"), op] + tail
                rules = {"r": ("", ("seq", pre + [("id", "w", None), ("str", "#"), ("opt", ("str", "=")), ("id", "w", None), ("peekall",), ("id", "EOI", None)])),
                         "w": ("", ("str", "x")), tname: (mod, ("seq", body_t))}
                out.append(rules)
    return out


# ---------------------------------------------------------------- nested tags and backtracking (C08, C01, C02, C06)

def gen_tag_template(rng: random.Random):
    """nested node tags around alternatives / optionals / repetitions / predicates whose first attempt lets a rule finish
    (and take a pending tag) before it fails"""
    def leafrule():
        return ("id", rng.choice(["x", "y", "w"]), None)

    def part(depth):
        # a rule, a tagged group, or a rule that finishes (and takes the pending tag) right before / after a tagged group
        u = rng.random()
        if depth <= 0 or u < 0.3:
            return leafrule()
        if u < 0.55:
            return tagged(depth - 1)
        if u < 0.85:
            return ("seq", [leafrule(), tagged(depth - 1)])
        return ("seq", [tagged(depth - 1), leafrule()])

    def attempt(depth):
        k = rng.choice(["choice", "opt", "rep", "and", "not", "choice"])
        inner = part(depth)
        bad = ("seq", [inner, ("str", "z")])
        good = part(depth)
        if k == "choice":
            return ("group", ("choice", [bad, good]), None)
        if k == "opt":
            return ("seq", [("opt", ("group", bad, None)), good])
        if k == "rep":
            return ("seq", [("rep", ("group", bad, None)), good])
        if k == "and":
            return ("seq", [("and", inner), good])
        return ("seq", [("not", ("group", bad, None)), good])

    n = [0]
    few_names = rng.random() < 0.4        # nested tags that share a name

    def tagged(depth):
        n[0] += 1
        body = attempt(depth) if rng.random() < 0.75 else ("seq", [leafrule(), attempt(depth)])
        g = ("group", body, "t%d" % (rng.choice([1, 1, 2]) if few_names else n[0]))
        if rng.random() < 0.35:
            # the tagged group directly under a postfix operator (what the `unroll` pass rewrites)
            k = rng.choice(["rep1", "rep1", "rep", "opt", "exact", "min", "max", "minmax"])
            if k in ("rep1", "rep", "opt"):
                return (k, g)
            if k == "exact":
                return ("exact", g, rng.choice([1, 2]))
            if k == "min":
                return ("min", g, rng.choice([0, 1]))
            if k == "max":
                return ("max", g, rng.choice([1, 2]))
            return ("minmax", g, 1, 2)
        return g

    top = tagged(2)
    if rng.random() < 0.5:
        # the whole tagged group inside one more attempt: a checkpoint taken while the outer tag is still pending
        top = rng.choice([("group", ("choice", [("seq", [top, ("str", "z")]), top]), None), ("group", ("choice", [top, ("str", "q")]), None),
                          ("seq", [("opt", ("group", ("seq", [top, ("str", "z")]), None)), top])])
    rules = {"s": ("", ("seq", [top] + ([leafrule()] if rng.random() < 0.5 else []))),
             "x": ("", ("str", "a")), "y": ("", ("str", "a")), "w": ("", ("str", "b"))}
    if rng.random() < 0.3:
        rules["WHITESPACE"] = (rng.choice(["_", ""]), ("str", " "))
    return rules


# ---------------------------------------------------------------- POP_ALL inside an abandoned attempt (C01, C05)

def popall_templates():
    """r = { PUSH(l) ~ PUSH(l) ~ ((PREFIX ~ POP_ALL ~ SUFFIX ~ "!") | "") ~ PEEK_ALL ~ ANY* }: the first alternative pops and
    pushes, empties the stack with POP_ALL (generated code: one clear(); interpreter: pop by pop) and fails on "!"; the stack
    the second alternative leaves for PEEK_ALL must be the two pushed characters again"""
    import itertools
    ops = [("pop",), ("drop",), ("push", ("id", "l", None)), ("pushlit", "a")]
    prefixes = [()] + [(o,) for o in ops] + list(itertools.product(ops, repeat=2))
    suffixes = [(), (("push", ("id", "l", None)),), (("pushlit", "b"),), (("peekall",),), (("pop",),)]
    out = []
    for pre in prefixes:
        for suf in suffixes:
            first = ("seq", [*pre, ("popall",), *suf, ("str", "!")])
            body = [("push", ("id", "l", None)), ("push", ("id", "l", None)),
                    ("group", ("choice", [first, ("str", "")]), None), ("peekall",), ("rep", ("id", "ANY", None))]
            out.append({"r": ("", ("seq", body)), "l": ("_", ("range", "a", "b"))})
    return out


def squash_nested_grid(trivia_kinds=("none", "cm", "ws")):
    """an all-literal choice one of whose alternatives is again a choice of literals - written in parentheses, behind a silent
    rule, behind the built-in NEWLINE, or under ? * + - with inner choices the optimizer may and may not fuse on their own
    ("a" | "ab" is not order preserving), in grammars with no trivia, with COMMENT only and with WHITESPACE only.
    Yields (rules, passes or None): a silent-rule carrier is inlined *before* squash_choice runs only in a non-default pass
    order, so those cells come with one."""
    L = lambda x: ("str", x)  # noqa: E731
    inners = [[L("a"), L("ab")], [L("ab"), L("a")], [L("a"), L("b")], [L("b"), L("ba"), L("a")], [("range", "a", "b"), L("ab")]]
    outers = [[L("c")], [L("c"), L("1")], [L("b")]]
    inline_first = [["inline_silent", "squash_choice"], ["inline_silent", "unroll", "squash_choice", "skip"],
                    ["unroll", "skip", "inline_builtin", "squash_choice", "inline_silent"] * 2,
                    ["inline_silent", "squash_choice", "inline_builtin", "skip", "unroll"]]
    out = []
    n = 0
    for inner in inners:
        for outer in outers:
            for pos in (0, 1):
                for carrier in ("silent", "group", "newline", "rep", "rep1", "opt"):
                    for triv in trivia_kinds:
                        for bodyk in (0, 1):
                            n += 1
                            extra = {}
                            ich = ("choice", inner)
                            if carrier == "silent":
                                extra["u"] = ("_", ich)
                                alt = ("id", "u", None)
                            elif carrier == "group":
                                alt = ("group", ich, None)
                            elif carrier == "newline":
                                alt = ("id", "NEWLINE", None)
                            else:
                                alt = (carrier, ("group", ich, None))
                            alts = [alt, *outer] if pos == 0 else [*outer, alt]
                            ch = ("group", ("choice", alts), None)
                            plain = ("group", ich, None)
                            body = [ch, ("id", "EOI", None)] if bodyk == 0 else [("rep", plain), ch, ("rep", ("id", "ANY", None))]
                            rules = {"r": ("", ("seq", body)), **extra}
                            if triv == "cm":
                                rules["COMMENT"] = ("_" if n % 3 else "", L("#"))
                            elif triv == "ws":
                                rules["WHITESPACE"] = ("_", L(" "))
                            passes = inline_first[n % len(inline_first)] if carrier == "silent" or n % 5 == 0 else None
                            out.append((rules, passes))
    return out


def trivia_shape_grid():
    """one list grammar under every shape of the implicit rules: WHITESPACE only / COMMENT only / both; silent or not; bodies that
    are one literal, a choice of literals (which the optimizer fuses into a regular expression), a choice with NEWLINE, a
    sequence, or a reference to an ordinary (non-silent) rule - whose pairs must appear wherever the trivia matched"""
    L = lambda x: ("str", x)  # noqa: E731
    ws_bodies = [L(" "), ("choice", [L(" "), L("\t")]), ("choice", [L(" "), ("id", "NEWLINE", None)]), ("seq", [L(" "), L("\t")]),
                 ("id", "blank", None)]
    cm_bodies = [L("#"), ("seq", [L("#"), ("id", "word", None)]), ("choice", [("id", "doc", None), L("#")]),
                 ("seq", [L("#"), ("rep", ("range", "x", "y")), L("#")]),
                 # trivia inside trivia: the comment calls a non-atomic rule whose sequence skips trivia again
                 ("seq", [L("#"), ("id", "note", None), L("#")])]
    out = []
    n = 0
    for ws in [None, *ws_bodies]:
        for cm in [None, *cm_bodies]:
            if ws is None and cm is None:
                continue
            for ws_mod in (("_", "") if ws is not None else ("_",)):
                for cm_mod in (("_", "") if cm is not None else ("_",)):
                    n += 1
                    item_mod = ["", "@", "$", "!"][n % 4]
                    rules = {"r": (["", "", "!"][n % 3], ("seq", [("id", "item", None), ("rep", ("group", ("seq", [L(";"), ("id", "item", None)]), None)),
                                                                  ("id", "EOI", None)])),
                             "item": (item_mod, ("rep1", ("id", "word", None)))}
                    rules["word"] = ("", ("range", "a", "b"))
                    if ws is not None:
                        rules["WHITESPACE"] = (ws_mod, ws)
                        if ws == ("id", "blank", None):
                            rules["blank"] = ("", L(" "))
                    if cm is not None:
                        rules["COMMENT"] = (cm_mod, cm)
                        if cm[0] == "choice":
                            rules["doc"] = ("", ("seq", [L("#"), L("#")]))
                        if cm[0] == "seq" and ("id", "note", None) in cm[1]:
                            rules["note"] = ("!", ("seq", [("id", "word", None), L("="), ("id", "word", None)]))
                    out.append(rules)
    return out


def class_syntax_grid():
    """choices of one-character literals that mean something inside a regular-expression class ( - ] ^ \\ [ ) between a member
    that sorts below and one (a literal, a range or a built-in class) that sorts above them, in three orders"""
    out = []
    for sp in ("-", "]", "^", "\\", "["):
        for lo in ("+", "!", "A"):
            for hi in (("str", "z"), ("str", "/") if sp == "-" else ("str", "~"), ("range", "0", "9") if sp == "-" else ("range", "a", "z"),
                       ("id", "ASCII_DIGIT", None) if sp == "-" else ("id", "ASCII_ALPHA_LOWER", None)):
                for order in range(3):
                    alts = [[("str", lo), ("str", sp), hi], [("str", sp), ("str", lo), hi], [hi, ("str", sp), ("str", lo)]][order]
                    out.append({"r": ("@", ("seq", [("rep", ("group", ("choice", alts), None)), ("id", "EOI", None)]))})
    return out


def squash_boundary_grid():
    """a range next to a two-character literal whose first character sits on / just inside / just outside the range's bounds,
    in both orders, under four observers: whether the optimizer may fuse the choice hinges on exactly that character"""
    out = []
    for lo, hi in (("a", "c"), ("x", "x"), ("0", "9")):
        for first in sorted({lo, hi, chr(ord(lo) - 1), chr(ord(hi) + 1), chr((ord(lo) + ord(hi)) // 2)}):
            for order in (0, 1):
                alts = [("range", lo, hi), ("str", first + "d")]
                if order:
                    alts.reverse()
                ch = ("group", ("choice", alts), None)
                for body in ([ch, ("id", "EOI", None)], [("rep", ch), ("id", "EOI", None)], [ch, ch, ("id", "EOI", None)], [ch, ("str", "d"), ("rep", ("id", "ANY", None))]):
                    out.append({"r": ("", ("seq", body))})
    return out
