"""Engine for the grammar-level properties C01–C08, C13, C16.

One generator (random grammars by feature group + the bundled grammars), four execution
modes of the implementation (interp / opt / gen / optgen), five layers of the Lean model
(spec / interp / gen / opt / optgen + the optimizer's output tree), and per property:
  * the correspondence it rests on (model layer vs implementation mode, exact strings),
  * its direct oracle on the implementation (the property's own statement),
  * its theorems (audited by common.proof_stage).
See DESIGN.md §4–§6.
"""

from __future__ import annotations

import ast as pyast
import collections
import os
import json
import multiprocessing as mp
import random
import zlib
import re
import signal
import time
from pathlib import Path

import gen_grammar as G
from common import NCPU, REPO, Outcome, proof_coverage, proof_stage, run_driver, seed, use_repo

use_repo()
import pyside as P  # noqa: E402
from pest.exceptions import PestParsingError, error_context  # noqa: E402
from pest.grammar.optimizer import DEFAULT_OPTIMIZER_PASSES, Optimizer  # noqa: E402
from pest.grammar.rule import SILENT, BuiltInRule  # noqa: E402

FUEL = 600
MODES = ["interp", "opt", "gen", "optgen"]
PASS_NAMES = ["unroll", "skip", "inline_builtin", "squash_choice", "inline_silent"]


def pass_table() -> dict:
    """name -> OptimizerStep, from the exported DEFAULT_OPTIMIZER_PASSES (by position and name)"""
    by_name = {}
    for step in DEFAULT_OPTIMIZER_PASSES:
        key = {"inline built-in": "inline_builtin", "inline silent": "inline_silent"}.get(step.name, step.name)
        by_name[key] = step
    return by_name


def mk_optimizer(names):
    tbl = pass_table()
    if list(names) == list(PASS_NAMES):
        # the library's own module-level optimizer, the one Parser.from_grammar uses for every grammar of the process: state it
        # keeps between grammars (the models assume none) then shows as a difference
        from pest.grammar.optimizer import DEFAULT_OPTIMIZER as _D
        return _D
    return Optimizer([tbl[n] for n in names])


class Timeout(Exception):
    pass


WORKER_MEMORY = 10 << 30


def _limit_worker() -> None:
    """address-space limit of a worker: a runaway allocation (source generated from an exponentially grown rule table, a huge
    regex) becomes a MemoryError inside the worker, counted and skipped, instead of the kernel killing the process"""
    import resource
    try:
        resource.setrlimit(resource.RLIMIT_AS, (WORKER_MEMORY, WORKER_MEMORY))
    except (ValueError, OSError):
        pass


def _alarm(_sig, _frm):
    raise Timeout


# ---------------------------------------------------------------- structured results


def tree(pairs):
    return [(p.name, p.start, p.end, p.tag, tree(p.children)) for p in pairs]


def run_struct(parse, rule, text, k):
    """('ok', tree) | ('fail', fpos, expected keys, unexpected keys, stack) | ('oof',) | ('exc', name)"""
    try:
        return ("ok", tree(parse(rule, text, start_pos=k)))
    except PestParsingError as e:
        st = e.state
        return ("fail", st.furthest_pos, [(a, len(b)) for a, b in st.furthest_expected.items()],
                [(a, len(b)) for a, b in st.furthest_unexpected.items()], [f.name for f in st.furthest_stack])
    except RecursionError:
        return ("oof",)
    except Timeout:
        raise
    except Exception as e:  # noqa: BLE001
        return ("exc", type(e).__name__)


def enc_tree(t) -> str:
    return "[" + "".join(f"({n},{s},{e},{'-' if tg is None else tg},{enc_tree(ch)})" for n, s, e, tg, ch in t) + "]"


def enc_struct(r) -> str:
    if r[0] == "ok":
        return "ok " + enc_tree(r[1])
    if r[0] == "fail":
        keys = lambda ks: ",".join(f"{a}*{n}" for a, n in ks) if ks else "-"  # noqa: E731
        return f"fail {r[1]} E:{keys(r[2])} U:{keys(r[3])} S:{','.join(r[4]) or '-'}"
    if r[0] == "oof":
        return "oof"
    return "exc " + r[1]


def erase_tags(t):
    return [(n, s, e, None, erase_tags(ch)) for n, s, e, _tg, ch in t]


def shift_tree(t, d):
    return [(n, s + d, e + d, tg, shift_tree(ch, d)) for n, s, e, tg, ch in t]


def outcome(r):
    """what the tree-level properties compare: ('ok', tree) or ('fail',)"""
    return ("ok", r[1]) if r[0] == "ok" else (r[0],) if r[0] != "exc" else r


# ---------------------------------------------------------------- building the four modes


CI_FOLD_GRAMMARS = ['r = { ^"ss" ~ w }\nw = { "a" }', 'r = { (^"fi")+ ~ w }\nw = { "a" }', 'r = { "x" ~ ^"strasse" ~ w? }\nw = { "a" }',
                    'r = { ^"k" ~ ^"i" ~ w }\nw = { "a" }']
CI_FOLD_TOKENS = ["\u00df", "ss", "\ufb01", "fi", "a", "x", "\u212a", "k", "\u0130", "i", "stra\u00dfe", "strasse", "\u1e9e", "\u017f"]


def ci_fold_oracle(prop: str, shard: int, out) -> None:
    """^ literals against spellings that match only through Unicode case folding, some with another length ("ß" for "ss"):
    outside the models (ASCII folding only), so only the properties' own oracles are applied, on the implementation, in all
    four modes: trees well-formed (C06), failure reports in range (C13), nothing but PestParsingError (C07), generated =
    interpreted (C01)"""
    import itertools as _it
    gtext = CI_FOLD_GRAMMARS[shard % len(CI_FOLD_GRAMMARS)]
    try:
        md = Modes(gtext, list(PASS_NAMES))
    except Exception as e:  # noqa: BLE001
        out["load_errors"].append(("ci-fold", type(e).__name__, str(e)[:200], gtext))
        return
    base = dict(group="ci-fold", grammar=gtext, passes=list(PASS_NAMES))
    names_ok = set(md.p0.rules) | {"SKIP"}
    nonsilent = {n for n, r in md.p0.rules.items() if not r.modifier & SILENT and not isinstance(r, BuiltInRule)} | {"EOI"}
    for n in (1, 2, 3):
        for toks in _it.product(CI_FOLD_TOKENS, repeat=n):
            text = "".join(toks)
            for k in (0, 1) if n == 3 else (0,):
                if k > len(text):
                    continue
                out["stats"]["ci_fold_oracle_cases"] += 1
                res = {m: run_struct(md.parse[m], "r", text, k) for m in MODES}
                case = {**base, "rule": "r", "input": [ord(c) for c in text], "start_pos": k, "note": "oracle only, no model"}
                for m in MODES:
                    if res[m][0] == "exc" and prop in ("C07", "C01", "C13"):
                        out["direct"].append({**case, "what": f"{res[m][1]} escaped parse()", "mode": m})
                if prop == "C01":
                    for a, b in (("interp", "gen"), ("opt", "optgen")):
                        if "oof" not in (res[a][0], res[b][0]) and res[a][:2] != res[b][:2]:
                            out["direct"].append({**case, "what": "generated parser differs from the interpreter", "mode": b,
                                                  "expected": enc_struct(res[a])[:400], "observed": enc_struct(res[b])[:400]})
                elif prop == "C06":
                    for m in MODES:
                        if res[m][0] == "ok":
                            try:
                                pairs = md.parse[m]("r", text, start_pos=k)
                            except Exception:  # noqa: BLE001, S112
                                continue
                            e = check_tree(pairs, text, k, nonsilent, set(), False)
                            if e:
                                out["direct"].append({**case, "what": e, "mode": m})
                elif prop == "C13":
                    for m in MODES:
                        if res[m][0] != "ok":
                            e = check_failure(md.parse[m], "r", text, k, names_ok)
                            if e:
                                out["direct"].append({**case, "what": e, "mode": m})


def tree_size(rules: dict, cap: int = 20001) -> int:
    n = 0
    for r in rules.values():
        if isinstance(r, BuiltInRule):
            continue
        stack = [r.expression]
        while stack:
            e = stack.pop()
            n += 1
            if n >= cap:
                return n
            stack.extend(e.children())
    return n


class Modes:
    """the four execution modes of one grammar text (+ a pass list for the optimised ones)"""

    def __init__(self, gtext: str, passes: list[str]):
        self.gtext, self.passes = gtext, passes
        self.p0 = P.make_parser(gtext, None)
        self.src0 = self.p0.generate()
        self.g0 = P.load_generated(self.src0)
        self.p1 = P.make_parser(gtext, mk_optimizer(passes))
        # a self-referential silent rule under e+ doubles at every inline/unroll round: such trees (and the hundreds of
        # megabytes of source generated from them) are a matter of resources, not of any property here - skipped, counted
        if tree_size(self.p1.rules) > 20000:
            raise P.Unsupported("optimized rule table too large to generate code from")
        self.src1 = self.p1.generate()
        self.g1 = P.load_generated(self.src1)
        # a generated module offers parse() and the wrapper class Parser: one of the two per grammar and mode
        odd = zlib.crc32(gtext.encode("utf-8", "surrogatepass")) & 1
        gen0 = self.g0.Parser().parse if odd else self.g0.parse
        gen1 = self.g1.parse if odd else self.g1.Parser().parse
        self.parse = {"interp": self.p0.parse, "opt": self.p1.parse, "gen": gen0, "optgen": gen1}

    def grammar_rule_names(self):
        return [n for n, r in self.p0.rules.items() if not isinstance(r, BuiltInRule)]


# ---------------------------------------------------------------- bundled grammars and their inputs


def bundled_grammars() -> dict[str, str]:
    out = {}
    for p in sorted((REPO / "tests" / "grammars").glob("*.pest")) + sorted((REPO / "examples").glob("*/*.pest")):
        out[str(p.relative_to(REPO))] = p.read_text()
    return out


def suite_cases() -> dict[str, list[tuple[str, str]]]:
    """(rule, input) literals of `parser.parse("rule", "input")` calls in the test-suite, per grammar file"""
    out: dict[str, list] = collections.defaultdict(list)
    for tf in sorted((REPO / "tests").glob("test_*.py")):
        src = tf.read_text()
        m = re.search(r'open\(\s*"(tests/grammars/[\w.]+)"', src) or re.search(r"(tests/grammars/[\w.]+\.pest)", src)
        if not m:
            continue
        gfile = m.group(1)
        try:
            mod = pyast.parse(src)
        except SyntaxError:
            continue
        consts = {}
        for node in pyast.walk(mod):
            if isinstance(node, pyast.Assign) and isinstance(node.value, pyast.Constant) and isinstance(node.value.value, str):
                for t in node.targets:
                    if isinstance(t, pyast.Name):
                        consts[t.id] = node.value.value
        for node in pyast.walk(mod):
            if (isinstance(node, pyast.Call) and isinstance(node.func, pyast.Attribute) and node.func.attr == "parse"
                    and len(node.args) >= 2 and isinstance(node.args[0], pyast.Constant)):
                a1 = node.args[1]
                val = a1.value if isinstance(a1, pyast.Constant) else consts.get(a1.id) if isinstance(a1, pyast.Name) else None
                if isinstance(val, str) and isinstance(node.args[0].value, str):
                    out[gfile].append((node.args[0].value, val))
    ex = REPO / "tests" / "examples"
    extra = {"tests/grammars/json.pest": [("json", "example.json")], "tests/grammars/toml.pest": [("toml", "example.toml")],
             "tests/grammars/http.pest": [("http", "example.http")]}
    for gfile, lst in extra.items():
        for rule, fn in lst:
            if (ex / fn).exists():
                out[gfile].append((rule, (ex / fn).read_text()[:600]))
    exj = REPO / "examples" / "json" / "example.json"
    if exj.exists():
        out["examples/json/json.pest"].append(("json", exj.read_text()[:600]))
    out["examples/calculator/calculator.pest"] += [("program", "1 + 2 * 3"), ("program", "-x! ^ 2 - (3 / y)"), ("program", "1 +")]
    out["examples/calculator/grammar_encoded_prec.pest"] += [("program", "1 + 2 * 3"), ("program", "-x! ^ 2 - (3 / y)"), ("program", "(1")]
    out["examples/csv/csv.pest"] += [("file", "a,b\n1,2\n"), ("file", "1,,2\n\n")]
    out["examples/ini/ini.pest"] += [("file", "[s]\na=1\nb = x y\n"), ("file", "a=1\n[t\n")]
    out["examples/jsonpath/jsonpath.pest"] += [("jsonpath", "$.a[0]['b'][?@.c > 1]"), ("jsonpath", "$..x[1:2, *]"), ("jsonpath", "$[?")]
    out["tests/grammars/lists.pest"] += [("lists", "- a\n  - b\n- c")]
    return out


def mutate(rng: random.Random, s: str) -> str:
    if not s:
        return rng.choice(["", " ", "a"])
    j = rng.randrange(len(s))
    k = rng.random()
    if k < 0.35:
        return s[:j] + s[j + 1 :]
    if k < 0.7:
        return s[:j] + rng.choice(' \n"a1{}[],:#') + s[j:]
    if k < 0.85:
        return s[:j]
    return s[:j] + rng.choice("xX0 \t") + s[j + 1 :]


# ---------------------------------------------------------------- tree invariants (C06)


def views_of(pairs) -> str:
    """Pairs.tokens() / Pairs.flatten() in the driver's `T` format"""
    from pest.pairs import Start

    tk = [f"{'S' if isinstance(t, Start) else 'E'}:{t.rule.name}:{t.pos}" for t in pairs.tokens()]
    fl = [f"{p.name}:{p.start}:{p.end}:{p.tag if p.tag is not None else '-'}" for p in pairs.flatten()]
    return f"tok {','.join(tk) or '-'} flat {','.join(fl) or '-'}"


def check_tree(pairs, text: str, k: int, nonsilent: set, tags: set, start_silent: bool) -> str | None:
    """C06 through the public Pair/Pairs API; returns a description of the first violation"""
    import json as _json

    from pest.pairs import End, Start

    def chk(p, lo, hi):
        if not (lo <= p.start <= p.end <= hi):
            return f"span of {p.name} [{p.start},{p.end}) outside [{lo},{hi}]"
        if p.text != text[p.start : p.end] or str(p) != text[p.start : p.end] or p.as_str() != p.text:
            return f"text of {p.name} is not the input slice"
        sp = p.span()
        if (sp.start, sp.end) != (p.start, p.end) or str(sp) != p.text:
            return "span() inconsistent"
        if p.name not in nonsilent and p.name != "EOI":
            return f"pair named {p.name!r} is not a non-silent rule of the grammar"
        if p.tag is not None and p.tag not in tags:
            return f"tag {p.tag!r} is not written in the grammar"
        pos = p.start
        for c in p.children:
            if c.start < pos:
                return f"children of {p.name} overlap or are out of order"
            e = chk(c, p.start, p.end)
            if e:
                return e
            pos = c.end
        if list(p.inner()) != p.children or list(p) != p.children:
            return "inner()/iteration disagree with children"
        return None

    pos = k
    for p in pairs:
        if p.start < pos:
            return "top-level pairs overlap or are out of order"
        e = chk(p, k, len(text))
        if e:
            return e
        pos = p.end
    toks = list(pairs.tokens())
    depth, last, stack = 0, k, []
    for t in toks:
        if t.pos < last:
            return "tokens() positions decrease"
        last = t.pos
        if isinstance(t, Start):
            stack.append(t.rule.name)
        elif isinstance(t, End):
            if not stack or stack.pop() != t.rule.name:
                return "tokens() not balanced"
        depth = len(stack)
    if depth != 0:
        return "tokens() not balanced at the end"
    flat = list(pairs.flatten())
    starts = [(t.rule.name, t.pos) for t in toks if isinstance(t, Start)]
    if [(p.name, p.start) for p in flat] != starts:
        return "flatten() is not the pre-order of tokens()"
    if not start_silent and (len(pairs) != 1 or pairs[0].start != k):
        return "non-silent start rule did not yield exactly one root pair at start_pos"
    try:
        d = pairs.dump()
        if _json.loads(pairs.dumps(compact=False)) != d:
            return "dumps(compact=False) disagrees with dump()"
        compact = pairs.dumps()
        # the compact rendering must tell the same tree as dump(): every pair in pre-order with its tag and rule name, every
        # leaf with its text (read back tolerantly: indentation and list markers are ignored)
        leaf_texts = [_json.loads(m.group(1)) for m in re.finditer(r': ("(?:\\.|[^"\\])*")(?=\n| > |$)', compact)]
        bare = re.sub(r': "(?:\\.|[^"\\])*"(?=\n| > |$)', "", compact)
        heads = [h.strip().removeprefix("- ").strip() for line in bare.split("\n") for h in line.split(" > ") if h.strip()]
        want_heads = [(f"{p.tag} " if p.tag else "") + p.name for p in flat]
        if heads != want_heads:
            return "dumps() (compact) does not show the same pairs / tags as dump()"
        if leaf_texts != [p.text for p in flat if not p.children]:
            return "dumps() (compact) does not show the same leaf texts as dump()"
        def dump_heads(dd, acc):
            for x in dd:
                acc.append((x.get("node_tag"), x["rule"]))
                dump_heads(x.get("inner", []), acc)
            return acc
        if dump_heads(d, []) != [(p.tag, p.name) for p in flat]:
            return "dump() does not show the pairs / tags of the tree in pre-order"
        for p in flat:
            p.dumps()
            if p.dump()["span"] != {"str": p.text, "start": p.start, "end": p.end}:
                return "dump() span disagrees with the pair"
    except Exception as e:  # noqa: BLE001
        return f"dump/dumps raised {type(e).__name__}"
    return None


# ---------------------------------------------------------------- C13 oracle


def check_failure(parse, rule, text, k, names_ok: set) -> str | None:
    try:
        parse(rule, text, start_pos=k)
        return None
    except PestParsingError as e:
        st = e.state
        p = st.furthest_pos
        if not (p == -1 or k <= p <= len(text)):
            return f"furthest_pos {p} outside [{k},{len(text)}]"
        for key in list(st.furthest_expected) + list(st.furthest_unexpected) + [f.name for f in st.furthest_stack]:
            if key not in names_ok:
                return f"listed rule {key!r} is neither a rule of the grammar nor a built-in"
        try:
            msg = str(e)
            e.detailed_message()
            repr(e.args)
        except Exception as ex:  # noqa: BLE001
            return f"rendering the error raised {type(ex).__name__}"
        if p >= 0 and all(ch not in text for ch in "\r\x0b\x0c\x1c\x1d\x1e\x85  "):
            line = 1 + text.count("\n", 0, p)
            col = p - (text.rfind("\n", 0, p) + 1) + 1
            end = text.find("\n", p)
            src = text[text.rfind("\n", 0, p) + 1 : len(text) if end == -1 else end]
            got = error_context(text, p)
            if (got[1], got[2]) != (line, col) or got[0] != src.rstrip():
                return f"error_context gives {got!r}, position {p} is line {line} col {col} of {src!r}"
            if f" {line}:{col}\n" not in msg:
                return f"message does not show {line}:{col}"
        return None
    except RecursionError:
        return None
    except Timeout:
        raise
    except Exception as ex:  # noqa: BLE001
        return f"{type(ex).__name__} escaped parse()"


# ---------------------------------------------------------------- metamorphic rewrites (C08)

NEVER = "␀␁"      # a literal whose first character never occurs in generated inputs


def rewrite_ast(rng: random.Random, rules: dict, nrewrites: int):
    """apply meaning-preserving rewrites at random sites of a grammar AST; returns (new rules, description)"""
    rules = {n: (m, e) for n, (m, e) in rules.items()}
    desc = []
    fresh = [0]

    def sites(e, path=()):
        yield path, e
        k = e[0]
        if k in ("seq", "choice"):
            for i, x in enumerate(e[1]):
                yield from sites(x, (*path, 1, i))
        elif k in ("opt", "rep", "rep1", "and", "not", "group", "push", "exact", "min", "max", "minmax"):
            yield from sites(e[1], (*path, 1))

    def replace(e, path, new):
        if not path:
            return new
        i = path[0]
        if i == 1 and e[0] in ("seq", "choice"):
            lst = list(e[1])
            lst[path[1]] = replace(lst[path[1]], path[2:], new)
            return (e[0], lst, *e[2:])
        return (e[0], replace(e[1], path[1:], new), *e[2:])

    for _ in range(nrewrites):
        name = rng.choice([n for n in rules])
        m, body = rules[name]
        path, sub = rng.choice(list(sites(body)))
        kind = rng.choice(["paren", "assoc", "extract", "dup", "never_seq", "never_not"])
        if kind == "paren":
            new = ("group", sub, None)
        elif kind == "assoc":
            if sub[0] in ("seq", "choice") and len(sub[1]) >= 3:
                j = rng.randrange(1, len(sub[1]) - 1)
                if rng.random() < 0.5:
                    new = (sub[0], [("group", (sub[0], sub[1][: j + 1]), None), *sub[1][j + 1 :]])
                else:
                    new = (sub[0], [*sub[1][:j], ("group", (sub[0], sub[1][j:]), None)])
            elif sub[0] in ("seq", "choice") and len(sub[1]) >= 1:
                # flatten a nested one, if any
                lst, done = [], False
                for x in sub[1]:
                    inner = x[1] if x[0] == "group" and x[2] is None else x
                    if not done and inner[0] == sub[0]:
                        lst += inner[1]
                        done = True
                    else:
                        lst.append(x)
                new = (sub[0], lst)
            else:
                continue
        elif kind == "extract":
            fresh[0] += 1
            nm = f"xr{fresh[0]}"
            rules[nm] = ("_", sub)
            new = ("id", nm, None)
        elif kind == "dup":
            new = ("group", ("choice", [sub, sub]), None)
        elif kind == "never_seq":
            new = ("group", ("choice", [("group", ("seq", [sub, ("str", NEVER)]), None), sub]), None)
        else:
            new = ("group", ("choice", [("group", ("seq", [("not", sub), ("str", NEVER)]), None), sub]), None)
        rules[name] = (m, replace(body, path, new))
        desc.append(f"{kind}@{name}{list(path)}")
    return rules, desc


# ---------------------------------------------------------------- ASTs of the bundled grammars

MOD_SYM = {0: "", 2: "_", 4: "@", 8: "$", 16: "!"}


def expr_to_ast(e):  # noqa: PLR0911, PLR0912
    """the tuple AST (gen_grammar.py) of a real Expression tree, for re-printing and rewriting"""
    from pest.grammar import expressions as X
    from pest.grammar.rule import Rule

    t = type(e)
    r = expr_to_ast
    if t is X.String:
        return ("str", e.value)
    if t is X.CIString:
        return ("ci", e.value)
    if t is X.Range:
        return ("range", e.start, e.stop)
    if t is X.Identifier:
        return ("id", e.value, e.tag)
    if isinstance(e, Rule):
        return ("id", e.name, None)
    if t is X.Sequence:
        return ("seq", [r(x) for x in e.expressions])
    if t is X.Choice:
        return ("choice", [r(x) for x in e.expressions])
    if t is X.Group:
        return ("group", r(e.expression), e.tag)
    if t is X.Optional:
        return ("opt", r(e.expression))
    if t is X.Repeat:
        return ("rep", r(e.expression))
    if t is X.RepeatOnce:
        return ("rep1", r(e.expression))
    if t is X.RepeatExact:
        return ("exact", r(e.expression), e.number)
    if t is X.RepeatMin:
        return ("min", r(e.expression), e.number)
    if t is X.RepeatMax:
        return ("max", r(e.expression), e.number)
    if t is X.RepeatMinMax:
        return ("minmax", r(e.expression), e.min, e.max)
    if t is X.PositivePredicate:
        return ("and", r(e.expression))
    if t is X.NegativePredicate:
        return ("not", r(e.expression))
    if t is X.Push:
        return ("push", r(e.expression))
    if t is X.PushLiteral:
        return ("pushlit", e.value)
    simple = {X.Peek: "peek", X.Pop: "pop", X.Drop: "drop", X.PeekAll: "peekall", X.PopAll: "popall"}
    if t in simple:
        return (simple[t],)
    if t is X.PeekSlice:
        return ("slice", e.start, e.stop)
    raise P.Unsupported(t.__name__)


def parameter_atoms(ast_rules: dict) -> collections.Counter:
    """the nodes of a tuple AST that carry numbers or literal text, as a multiset: what a grammar text denotes whatever
    parentheses the printer adds"""
    c: collections.Counter = collections.Counter()

    def walk(e):
        if isinstance(e, tuple) and e:
            k = e[0]
            if k in ("str", "ci", "pushlit"):
                c[(k, e[1])] += 1
            elif k == "range":
                c[(k, e[1], e[2])] += 1
            elif k == "slice":
                c[(k, e[1], e[2])] += 1
            elif k in ("exact", "min", "max"):
                c[(k, e[2])] += 1
            elif k == "minmax":
                c[(k, e[2], e[3])] += 1
            elif k == "id":
                # a tag written on a reference to a built-in rule other than EOI has nothing to attach to (those rules are silent):
                # the front end substitutes the shared rule object and the tag is gone
                tg_ = e[2] if len(e) > 2 else None
                if e[1] != "EOI" and (e[1] in G.BUILTIN_NON_NULLABLE or e[1] in G.BUILTIN_NULLABLE):
                    tg_ = None
                c[(k, e[1], tg_)] += 1
            elif k == "group":
                c[("tag", e[2])] += 1 if e[2] else 0
            elif k in ("peek", "pop", "drop", "peekall", "popall"):
                c[(k,)] += 1
            # structural nodes (seq, choice, opt, rep, predicates, push) are not counted: the front end flattens nested
            # sequences and choices, so their number is not a function of the text alone
            for x in e[1:]:
                walk(x)
        elif isinstance(e, list):
            for x in e:
                walk(x)

    for n, (m, body) in ast_rules.items():
        c[("rule", n, m)] += 1
        walk(body)
    return +c


def rules_to_ast(rules: dict):
    out = {}
    for n, r in rules.items():
        if isinstance(r, BuiltInRule):
            continue
        if r.modifier not in MOD_SYM:
            raise P.Unsupported(f"modifier {r.modifier}")
        out[n] = (MOD_SYM[r.modifier], expr_to_ast(r.expression))
    return out


# ---------------------------------------------------------------- per-property plans

PLANS = {
    # prop: (feature group names or None for all, layers to correspond, uses bundled?)
    "C01": dict(groups=None, corr=["interp", "gen", "opt", "optgen"], bundled=True),
    "C02": dict(groups=None, corr=["interp", "opt", "optgen", "O"], bundled=True),
    "C03": dict(groups=["core", "bounded", "ci+builtin", "core", "bounded"], corr=["interp", "spec"], bundled=True),
    "C04": dict(groups=["ws", "cm", "ws+cm", "mods+ws", "mods+ws+cm", "skipish", "all"], corr=["interp", "gen", "opt", "optgen", "spec"], bundled=True),
    "C05": dict(groups=["stack", "stack+ws", "stack", "all"], corr=["interp", "gen", "opt", "optgen", "spec"], bundled=True),
    "C06": dict(groups=None, corr=["interp", "gen"], bundled=True),
    "C07": dict(groups=None, corr=["interp", "gen", "opt", "optgen"], bundled=True),
    "C08": dict(groups=None, corr=["interp"], bundled=True),
    "C13": dict(groups=None, corr=["interp", "gen"], bundled=True),
    "C16": dict(groups=None, corr=["interp", "gen", "opt", "optgen"], bundled=True),
}

THEOREMS: dict[str, list[str]] = {p: [] for p in PLANS}
THEOREMS["C01"] = [
    "Pest.C01.gen_equiv_interp", "Pest.C01.trivia_gen_eq", "Pest.C01.generated_parse_eq", "Pest.C01.gen_no_exc",
    "Pest.run_gen", "Pest.step_gen", "Pest.rule_gen", "Pest.popAllLoop_full", "Pest.srel_restore", "Pest.srel_ok",
    "Pest.run_good", "Pest.Tables.expression_classes_covered", "Pest.Tables.special_builtins_match",
]
THEOREMS["C02"] = ["Pest.C02." + t for t in (
    "wf_of_check optimizer_sound optimized_skip_total optimizer_sound_expr optimizer_preserves_termination optimizer_keeps_signature "
    "optimizer_keeps_soiFree parse_eq_run opt_interp_agrees opt_interp_vs_plain optgen_agrees").split()] + [
    "Pest.OptS.optimize_sound", "Pest.OptS.wfCheck_sound", "Pest.Tables.default_passes_match", "Pest.L0.run_mono"]
THEOREMS["C03"] = [
    "Pest.C03.interp_refines_spec", "Pest.C03.parse_agrees_with_spec", "Pest.C03.interp_exc_only_undefined",
    "Pest.C03.choice_commits", "Pest.C03.choice_next", "Pest.C03.opt_spec", "Pest.C03.and_spec", "Pest.C03.not_spec",
    "Pest.C03.pred_consumes_nothing", "Pest.C03.bounded_as_unrolled", "Pest.C03.interp_bounded_as_unrolled",
    "Pest.C03.rep_greedy", "Pest.C03.rule_one_pair", "Pest.run_good", "Pest.step_good", "Pest.restore_after", "Pest.ok_after",
]
THEOREMS["C04"] = [
    "Pest.C04.interp_trivia_and_modifiers", "Pest.C04.trivia_interp_eq", "Pest.C04.seq_trivia_between",
    "Pest.C04.seq_no_trailing_trivia", "Pest.C04.rep_trailing_trivia_given_back", "Pest.C04.rep_trivia_between",
    "Pest.C04.rep_first_no_trivia", "Pest.C04.bounded_trivia_as_unrolled", "Pest.C04.peek_all_no_trivia",
    "Pest.C04.atomic_no_trivia", "Pest.C04.rule_atomicity", "Pest.C04.rule_restores_atomicity",
    "Pest.C04.atomic_rule_single_pair", "Pest.C04.visible_spec", "Pest.C04.compound_keeps_children",
    "Pest.C04.trivia_pairs_where_matched",
    "Pest.Tables.modifier_bits_match", "Pest.Tables.modifier_symbols_match", "Pest.Tables.default_passes_match",
    "Pest.Tables.expression_classes_covered", "Pest.Tables.special_builtins_match",
    "Pest.C01.generated_parse_eq", "Pest.C02.optimizer_sound", "Pest.C02.opt_interp_agrees", "Pest.C02.optgen_agrees",
    "Pest.C02.optimized_skip_total",
]
THEOREMS["C05"] = [
    "Pest.C05.push_spec", "Pest.C05.push_literal_spec", "Pest.C05.peek_spec", "Pest.C05.pop_spec", "Pest.C05.drop_spec",
    "Pest.C05.peek_all_spec", "Pest.C05.pop_all_spec", "Pest.C05.peek_slice_spec", "Pest.C05.matchAll_cons",
    "Pest.C05.stack_ops_never_raise", "Pest.C05.failed_op_is_identity", "Pest.C03.interp_refines_spec",
    "Pest.DStack.abs_apply", "Pest.DStack.inv_apply", "Pest.popAllLoop_rel",
    "Pest.C01.generated_parse_eq", "Pest.C01.gen_no_exc", "Pest.C02.optimizer_sound", "Pest.C02.opt_interp_agrees", "Pest.C02.optgen_agrees",
    "Pest.C02.optimized_skip_total",
]
THEOREMS["C06"] = ["Pest.C06." + t for t in (
    "spec_tree_wf spec_parse_tree_wf wf_unfolded wf_ordered wf_flat wf_closure wf_checker_sound allPairs_reading reach_is_syntactic "
    "spec_names spec_parse_names interp_run_tags spec_root_single tokens_balanced balanced_iff_accepts tokens_sorted flatten_is_preorder "
    "tokens_length interp_tree_wf interp_same_tree gen_tree_wf gen_same_tree interp_names interp_tags interp_root_single gen_names gen_tags "
    "gen_root_single").split()]
THEOREMS["C07"] = ["Pest.C07." + t for t in (
    "no_stuck parse_no_stuck interp_run_no_exc interp_no_exc gen_run_no_exc gen_no_exc_callable gen_no_exc_closed parse_never_raises "
    "interp_parse_never_raises modes_agree interp_deterministic gen_deterministic oof_together closed_of_wellFormed parse_terminates "
    "run_terminates interp_terminates parse_total closed_of_closedB genShape_of_genShapeB skipTotal_of_skipTotalB onlyEOI_of_onlyEOIB").split()]
THEOREMS["C08"] = ["Pest.C08." + t for t in (
    "group_id seq_assoc seq_assoc_right seq_assoc_left seq_flatten choice_flatten choice_assoc choice_assoc_right choice_assoc_left dup_choice "
    "never_seq never_seq_fwd never_seq_bwd never_notpred never_notpred_fwd never_notpred_bwd neverIn_neverAt never_literal extract_silent "
    "extract_silent_away extract_silent_grammar extract_silent_expr equiv_in_ctx equivE_in_ctx equiv_cong rewrites_preserve_expr "
    "rewrites_preserve_parse rewrites_preserve_parse_partial equiv_bodies_partial equiv_bodies_preserve_parse interp_obs parse_obs "
    "rewrites_preserve_interp rewrites_preserve_interp_ok grammar_rewrites_preserve_interp grammar_rewrites_preserve_gen").split()] + [
    "Pest.L0.Sim.conv", "Pest.L0.cong_grammar", "Pest.L0.Rewrite.sound", "Pest.L0.triviaTotal_of_progress", "Pest.L0.run_mono"] + [
    "Pest.Tags." + t for t in (
        "restore_restores_tags checkpoint_restore_tags interp_tag_frame gen_tag_frame choice_alternative_sees_same_tags "
        "gen_choice_alternative_sees_same_tags opt_no_match_keeps_tags rep_failed_item_keeps_tags andP_keeps_tags notP_keeps_tags "
        "trivia_attempt_keeps_tags").split()]
THEOREMS["C13"] = ["Pest.C13." + t for t in (
    "pos_in_range parse_bounded fpos_in_range parse_end_in_range gen_pos_in_range gen_parse_bounded gen_fpos_in_range gen_fpos_agrees "
    "error_context_defined_on_failure gen_error_context_defined_on_failure error_context_on_failure_is_linecol "
    "gen_error_context_on_failure_is_linecol mem_knownNames rule_bodies_namesIn names_known parse_known failure_names_known gen_names_known "
    "gen_parse_known gen_failure_names_known").split()]
THEOREMS["C16"] = ["Pest.C16." + t for t in (
    "shift_invariance gen_shift_invariance parse_shift_rel gen_parse_shift_rel parse_shift gen_parse_shift resRel_left_unique "
    "resRelG_left_unique no_lookbehind gen_no_lookbehind prefix_irrelevant").split()] + ["Pest.soiFreeG_iff"]
# composed corollaries for the two optimized modes (Props/AllModes.lean, the module that carries C06/C07/C13/C16)
_AM = "Pest.AllModes."
THEOREMS["C06"] += [_AM + t for t in "opt_interp_tree_wf opt_gen_tree_wf gNameOK_orig opt_interp_names opt_gen_names opt_interp_no_skip_pair opt_interp_root_single opt_gen_root_single".split()]
THEOREMS["C07"] += [_AM + t for t in "opt_parse_terminates opt_interp_terminates opt_interp_answers opt_gen_answers opt_parse_total".split()]
THEOREMS["C06"] += [_AM + "opt_interp_tags'", _AM + "opt_gen_tags'", "Pest.OptS.optimizer_keeps_tags", "Pest.OptS.optimize_keeps_kind"]
THEOREMS["C07"] += [_AM + "opt_parse_total'", "Pest.OptS.optimizer_keeps_genShape", "Pest.OptS.optimizer_keeps_callable"]
THEOREMS["C13"] += [_AM + t for t in "opt_knownNames opt_failure_names_known opt_gen_failure_names_known".split()]
THEOREMS["C16"] += [_AM + t for t in "opt_soiFree opt_parse_shift opt_gen_parse_shift opt_no_lookbehind opt_gen_no_lookbehind".split()]
THEOREMS["C02"] += [_AM + t for t in "opt_same_verdict_and_tree plain_vs_opt_interp opt_interp_run_agrees".split()]
THEOREMS["C04"] += [_AM + t for t in "opt_seq_trivia_between opt_same_verdict_and_tree".split()]
THEOREMS["C05"] += [_AM + t for t in "opt_failed_op_is_identity opt_stack_ops_never_raise opt_same_verdict_and_tree".split()]
THEOREMS["C05_gen"] = ["Pest.C01.gen_equiv_interp", "Pest.C01.gen_no_exc"]


def choose_passes(rng: random.Random, i: int) -> list[str]:
    if i % 2 == 0:
        return list(PASS_NAMES)
    return [rng.choice(PASS_NAMES) for _ in range(rng.choice([1, 2, 3, 4, 6]))]


def tags_of(gtext: str) -> set:
    return set(re.findall(r"#([_a-zA-Z][_a-zA-Z0-9]*)\s*=", gtext))


# ---------------------------------------------------------------- evaluating one grammar


WORK_DIR = Path(__file__).resolve().parent.parent / ".work"


def _worker_limited(job):
    _limit_worker()
    return worker(job)


def _heartbeat(gname: str, gtext: str, passes) -> None:
    try:
        WORK_DIR.mkdir(exist_ok=True)
        (WORK_DIR / f"heartbeat_{os.getpid()}.json").write_text(json.dumps({"group": gname, "grammar": gtext[:4000], "passes": passes, "t": time.time()}))
    except OSError:
        pass


def eval_grammar(prop: str, rng: random.Random, gname: str, gtext: str, rules_ast, passes, cases, out):
    """`_eval_grammar` under the worker's memory limit: running out of memory on one grammar (the models and the properties say
    nothing about resources) skips that grammar, counted, with the grammar kept for the evidence"""
    _heartbeat(gname, gtext, passes)
    try:
        return _eval_grammar(prop, rng, gname, gtext, rules_ast, passes, cases, out)
    except MemoryError:
        import gc
        gc.collect()
        out["stats"]["skipped:MemoryError"] += 1
        out.setdefault("memory", []).append({"group": gname, "grammar": gtext[:2000], "passes": passes})
        return None


DOC_TEXTS = [
    ["escapes: \\n, \\t, \\xHH and \\u{1F600}; a path C:\\Users\\me", "ends with a backslash \\"],
    ['quotes: "double", \'single\', """triple""" and \'\'\'triple\'\'\'', "braces {x} {0} {} and percent %s %d %(name)s"],
    ["\\N{not a name} \\U0001 \\u12 \\x", "# not a comment, \\ and \u00e9\u2603\U0001F600"],
    ["", "   leading blanks and a tab\t"],
]
BUILTIN_STARTS = ["ASCII_DIGIT", "NEWLINE", "ANY", "EOI", "ASCII_ALPHA", "ASCII_HEX_DIGIT", "ASCII_ALPHANUMERIC"]


def _eval_grammar(prop: str, rng: random.Random, gname: str, gtext: str, rules_ast, passes, cases, out):
    """cases: list of (start, input, k).  Appends driver lines to out['lines'] with callbacks
    in out['expect'] and records direct failures in out['direct']."""
    plan = PLANS[prop]
    if prop in ("C01", "C07", "C06") and rules_ast is not None and not gname.startswith(("bundled:", "corpus:")) and \
            zlib.crc32(gtext.encode("utf-8", "surrogatepass")) % 4 == 0:
        # grammar and rule documentation with text that means something to Python, to str.format and to % formatting: it
        # belongs to the grammar text and must not matter to anything that is generated from it
        docs_ = DOC_TEXTS[zlib.crc32(gtext.encode("utf-8", "surrogatepass")) // 4 % len(DOC_TEXTS)]
        first_, _, rest_ = gtext.partition("\n")
        gtext = "".join("//! " + d_ + "\n" for d_ in docs_) + "/// " + docs_[0] + "\n" + first_ + ("\n/// " + docs_[-1] + "\n" + rest_ if rest_ else "")
    try:
        md = Modes(gtext, passes)
    except Timeout:
        raise
    except P.Unsupported as e:
        out["stats"]["skipped:" + str(e)[:40]] += 1       # a resource matter (see Modes), not a load error of the library
        return
    except MemoryError:
        out["stats"]["skipped:MemoryError while building the four modes"] += 1
        out.setdefault("memory", []).append({"group": gname, "grammar": gtext[:2000], "passes": passes})
        return
    except Exception as e:  # noqa: BLE001
        out["load_errors"].append((gname, type(e).__name__, str(e)[:200], gtext))
        return
    base = dict(group=gname, grammar=gtext, passes=passes)
    lines, expect = out["lines"], out["expect"]
    ups: set = set()
    # a built-in rule may be the start rule of parse() as well: two of them per grammar, on the first inputs of the grammar
    extra_starts, extra_cases = [], []
    # (interpreter modes only: a generated module's _RULE_MAP holds the grammar's rules and EOI, any other name is the
    # documented KeyError)
    if prop in ("C13", "C07") and not gname.startswith(("bundled:", "corpus:")) and cases:
        extra_starts = [b for b in rng.sample(BUILTIN_STARTS, 2) if b in md.p0.rules]
        seen_t = []
        for _, t_, k_ in cases:
            if (t_, k_) not in seen_t:
                seen_t.append((t_, k_))
            if len(seen_t) >= 4:
                break
        extra_cases = [(b, t_, k_) for b in extra_starts if b != "EOI" for t_, k_ in seen_t]
    gline = "G " + P.ser_rules(md.p0.rules, ups, also=set(extra_starts))
    oser = P.ser_rules(md.p1.rules, ups, also=set(P.referenced(md.p0.rules)) | set(extra_starts))
    for nm, pat in sorted(ups):
        lines.append(P.uset_line(nm, pat))
        expect.append(("setup", "ok", base))
    lines.append(gline)
    expect.append(("setup", "ok", base))
    lines.append("O " + (",".join(passes) or "-"))
    expect.append(("O", oser, base) if "O" in plan["corr"] else ("ignore", None, base))
    # on which grammars do the theorems' hypotheses hold (evaluated by the model, recorded in the evidence)
    lines += ["HY g", "HY og"]
    expect += [("hyps", "g", base), ("hyps", "og", base)]

    names = md.grammar_rule_names()
    nonsilent = {n for n, r in md.p0.rules.items() if not r.modifier & SILENT and not isinstance(r, BuiltInRule)} | {"EOI"}
    # optimised grammars add SKIP (silent); names allowed in failure reports: rules + built-ins + SKIP
    names_ok = set(md.p0.rules) | {"SKIP"}
    tags = tags_of(gtext)
    uses_soi = bool(re.search(r"\bSOI\b", gtext))

    if prop == "C01":
        # text-level facts: compiles (already done), deterministic source
        for p_, src in ((md.p0, md.src0), (md.p1, md.src1)):
            if p_.generate() != src:
                out["direct"].append({**base, "what": "generate() twice yields different source", "mode": "gen"})
    out["stats"]["grammars"] += 1
    for nm_ in sorted(P.UNKNOWN_SUBCLASSES):
        out["stats"]["unknown_expression_subclass:" + nm_] += 1
    if rules_ast is not None and not gname.startswith("bundled:"):
        # the generator's own AST against the tree the front end built from the printed text: numbers and literal text
        # (slice bounds, repetition bounds, literals, ranges, tags, modifiers) must be what the text says - the models start
        # from the built tree, so a front-end slip (C10's subject) would otherwise be invisible to this property's oracle
        try:
            mine, built = parameter_atoms(rules_ast), parameter_atoms(rules_to_ast(md.p0.rules))
            if mine != built:
                diff = sorted(map(str, (mine - built) + (built - mine)))[:6]
                out["direct"].append({**base, "what": "the front end built a tree whose numbers / literals differ from what the grammar text says",
                                      "mode": "interp", "expected": "; ".join(map(str, sorted(map(str, mine - built))))[:400],
                                      "observed": "; ".join(map(str, sorted(map(str, built - mine))))[:400], "differs": diff})
        except P.Unsupported:
            out["stats"]["front_crosscheck_skipped"] += 1
    for start, text, k in extra_cases:
        out["stats"]["cases"] += 1
        case = {**base, "rule": start, "input": [ord(c) for c in text], "start_pos": k}
        if True:
            # a built-in rule as start rule, interpreter modes: Pairs or a PestParsingError whose position lies in the text and
            # whose message renders, the same on a second call, and what the model answers
            out["stats"]["builtin_start_cases"] += 1
            for m in ("interp", "opt"):
                r = run_struct(md.parse[m], start, text, k)
                if m in plan["corr"]:
                    lines.append(f"P {m} {start} {k} {FUEL} {P.enc_str(text)}")
                    expect.append(("corr", enc_struct(r), {**case, "layer": m}))
                if r[0] == "exc":
                    out["direct"].append({**case, "what": f"{r[1]} escaped parse()", "mode": m})
                elif run_struct(md.parse[m], start, text, k) != r:
                    out["direct"].append({**case, "what": "repeating the call gave a different result", "mode": m})
                elif r[0] == "fail":
                    if not (r[1] == -1 or k <= r[1] <= len(text)):
                        out["direct"].append({**case, "what": "furthest failure position outside [start_pos, len(input)]", "mode": m,
                                              "observed": str(r[1])})
                    try:
                        md.parse[m](start, text, start_pos=k)
                    except PestParsingError as e:
                        try:
                            str(e)
                        except Exception as e2:  # noqa: BLE001
                            out["direct"].append({**case, "what": f"str(PestParsingError) raised {type(e2).__name__}", "mode": m})
                    except Exception:  # noqa: BLE001, S110
                        pass
    for start, text, k in cases:
        out["stats"]["cases"] += 1
        case = {**base, "rule": start, "input": [ord(c) for c in text], "start_pos": k}
        res = {m: run_struct(md.parse[m], start, text, k) for m in MODES}
        for m in MODES:
            out["stats"][f"{m}:{res[m][0]}"] += 1
        enc_in = P.enc_str(text)
        for layer in plan["corr"]:
            if layer in MODES:
                lines.append(f"P {layer} {start} {k} {FUEL} {enc_in}")
                expect.append(("corr", enc_struct(res[layer]), {**case, "layer": layer}))
        if "spec" in plan["corr"]:
            lines.append(f"P spec {start} {k} {FUEL} {enc_in}")
            expect.append(("spec", res, case))

        # ---- direct oracles on the implementation
        def bad(what, **kw):
            out["direct"].append({**case, "what": what, **kw})

        if any(r[0] == "exc" for r in res.values()) and prop in ("C01", "C07", "C05", "C13"):
            for m, r in res.items():
                if r[0] == "exc":
                    bad(f"{r[1]} escaped parse()", mode=m)
        if prop == "C01":
            for a, b in (("interp", "gen"), ("opt", "optgen")):
                ra, rb = res[a], res[b]
                if "oof" in (ra[0], rb[0]):
                    continue
                same = (ra[0] == rb[0] == "ok" and ra[1] == rb[1]) or (ra[0] == rb[0] == "fail" and ra[1] == rb[1])
                if not same:
                    bad("generated parser differs from the interpreter", mode=b, expected=enc_struct(ra)[:400], observed=enc_struct(rb)[:400])
        elif prop == "C02":
            for a, b in (("interp", "opt"), ("gen", "optgen")):
                ra, rb = res[a], res[b]
                if "oof" in (ra[0], rb[0]):
                    continue
                if outcome(ra) != outcome(rb):
                    bad("optimized parser differs from the unoptimized one", mode=b, expected=enc_struct(ra)[:6000], observed=enc_struct(rb)[:6000])
        elif prop == "C06":
            start_silent = bool(md.p0.rules[start].modifier & SILENT)
            for m in MODES:
                if res[m][0] == "ok":
                    try:
                        pairs = md.parse[m](start, text, start_pos=k)
                    except Exception:  # noqa: BLE001, S112
                        continue
                    e = check_tree(pairs, text, k, nonsilent, tags, start_silent)
                    if e:
                        bad(e, mode=m)
                    # tokens()/flatten() of the implementation against tokensL/flattenL of the model (ties Pairs.lean)
                    lines.append(f"T {m} {start} {k} {FUEL} {enc_in}")
                    expect.append(("views", views_of(pairs), {**case, "layer": "views:" + m}))
        elif prop == "C07":
            for m in MODES:
                again = run_struct(md.parse[m], start, text, k)
                if again != res[m]:
                    bad("repeating the call gave a different result", mode=m, expected=enc_struct(res[m])[:300], observed=enc_struct(again)[:300])
        elif prop == "C13":
            for m in MODES:
                if res[m][0] != "ok":
                    e = check_failure(md.parse[m], start, text, k, names_ok)
                    if e:
                        bad(e, mode=m)
        elif prop == "C16" and not uses_soi:
            for m in MODES:
                r1 = res[m]
                r2 = run_struct(md.parse[m], start, text[k:], 0)
                if "oof" in (r1[0], r2[0]):
                    continue
                if r1[0] == "ok" and r2[0] == "ok":
                    okk = r1[1] == shift_tree(r2[1], k)
                elif r1[0] == "fail" and r2[0] == "fail":
                    okk = (r1[1] == -1 and r2[1] == -1) or (r2[1] != -1 and r1[1] == r2[1] + k)
                else:
                    okk = r1[0] == r2[0]
                if not okk:
                    bad("parse at start_pos differs from parsing the suffix", mode=m, expected="shifted " + enc_struct(r2)[:300], observed=enc_struct(r1)[:300])
                # a character that text processing likes to treat specially (byte order mark, NUL, line / paragraph separators),
                # put right at start_pos: the suffix parse then *begins* with it, the offset parse has it in the middle
                if m == "interp" or len(text) <= 6:
                    for ch_ in ("\ufeff", "\x00", "\u2028", "\r"):
                        tb = text[:k] + ch_ + text[k:]
                        rb1 = run_struct(md.parse[m], start, tb, k)
                        rb2 = run_struct(md.parse[m], start, tb[k:], 0)
                        if "oof" in (rb1[0], rb2[0]):
                            continue
                        if rb1[0] == "ok" and rb2[0] == "ok":
                            okb = rb1[1] == shift_tree(rb2[1], k)
                        elif rb1[0] == "fail" and rb2[0] == "fail":
                            okb = (rb1[1] == -1 and rb2[1] == -1) or (rb2[1] != -1 and rb1[1] == rb2[1] + k)
                        else:
                            okb = rb1[0] == rb2[0]
                        if not okb:
                            out["direct"].append({**case, "input": [ord(c) for c in tb], "what": "parse at start_pos differs from parsing the suffix",
                                                  "mode": m, "expected": "shifted " + enc_struct(rb2)[:300], "observed": enc_struct(rb1)[:300]})
                            break
                # characters before start_pos are never consulted
                if k > 0:
                    alt = "".join("z" if ch != "z" else "y" for ch in text[:k]) + text[k:]
                    # … nor when they are characters whose case mappings, normal forms or encodings change length
                    exotic = "\u00df\u0130\ufb01\U0001F600\u0149\u1e9e\n\r\u2028\u0000"
                    alt2 = "".join(exotic[(i + k) % len(exotic)] for i in range(k)) + text[k:]
                    for a_ in (alt, alt2):
                        r3 = run_struct(md.parse[m], start, a_, k)
                        if r3 != r1:
                            bad("result depends on characters before start_pos", mode=m, expected=enc_struct(r1)[:300],
                                observed=enc_struct(r3)[:300], prefix=[ord(c) for c in a_[:k]])
                            break
        elif prop == "C08" and rules_ast is not None:
            pass  # handled per grammar below (needs the rewritten grammar)

    if prop in ("C06", "C13") and '^"' in gtext:
        # spellings that match a ^ literal only through Unicode case folding, some of them with a different length: outside
        # the models (they fold ASCII letters only), so only the property's own oracle is applied, on the implementation
        start_silent_ = {n: bool(r.modifier & SILENT) for n, r in md.p0.rules.items()}
        seen_x = set()
        for ci_, (start, text, k) in enumerate(cases[:60]):
            # … and U+0130, the one character whose lower() is longer than itself, put somewhere into the text (first, middle, last)
            ins_at = [k, (k + len(text) + 1) // 2, len(text)][ci_ % 3]
            for a_, b_ in (("ss", "\u00df"), ("fi", "\ufb01"), ("k", "\u212a"), ("s", "\u017f"), ("SS", "\u1e9e"), ("i", "\u0130"), (None, "\u0130")):
                if a_ is not None and a_ not in text[k:]:
                    continue
                t2 = text[:k] + text[k:].replace(a_, b_) if a_ is not None else text[:ins_at] + b_ + text[ins_at:]
                if (start, t2) in seen_x:
                    continue
                seen_x.add((start, t2))
                out["stats"]["ci_fold_oracle_cases"] += 1
                for m in MODES:
                    if prop == "C06":
                        try:
                            pairs = md.parse[m](start, t2, start_pos=k)
                        except Exception:  # noqa: BLE001, S112
                            continue
                        e = check_tree(pairs, t2, k, nonsilent, tags, start_silent_.get(start, False))
                        if e:
                            out["direct"].append({**base, "rule": start, "input": [ord(c) for c in t2], "start_pos": k, "what": e, "mode": m,
                                                  "note": "non-ASCII spelling of a ^ literal: oracle only, no model"})
                    else:
                        e = check_failure(md.parse[m], start, t2, k, names_ok)
                        if e:
                            out["direct"].append({**base, "rule": start, "input": [ord(c) for c in t2], "start_pos": k, "what": e, "mode": m,
                                                  "note": "non-ASCII spelling of a ^ literal: oracle only, no model"})
    if prop == "C08":
        # metamorphic: rewritten grammar vs original, same inputs, all modes
        if rules_ast is None:
            # bundled grammar: recover the AST from the real Expression trees and make sure the
            # printer round-trips (same trees again), else the grammar is skipped and counted
            try:
                rules_ast = rules_to_ast(md.p0.rules)
                again = P.make_parser(G.show_grammar_min(rules_ast), None)
                if P.ser_rules(again.rules) != P.ser_rules(md.p0.rules):
                    raise P.Unsupported("printer does not round-trip")
            except Timeout:
                raise
            except Exception as e:  # noqa: BLE001
                out["stats"]["printer_roundtrip_skipped"] += 1
                out["load_errors"].append((gname, "printer", str(e)[:100], ""))
                rules_ast = None
        # tag templates are small: many single rewrites, so that every site of the nested tags gets its turn
        n_rw = 0 if rules_ast is None else (24 if gname == "tag-template" else 3)
        if gname == "tag-template":
            cases = [c for c in cases if len(c[1]) <= 3]
        for _ in range(n_rw):
            new_rules, desc = rewrite_ast(rng, rules_ast, 1 if gname == "tag-template" else rng.choice([1, 2, 4]))
            new_text = (G.show_grammar_min if gname.startswith("bundled:") else G.show_grammar)(new_rules)
            try:
                md2 = Modes(new_text, passes)
            except Timeout:
                raise
            except Exception as e:  # noqa: BLE001
                # whether a (printed) grammar text loads is the front end's business (C10/C11) and may as well be
                # a shortcoming of this harness's printer: counted, never reported as a C08 violation
                out["stats"]["rewritten_not_loadable"] += 1
                out["load_errors"].append((gname, type(e).__name__, str(e)[:120], new_text[:300]))
                continue
            out["stats"]["rewrites"] += 1
            for start, text, k in cases:
                for m in MODES:
                    r1 = run_struct(md.parse[m], start, text, k)
                    r2 = run_struct(md2.parse[m], start, text, k)
                    if "oof" in (r1[0], r2[0]):
                        continue
                    if outcome(r1) != outcome(r2):
                        out["direct"].append({**base, "rule": start, "input": [ord(c) for c in text], "start_pos": k,
                                              "what": "rewritten grammar parses differently", "rewritten": new_text,
                                              "rewrites": desc, "mode": m, "expected": enc_struct(r1)[:6000], "observed": enc_struct(r2)[:6000]})


def spec_compare(res: dict, spec_answer: str) -> list[tuple[str, str]]:
    """C03/C04/C05: every mode against the executable specification"""
    bad = []
    if spec_answer == "oof":
        return bad
    for m in MODES:
        r = res[m]
        if r[0] == "oof":
            continue
        if r[0] == "ok":
            mine = "ok " + enc_tree(erase_tags(r[1]))
        elif r[0] == "fail":
            mine = "fail"
        else:
            mine = enc_struct(r)
        if mine != spec_answer:
            bad.append((m, mine))
    return bad


# ---------------------------------------------------------------- exhaustive small scope (thorough tier)


def small_exprs(size: int):
    """every expression AST with exactly `size` nodes over {"a","b","ab",ANY} and the core operators"""
    if size == 1:
        yield ("str", "a")
        yield ("str", "b")
        yield ("str", "ab")
        yield ("id", "ANY", None)
        return
    for sub in small_exprs(size - 1):
        for op in ("opt", "rep", "rep1", "and", "not"):
            yield (op, sub)
    for left in range(1, size - 1):
        for a in small_exprs(left):
            for b in small_exprs(size - 1 - left):
                yield ("seq", [a, b])
                yield ("choice", [a, b])


def small_scope(max_size: int):
    out = []
    for n in range(1, max_size + 1):
        out.extend(small_exprs(n))
    return out


def small_inputs(alpha: str, max_len: int):
    import itertools
    out = [""]
    for n in range(1, max_len + 1):
        out.extend("".join(t) for t in itertools.product(alpha, repeat=n))
    return out


# ---------------------------------------------------------------- worker


COVERED_FILES = ["grammar/expressions/sequence.py", "grammar/expressions/choice.py", "grammar/expressions/postfix.py",
                 "grammar/expressions/prefix.py", "grammar/expressions/terminals.py", "grammar/expressions/group.py",
                 "grammar/rule.py", "grammar/rules/special.py", "grammar/expression.py", "state.py", "stack.py",
                 "checkpoint_int.py", "parser.py", "grammar/optimizer.py", "grammar/optimizers/unroller.py",
                 "grammar/optimizers/skippers.py", "grammar/optimizers/squash_choice.py", "grammar/optimizers/inliners.py",
                 "grammar/codegen/generate.py"]


class LineCollector:
    """which lines of the mirrored Python files run (thorough tier, evidence only).  Built on sys.monitoring: one callback per
    line location, switched off after its first hit, no locks - the `coverage` package's tracer takes a lock inside its
    callback, and a timeout exception delivered by SIGALRM at that moment left it held: the worker then waited for it for ever
    (the cause of three thorough-tier runs that never finished)"""

    def __init__(self, files):
        self.files = set(files)
        self.hit: dict = collections.defaultdict(set)
        self.tool = None

    def start(self) -> None:
        import sys
        mon = getattr(sys, "monitoring", None)
        if mon is None:
            return
        for tool in (mon.COVERAGE_ID, 3, 4):
            try:
                mon.use_tool_id(tool, "verif-lines")
                self.tool = tool
                break
            except ValueError:
                continue
        if self.tool is None:
            return
        files, hit, disable = self.files, self.hit, mon.DISABLE

        def on_line(code, lineno):
            f = code.co_filename
            if f in files:
                hit[f].add(lineno)
            return disable

        mon.register_callback(self.tool, mon.events.LINE, on_line)
        mon.set_events(self.tool, mon.events.LINE)

    def stop(self) -> None:
        import sys
        if self.tool is not None:
            mon = sys.monitoring
            mon.set_events(self.tool, 0)
            mon.register_callback(self.tool, mon.events.LINE, None)
            mon.free_tool_id(self.tool)
            self.tool = None

    @staticmethod
    def executable_lines(path: str) -> set:
        try:
            code = compile(Path(path).read_text(), path, "exec")
        except (OSError, SyntaxError):
            return set()
        out, todo = set(), [code]
        while todo:
            c = todo.pop()
            out |= {ln for _s, _e, ln in c.co_lines() if ln}
            todo += [k for k in c.co_consts if hasattr(k, "co_lines")]
        return out


def worker(job):
    prop, shard, n_random, tier, sd, do_bundled = job
    use_repo()
    cov = None
    if tier == "thorough" and shard < 4:
        try:
            cov = LineCollector([str(REPO / "src" / "pest" / f) for f in COVERED_FILES])
            cov.start()
        except Exception:  # noqa: BLE001
            cov = None
    try:
        res = _worker(job)
    finally:
        if cov is not None:
            cov.stop()
    if cov is not None:
        lines = {}
        for f in cov.files:
            stmts = LineCollector.executable_lines(f)
            if stmts:
                lines[str(Path(f).relative_to(REPO / "src" / "pest"))] = (sorted(cov.hit.get(f, set()) & stmts), len(stmts))
        res["lines"] = lines
    return res


def _worker(job):
    prop, shard, n_random, tier, sd, do_bundled = job
    signal.signal(signal.SIGALRM, _alarm)
    rng = random.Random((sd * 1000003 + shard * 7919 + zlib.crc32(prop.encode()) % 1000) & 0xFFFFFFFF)
    plan = PLANS[prop]
    out = {"lines": [], "expect": [], "direct": [], "load_errors": [], "stats": collections.Counter(), "timeouts": []}
    groups = G.FEATURE_GROUPS if plan["groups"] is None else [g for g in G.FEATURE_GROUPS if g[0] in plan["groups"]]
    n_inputs = 5 if tier == "quick" else 8
    # the module-level DEFAULT_OPTIMIZER serves every grammar of a process: start half of the workers with a grammar that has
    # no trivia rules and the other half with one that has, so that state kept between grammars (the models assume none) shows
    warm = ('a = { (!"b" ~ ANY)* ~ "b" }' if shard % 2 == 0 else 'WHITESPACE = _{ " " }\na = { (!"b" ~ ANY)* ~ "b" }')
    warm_up(warm)
    global _WARM  # noqa: PLW0603
    _WARM = warm
    if shard == 0:
        # the corpus of minimised past failures (defects repaired in /repo, seeded changes) runs first
        cfile = Path(__file__).resolve().parent.parent / "corpus" / "core.jsonl"
        if cfile.exists():
            import json as _json
            for line in cfile.read_text().splitlines():
                ent = _json.loads(line)
                cases = [(r, t, k) for r, t, k in ent["cases"]]
                if prop == "C16":
                    cases += [(r, t, min(len(t), 1 + i % 3)) for i, (r, t, _k) in enumerate(cases)]
                if prop == "C08" and ent.get("rewritten"):
                    # a recorded original / rewritten pair (a past C08 failure): compared in all four modes
                    try:
                        m1, m2 = Modes(ent["grammar"], list(PASS_NAMES)), Modes(ent["rewritten"], list(PASS_NAMES))
                        for r_, t_, k_ in cases:
                            for m in MODES:
                                a_, b_ = run_struct(m1.parse[m], r_, t_, k_), run_struct(m2.parse[m], r_, t_, k_)
                                if "oof" not in (a_[0], b_[0]) and outcome(a_) != outcome(b_):
                                    out["direct"].append({"group": "corpus:" + ent["name"], "grammar": ent["grammar"], "passes": list(PASS_NAMES),
                                                          "rule": r_, "input": [ord(c) for c in t_], "start_pos": k_,
                                                          "what": "rewritten grammar parses differently", "rewritten": ent["rewritten"],
                                                          "rewrites": "recorded pair", "mode": m,
                                                          "expected": enc_struct(a_)[:6000], "observed": enc_struct(b_)[:6000]})
                    except Timeout:
                        raise
                    except Exception as e:  # noqa: BLE001
                        out["load_errors"].append(("corpus:" + ent["name"], type(e).__name__, str(e)[:120], ""))
                for passes in (list(PASS_NAMES), ["skip", "squash_choice"]):
                    signal.alarm(60)
                    try:
                        eval_grammar(prop, rng, "corpus:" + ent["name"], ent["grammar"], None, passes, cases, out)
                        out["stats"]["corpus_grammars"] += 1
                    except Timeout:
                        out["timeouts"].append({"group": "corpus", "grammar": ent["grammar"], "passes": passes})
                    finally:
                        signal.alarm(0)
    for i in range(n_random):
        gname, feats = groups[(i + shard) % len(groups)]
        rules = G.gen_grammar(rng, feats)
        # a third of the grammars are printed with the fewest parentheses the syntax allows (&POP rather than &(POP)): code that
        # looks at the class of an operand sees another tree
        gtext = G.show_grammar(rules)
        if i % 3 == 2:
            gmin = G.show_grammar_min(rules)
            try:
                P.make_parser(gmin, None)
                gtext = gmin
            except Exception:  # noqa: BLE001
                # whether the harness's own minimal printer wrote valid syntax is not the library's problem: fall back, count
                out["stats"]["min_printer_rejected"] += 1
        passes = choose_passes(rng, i)
        cases = []
        for start in list(rules)[:3]:
            for text in G.gen_inputs(rng, rules, start, feats, n_inputs):
                k = 0 if rng.random() < 0.6 else rng.randint(0, len(text))
                cases.append((start, text, k))
        signal.alarm(20)
        try:
            eval_grammar(prop, rng, gname, gtext, rules, passes, cases, out)
        except Timeout:
            out["timeouts"].append({"group": gname, "grammar": gtext, "passes": passes})
        finally:
            signal.alarm(0)
    if do_bundled:
        bg = bundled_grammars()
        sc = suite_cases()
        items = sorted(bg.items())
        for j, (gfile, gtext) in enumerate(items):
            if j % do_bundled[1] != do_bundled[0]:
                continue
            base_cases = sc.get(gfile, [])
            if not base_cases:
                continue
            cases = []
            pick = base_cases if tier == "thorough" else rng.sample(base_cases, min(len(base_cases), 6))
            for rule, text in pick:
                cases.append((rule, text, 0))
                for _ in range(2 if tier == "quick" else 4):
                    cases.append((rule, mutate(rng, text), 0))
                if text and prop == "C16":
                    kk = rng.randint(0, len(text))
                    cases.append((rule, text, kk))
            passes = list(PASS_NAMES) if rng.random() < 0.7 else choose_passes(rng, 1)
            signal.alarm(120)
            try:
                eval_grammar(prop, rng, "bundled:" + gfile, gtext, None, passes, cases, out)
                out["stats"]["bundled_grammars"] += 1
                out["stats"]["bundled_cases"] += len(cases)
            except Timeout:
                out["timeouts"].append({"group": "bundled:" + gfile, "grammar": gtext[:200], "passes": passes})
            finally:
                signal.alarm(0)
    if prop == "C05":
        # implicit-trivia attempts that change the stack and fail (sharded) x every input over {x # = a b} that starts with x
        nsht = do_bundled[1] if do_bundled else NCPU
        inputs_t = [t for t in small_inputs("x#=ab", 6 if tier == "thorough" else 5) if t.startswith("x")]
        for j_, rules in enumerate(G.trivia_stack_templates()):
            if j_ % nsht != shard % nsht:
                continue
            gtext = G.show_grammar(rules)
            signal.alarm(120)
            try:
                eval_grammar(prop, rng, "trivia-stack", gtext, rules, choose_passes(rng, rng.randrange(2)), [("r", t, 0) for t in inputs_t], out)
                out["stats"]["trivia_stack_grammars"] += 1
            except Timeout:
                out["timeouts"].append({"group": "trivia-stack", "grammar": gtext, "passes": list(PASS_NAMES)})
            finally:
                signal.alarm(0)
    if prop in ("C06", "C13", "C07", "C01") and shard < 4:
        ci_fold_oracle(prop, shard, out)
    if prop in ("C08", "C01", "C02", "C06", "C07"):
        # nested node tags around attempts that let a rule finish before they fail x every input over {a b z blank} to length 4
        inputs_tag = small_inputs("abz ", 5 if tier == "thorough" else 4)
        for _ in range(10 if tier == "thorough" else (6 if prop == "C08" else 3)):
            rules = G.gen_tag_template(rng)
            if not G.well_formed(rules):
                continue
            gtext = G.show_grammar(rules)
            signal.alarm(120)
            try:
                eval_grammar(prop, rng, "tag-template", gtext, rules, choose_passes(rng, rng.randrange(2)), [("s", t, 0) for t in inputs_tag], out)
                out["stats"]["tag_template_grammars"] += 1
            except Timeout:
                out["timeouts"].append({"group": "tag-template", "grammar": gtext, "passes": list(PASS_NAMES)})
            finally:
                signal.alarm(0)
    if prop in ("C05", "C01"):
        # POP_ALL inside an abandoned attempt (sharded) x every input over {a, b} up to length 7
        nshp = do_bundled[1] if do_bundled else NCPU
        inputs_p = small_inputs("ab", 8 if tier == "thorough" else 7)
        for j_, rules in enumerate(G.popall_templates()):
            if j_ % nshp != shard % nshp:
                continue
            gtext = G.show_grammar(rules)
            signal.alarm(120)
            try:
                eval_grammar(prop, rng, "popall-template", gtext, rules, choose_passes(rng, rng.randrange(2)), [("r", t, 0) for t in inputs_p], out)
                out["stats"]["popall_template_grammars"] += 1
            except Timeout:
                out["timeouts"].append({"group": "popall-template", "grammar": gtext, "passes": list(PASS_NAMES)})
            finally:
                signal.alarm(0)
    if prop in ("C05", "C01") or (tier == "thorough" and prop == "C07"):
        # stack/backtracking templates x every input over {a, b, !} up to a small length
        inputs = small_inputs("ab!", 6 if tier == "thorough" else 5)
        for _ in range(12 if tier == "thorough" else 3):
            for _try in range(50):
                rules = G.gen_stack_template(rng)
                if G.well_formed(rules):
                    break
            else:
                continue
            gtext = G.show_grammar(rules)
            cases = [("r", t, 0) for t in inputs]
            signal.alarm(120)
            try:
                eval_grammar(prop, rng, "stack-template", gtext, rules, choose_passes(rng, rng.randrange(2)), cases, out)
                out["stats"]["stack_template_grammars"] += 1
            except Timeout:
                out["timeouts"].append({"group": "stack-template", "grammar": gtext, "passes": list(PASS_NAMES)})
            finally:
                signal.alarm(0)
    if prop == "C05" or (tier == "thorough" and prop in ("C01", "C02")):
        # every PEEK[i..j] over a three-entry stack x every input over {a,b,c} up to length 3 (sharded)
        nshg = do_bundled[1] if do_bundled else NCPU
        inputs_g = small_inputs("abc", 3)
        for j_, rules in enumerate(G.slice_grid()):
            if j_ % nshg != shard:
                continue
            gtext = G.show_grammar(rules)
            signal.alarm(120)
            try:
                eval_grammar(prop, rng, "slice-grid", gtext, rules, choose_passes(rng, rng.randrange(2)), [("r", t, 0) for t in inputs_g], out)
                out["stats"]["slice_grid_grammars"] += 1
            except Timeout:
                out["timeouts"].append({"group": "slice-grid", "grammar": gtext, "passes": list(PASS_NAMES)})
            finally:
                signal.alarm(0)
    if prop == "C05" or (tier == "thorough" and prop in ("C01", "C07")):
        # "the accepted input is the stack": non-consuming manipulations undone by a catch point, then PEEK_ALL ~ EOI
        inputs2 = small_inputs("abxy", 5 if tier == "thorough" else 4)
        for _ in range(40 if tier == "thorough" else 10):
            rules = G.gen_stack_template2(rng)
            if not G.well_formed(rules):
                continue
            gtext = G.show_grammar(rules)
            signal.alarm(120)
            try:
                eval_grammar(prop, rng, "stack-readout", gtext, rules, choose_passes(rng, rng.randrange(2)),
                             [("r", t, 0) for t in inputs2], out)
                out["stats"]["stack_readout_grammars"] += 1
            except Timeout:
                out["timeouts"].append({"group": "stack-readout", "grammar": gtext, "passes": list(PASS_NAMES)})
            finally:
                signal.alarm(0)
    if prop == "C02":
        # rule graphs (cyclic / self / undefined references in optimizer-relevant shapes): only the optimizer's output is
        # compared with the mirror, as trees - most of these grammars are left-recursive and are not parsed with
        import eng_front as _EF
        for gtext in _EF.rule_graphs(rng, 120 if tier == "thorough" else 25):
            if "undefined_rule" in gtext:
                continue
            signal.alarm(60)
            try:
                eval_grammar(prop, rng, "rule-graph", gtext, None, choose_passes(rng, rng.randrange(3)), [], out)
                out["stats"]["rule_graph_grammars"] += 1
            except Timeout:
                out["timeouts"].append({"group": "rule-graph", "grammar": gtext, "passes": list(PASS_NAMES)})
            finally:
                signal.alarm(0)
    if prop in ("C02", "C03"):
        # range x literal-on-the-boundary grid (sharded) x every input over the characters involved up to length 3
        nshb = do_bundled[1] if do_bundled else NCPU
        for j_, rules in enumerate(G.squash_boundary_grid()):
            if j_ % nshb != shard % nshb:
                continue
            gtext = G.show_grammar(rules)
            chars_ = sorted({c for c in gtext if c.isalnum() or c in "`:/{"} - set("rEOIANYd")) + ["d"]
            signal.alarm(120)
            try:
                eval_grammar(prop, rng, "squash-boundary", gtext, rules, list(PASS_NAMES), [("r", t, 0) for t in small_inputs("".join(chars_[:6]), 3)], out)
                out["stats"]["squash_boundary_grammars"] += 1
            except Timeout:
                out["timeouts"].append({"group": "squash-boundary", "grammar": gtext, "passes": list(PASS_NAMES)})
            finally:
                signal.alarm(0)
    if prop in ("C02", "C04", "C06", "C01", "C07"):
        # every shape of the implicit rules (silent or not, fused by the optimizer or not, referring to ordinary rules) under one
        # list grammar x every input over {a ; blank tab #} to length 3 (4 in the thorough tier) and longer ones
        tgrid = G.trivia_shape_grid()
        nsht = do_bundled[1] if do_bundled else NCPU
        mine_t = [c for j_, c in enumerate(tgrid) if j_ % nsht == shard % nsht]
        ins_t = small_inputs("a; \t#", 4 if tier == "thorough" else 3) + ["a ;a", "a;#xa", "a #a ;a", "a\t;\ta", "a;##a", "a; a #", "ab ;  b", "a#x#;b", "a #xy# ; b", "a \n;b",
                                               "a; \tb", "a##;b", "ab ab;a", "a;b;a b", " a;b", "a;b ", "a#a a;b",
                                               "a #a = b# ;a", "a#a=b#;b", "a #a =# ;a", "a #a = b#", "a#a = b##b=a#;a", "a #a= b # ; a"]
        for rules in mine_t:
            if not G.well_formed(rules):
                continue
            gtext = G.show_grammar_min(rules)
            signal.alarm(120)
            try:
                eval_grammar(prop, rng, "trivia-shape", gtext, rules, choose_passes(rng, rng.randrange(3)), [("r", t, 0) for t in ins_t], out)
                out["stats"]["trivia_shape_grammars"] += 1
            except Timeout:
                out["timeouts"].append({"group": "trivia-shape", "grammar": gtext, "passes": list(PASS_NAMES)})
            finally:
                signal.alarm(0)
    if prop in ("C02", "C03"):
        # one-character literals with a meaning inside a regex class x every printable ASCII character (sharded)
        nshc = do_bundled[1] if do_bundled else NCPU
        ascii_in = [chr(c) for c in range(0x20, 0x7F)] + ["+-", "-/", "a]", "^^", "\\\\", "[a", ""]
        for j_, rules in enumerate(G.class_syntax_grid()):
            if j_ % nshc != shard % nshc:
                continue
            gtext = G.show_grammar(rules)
            signal.alarm(120)
            try:
                eval_grammar(prop, rng, "class-syntax", gtext, rules, list(PASS_NAMES), [("r", t, 0) for t in ascii_in], out)
                out["stats"]["class_syntax_grammars"] += 1
            except Timeout:
                out["timeouts"].append({"group": "class-syntax", "grammar": gtext, "passes": list(PASS_NAMES)})
            finally:
                signal.alarm(0)
    if prop in ("C02", "C03", "C04"):
        # nested all-literal choices (parenthesised, behind a silent rule or NEWLINE, under ? * +) x trivia x pass orders
        # x every input over the characters involved up to length 3; all cells in the thorough tier, a sample per shard otherwise
        grid = G.squash_nested_grid(("none",) if prop == "C03" else ("cm", "ws") if prop == "C04" else ("none", "cm", "ws"))
        nshn = do_bundled[1] if do_bundled else NCPU
        mine_n = [c for j_, c in enumerate(grid) if j_ % nshn == shard % nshn]
        if tier != "thorough":
            mine_n = rng.sample(mine_n, min(len(mine_n), 9))
        for rules, passes_n in mine_n:
            if not G.well_formed(rules):
                continue
            gtext = G.show_grammar_min(rules)        # no parentheses but the written ones: a silent rule's body is a bare choice
            chars_n = "ab" + ("c" if '"c"' in gtext else "") + ("1" if '"1"' in gtext else "") + ("#" if "COMMENT" in rules else "") + \
                (" " if "WHITESPACE" in rules else "") + ("\n" if "NEWLINE" in gtext else "")
            signal.alarm(120)
            try:
                eval_grammar(prop, rng, "squash-nested", gtext, rules, passes_n or list(PASS_NAMES),
                             [("r", t, 0) for t in small_inputs(chars_n[:5], 3) + ["ab#ab", "a#b#c", "ab ab", "a b c", "ab#", "#ab"]], out)
                out["stats"]["squash_nested_grammars"] += 1
            except Timeout:
                out["timeouts"].append({"group": "squash-nested", "grammar": gtext, "passes": passes_n or list(PASS_NAMES)})
            finally:
                signal.alarm(0)
    if prop in ("C02", "C16", "C04", "C03") or (tier == "thorough" and prop == "C01"):
        # the shapes the skip and squash passes rewrite x every short input over a small alphabet
        for kind in ("skip", "squash"):
            inputs3 = small_inputs("abc", 6 if tier == "thorough" else 5) if kind == "skip" else \
                small_inputs("abAB1", 4 if tier == "thorough" else 3) + ["ab1", "abc", "aBc", "1a", "\n", "\r\n", "ba b"]
            for _ in range(10 if tier == "thorough" else (2 if kind == "skip" else 4)):
                rules = G.gen_skip_template(rng) if kind == "skip" else G.gen_squash_template(rng)
                if not G.well_formed(rules):
                    continue
                gtext = G.show_grammar(rules)
                if kind == "squash":
                    # every short input over the characters the choice itself mentions (bounds, first characters)
                    def lit_chars(e, acc):
                        if isinstance(e, tuple):
                            if e and e[0] in ("str", "ci"):
                                acc |= set(e[1]) | {c.swapcase() for c in e[1]}
                            elif e and e[0] == "range":
                                acc |= {e[1], e[2]}
                            else:
                                for x in e[1:]:
                                    lit_chars(x, acc)
                        elif isinstance(e, list):
                            for x in e:
                                lit_chars(x, acc)
                        return acc
                    chars = sorted(lit_chars([b_ for _m, b_ in rules.values()], set()) - {"\t"})
                    # every mentioned character and its two neighbours in code-point order, one at a time (membership) …
                    near = sorted({chr(ord(c) + d) for c in chars for d in (-1, 0, 1) if 0 < ord(c) + d < 0x110000})
                    if len(chars) > 6:
                        chars = rng.sample(chars, 6)
                    # … and every short string over a sample of them (order of alternatives, longest-match effects)
                    inputs3 = near + small_inputs("".join(chars) or "a", 4 if tier == "thorough" else 3) + ["ab1", "abc", "aBc", "1a", "\n", "\r\n", "ba b"]
                signal.alarm(120)
                try:
                    starts_ = [n for n in ("r", "r0", "r2", "r3", "r4", "SKIP") if n in rules]
                    ins_ = inputs3
                    if kind == "skip" and (len(starts_) > 1 or "WHITESPACE" in rules):
                        ins_ = inputs3[: len(inputs3) // 2] + small_inputs("abc ", 4) + small_inputs("ab ", 5)
                        if "r0" in rules:
                            ins_ = ins_ + ["[" + t for t in small_inputs("ab ]", 4)]
                    passes_ = choose_passes(rng, rng.randrange(3))
                    if kind == "squash" and rng.random() < 0.35:
                        # inlining before squashing (what a reversed or repeated pass list does)
                        passes_ = rng.choice([["inline_silent", "squash_choice"], list(reversed(PASS_NAMES)), list(PASS_NAMES) * 2,
                                              ["inline_silent", "unroll", "squash_choice"]])
                    eval_grammar(prop, rng, "opt-template:" + kind, gtext, rules, passes_,
                                 [(st_, t, (0 if prop != "C16" else rng.randint(0, len(t)))) for st_ in starts_ for t in ins_], out)
                    out["stats"]["opt_template_grammars"] += 1
                except Timeout:
                    out["timeouts"].append({"group": "opt-template", "grammar": gtext, "passes": list(PASS_NAMES)})
                finally:
                    signal.alarm(0)
    if prop in ("C04", "C06") or (tier == "thorough" and prop == "C01"):
        # a five-rule record/list/item/leaf grammar under every assignment of modifiers (sampled in the quick tier)
        import itertools as _it2
        all_mods5 = list(_it2.product(["", "_", "@", "$", "!"], repeat=5))
        nsh5 = do_bundled[1] if do_bundled else NCPU
        mine5 = [m for j, m in enumerate(all_mods5) if j % nsh5 == shard]
        if tier != "thorough":
            # bias towards an atomic rule above hidden levels above visible leaves
            pri = [m for m in mine5 if "@" in m[:2] and ("$" in m[2:] or "!" in m[2:])]
            mine5 = rng.sample(pri, min(len(pri), 4)) + rng.sample(mine5, min(len(mine5), 3))
        for mods in mine5:
            rules = G.modifier_tree(mods, ws_silent=rng.random() < 0.7)
            gtext = G.show_grammar(rules)
            signal.alarm(120)
            try:
                eval_grammar(prop, rng, "modifier-tree", gtext, rules, choose_passes(rng, rng.randrange(2)),
                             [("r0", t, 0) for t in G.TREE_INPUTS], out)
                out["stats"]["modifier_tree_grammars"] += 1
            except Timeout:
                out["timeouts"].append({"group": "modifier-tree", "grammar": gtext, "passes": list(PASS_NAMES)})
            finally:
                signal.alarm(0)
    if prop in ("C04", "C01") or (tier == "thorough" and prop == "C06"):
        # chains of four rules under every assignment of modifiers, with a blank at every subset of the gaps
        import itertools as _it
        all_mods = list(_it.product(["", "_", "@", "$", "!"], repeat=4))
        nsh = do_bundled[1] if do_bundled else NCPU
        mine = [m for j, m in enumerate(all_mods) if j % nsh == shard]
        if tier != "thorough":
            mine = rng.sample(mine, min(len(mine), 7))
        inputs4 = G.chain_inputs(4)
        for mods in mine:
            rules = G.modifier_chain(mods, ws_silent=rng.random() < 0.7)
            gtext = G.show_grammar(rules)
            signal.alarm(120)
            try:
                eval_grammar(prop, rng, "modifier-chain", gtext, rules, choose_passes(rng, rng.randrange(2)),
                             [("r0", t, 0) for t in inputs4], out)
                out["stats"]["modifier_chain_grammars"] += 1
            except Timeout:
                out["timeouts"].append({"group": "modifier-chain", "grammar": gtext, "passes": list(PASS_NAMES)})
            finally:
                signal.alarm(0)
    if prop in ("C05", "C07"):
        # every balanced history of push / drop / [commit] / [abort] up to a length, as a grammar whose accepted
        # input is the resulting stack (C09's history space, at the level of the operators' checkpoints)
        hists = G.balanced_histories((9 if tier == "thorough" else 8) if prop == "C05" else (8 if tier == "thorough" else 7))
        nsh = do_bundled[1] if do_bundled else NCPU
        for j, h in enumerate(hists):
            if j % nsh != shard:
                continue
            rules = G.history_grammar(h)
            gtext = G.show_grammar(rules)
            exp, noundo = G.history_contents(h)
            cands = {x for x in (exp, noundo, "cba", "ba", "") if x is not None}
            if exp:
                cands |= {exp[1:], exp + "a", "x" + exp}
            signal.alarm(60)
            try:
                eval_grammar(prop, rng, "stack-history", gtext, rules, list(PASS_NAMES) if j % 2 else [],
                             [("r", t, 0) for t in sorted(cands)], out)
                out["stats"]["stack_history_grammars"] += 1
            except Timeout:
                out["timeouts"].append({"group": "stack-history", "grammar": gtext, "passes": list(PASS_NAMES)})
            finally:
                signal.alarm(0)
    if tier == "thorough" and prop in ("C01", "C03", "C04", "C02"):
        # exhaustive small scope: every one-rule grammar with <= 4 nodes x every input of length <= 4
        with_ws = prop in ("C04", "C02", "C01")
        exprs = small_scope(4)
        inputs = small_inputs("ab ", 4) if with_ws else small_inputs("ab", 4)
        nsh = do_bundled[1] if do_bundled else NCPU
        for j, ex in enumerate(exprs):
            if j % nsh != shard:
                continue
            for variant in ((False, True) if with_ws else (False,)):
                rules = {"r": ("", ex)}
                if variant:
                    rules["WHITESPACE"] = ("_", ("str", " "))
                if not G.well_formed(rules):
                    continue
                gtext = G.show_grammar(rules)
                cases = [("r", t, 0) for t in inputs if variant or " " not in t]
                signal.alarm(60)
                try:
                    eval_grammar(prop, rng, "small-scope", gtext, rules, list(PASS_NAMES), cases, out)
                    out["stats"]["small_scope_grammars"] += 1
                except Timeout:
                    out["timeouts"].append({"group": "small-scope", "grammar": gtext, "passes": list(PASS_NAMES)})
                finally:
                    signal.alarm(0)
    # ---- run the model
    answers = run_driver(out["lines"], shards=1) if out["lines"] else []
    corr, direct = [], out["direct"]
    for ln, (kind, want, meta), got in zip(out["lines"], out["expect"], answers):
        if kind == "ignore":
            continue
        if kind == "setup":
            if got != want:
                corr.append({**meta, "request": ln[:300], "model": got, "impl": want, "layer": "setup"})
        elif kind in ("corr", "O"):
            out["stats"]["corr_checked"] += 1
            if got != want and "oof" not in (got, want):
                corr.append({**meta, "request": ln[:2000], "model": got[:2000], "impl": want[:2000], "layer": meta.get("layer", kind)})
        elif kind == "hyps":
            for kv in got.split():
                if "=" in kv:
                    out["stats"][f"hyp:{want}:{kv}"] += 1
        elif kind == "views":
            if got == "none":
                out["stats"]["views_model_no_answer"] += 1
            else:
                out["stats"]["views_checked"] += 1
                if got != want:
                    corr.append({**meta, "request": ln[:2000], "model": got[:2000], "impl": want[:2000]})
        elif kind == "spec":
            out["stats"]["spec_checked"] += 1
            for m, mine in spec_compare(want, got):
                direct.append({**meta, "what": "result differs from pest's semantics (executable specification L0)", "mode": m,
                               "expected": got[:400], "observed": mine[:400]})
    for d_ in direct:
        d_.setdefault("history", [_WARM] if _WARM else [])
    return {"stats": out["stats"], "corr": corr[:40], "n_corr": len(corr), "direct": direct[:40], "n_direct": len(direct),
            "load_errors": out["load_errors"][:5], "timeouts": out["timeouts"][:5], "nlines": len(out["lines"]),
            "memory": out.get("memory", [])[:3]}


# ---------------------------------------------------------------- known findings

_TAG_FIELD = re.compile(r"\((\w+),(\d+),(\d+),[^,\[\]()]+,\[")


def erase_tags_str(s_: str) -> str:
    return _TAG_FIELD.sub(lambda m: f"({m.group(1)},{m.group(2)},{m.group(3)},-,[", s_)


def open_finding_keys(prop: str) -> set:
    """keys of the findings that known_findings.txt lists as open (`finding:` lines) for this property; a `fixed:` line
    suppresses nothing"""
    fp = Path(__file__).resolve().parent.parent / "known_findings.txt"
    keys = set()
    if fp.exists():
        for ln in fp.read_text().splitlines():
            m = re.match(r"finding:\s+property=(\S+)\s+key=(\S+)", ln)
            if m and m.group(1) == prop:
                keys.add(m.group(2))
    return keys


def replay_known_ci_fold() -> str | None:
    """known finding ci-nonascii-fold (C12, C02): ^"k" | "a" on U+212A - accepted un-optimized (regex re.I), rejected once
    squash_choice has written the class [Kk]"""
    g = 'r = { ^"k" | "a" }'
    try:
        a = run_struct(P.make_parser(g, None).parse, "r", "\u212a", 0)[0]
        b = run_struct(P.make_parser(g, mk_optimizer(list(PASS_NAMES))).parse, "r", "\u212a", 0)[0]
    except Exception:  # noqa: BLE001
        return None
    if a != b:
        return ('key=ci-nonascii-fold a case-insensitive literal folds non-ASCII characters differently per mode: r = { ^"k" | "a" } on '
                'U+212A (KELVIN SIGN) is accepted with optimizer=None (regex re.I) and rejected with the default optimizer (squashed class [Kk]); '
                'ASCII input is unaffected')
    return None


NULLABLE_TRIVIA_WITNESS = {"grammar": 'WHITESPACE = _{ "" | " " }\nr = { "a" ~ "b" }', "rule": "r", "input": "a b"}


def replay_known_nullable_trivia() -> str | None:
    """known finding nullable-trivia-diverges (C02): does the recorded witness still behave that way?"""
    w = NULLABLE_TRIVIA_WITNESS
    old = signal.signal(signal.SIGALRM, _alarm)
    res = []
    try:
        for opt in (None, mk_optimizer(list(PASS_NAMES))):
            signal.alarm(3)
            try:
                res.append(run_struct(P.make_parser(w["grammar"], opt).parse, w["rule"], w["input"], 0)[0])
            except Timeout:
                res.append("timeout")
            finally:
                signal.alarm(0)
    except Exception:  # noqa: BLE001
        return None
    finally:
        signal.signal(signal.SIGALRM, old)
    if res[0] == "timeout" and res[1] != "timeout":
        return ("key=nullable-trivia-diverges a WHITESPACE/COMMENT rule that can match the empty string makes the un-optimized "
                "parse_trivia loop forever, while the fused SKIP regex of the default optimizer stops: "
                "WHITESPACE = _{ \"\" | \" \" } r = { \"a\" ~ \"b\" } on \"a b\" does not return with optimizer=None and raises "
                "PestParsingError with the default optimizer")
    return None


def tag_only_difference(f: dict) -> bool:
    """region of the known finding `tag-lost-on-backtrack`: the grammar writes a tag and the two
    results are equal once tags are erased"""
    exp, obs = f.get("expected"), f.get("observed")
    if not isinstance(exp, str) or not isinstance(obs, str) or not tags_of(f.get("grammar", "")):
        return False
    exp = exp[len("shifted "):] if exp.startswith("shifted ") else exp
    return exp != obs and erase_tags_str(exp) == erase_tags_str(obs)


def replay_known_tag_finding(prop: str) -> str | None:
    """does the recorded witness still fail on the current tree?"""
    import json as _json
    fp = Path(__file__).resolve().parent.parent / "findings" / "tag-lost-on-backtrack.json"
    if not fp.exists():
        return None
    doc = _json.loads(fp.read_text())
    try:
        if prop == "C02":
            w = doc["witness_C02"]
            a = run_struct(P.make_parser(w["grammar"], None).parse, w["rule"], w["input"], 0)
            b = run_struct(P.make_parser(w["grammar"], mk_optimizer(w["passes"])).parse, w["rule"], w["input"], 0)
        else:
            w = doc["witness"]
            a = run_struct(P.make_parser(w["grammar"], None).parse, w["rule"], w["input"], 0)
            b = run_struct(P.make_parser(w["rewritten"], None).parse, w["rule"], w["input"], 0)
    except Exception:  # noqa: BLE001
        return None
    if a != b and a[0] == b[0] == "ok" and erase_tags(a[1]) == erase_tags(b[1]):
        return ("key=tag-lost-on-backtrack a pending node tag consumed inside an attempt that later fails is not restored "
                "(tag_stack is not checkpointed); results differ in tags only")
    return None


# ---------------------------------------------------------------- replay / shrinking


_WARM: str | None = None


def warm_up(gtext: str) -> None:
    try:
        P.make_parser(gtext, mk_optimizer(list(PASS_NAMES))).parse("a", "a ab")
    except Exception:  # noqa: BLE001, S110
        pass


def recheck_fresh(prop: str, f: dict) -> bool:
    """a failure that does not reproduce as a single call may depend on what the process did before: replay it in a fresh
    interpreter process after the recorded history (the grammar the worker loaded first with the library's shared optimizer)"""
    import json as _json
    import subprocess
    import sys as _sys
    if not f.get("history"):
        return False
    code = ("import sys, json; sys.path.insert(0, %r); import eng_core as E; f = json.load(sys.stdin); "
            "[E.warm_up(g) for g in f['history']]; print('REPRO' if E.recheck(%r, f) else 'NO')") % (str(Path(__file__).resolve().parent), prop)
    try:
        r = subprocess.run([_sys.executable, "-c", code], input=_json.dumps(f), capture_output=True, text=True, timeout=300)
    except subprocess.TimeoutExpired:
        return False
    return "REPRO" in r.stdout


def targeted_rewrite_search(c: dict, tries: int = 150) -> dict | None:
    """single meaning-preserving rewrites of one grammar, tried on one input in all four modes"""
    signal.signal(signal.SIGALRM, _alarm)
    text = "".join(chr(x) for x in c.get("input", []))
    start, k = c["rule"], c.get("start_pos", 0)
    signal.alarm(120)
    try:
        md = Modes(c["grammar"], c["passes"])
        ast0 = rules_to_ast(md.p0.rules)
        base_res = {m: run_struct(md.parse[m], start, text, k) for m in MODES}
        seen = set()
        for i in range(tries):
            new_rules, desc = rewrite_ast(random.Random(i), ast0, 1)
            new_text = G.show_grammar(new_rules)
            if new_text in seen:
                continue
            seen.add(new_text)
            try:
                md2 = Modes(new_text, c["passes"])
            except Timeout:
                raise
            except Exception:  # noqa: BLE001, S112
                continue
            for m in MODES:
                r2 = run_struct(md2.parse[m], start, text, k)
                if "oof" in (base_res[m][0], r2[0]):
                    continue
                if outcome(base_res[m]) != outcome(r2):
                    return {"group": c.get("group"), "grammar": c["grammar"], "passes": c["passes"], "rule": start, "input": c.get("input", []),
                            "start_pos": k, "what": "rewritten grammar parses differently", "rewritten": new_text, "rewrites": desc, "mode": m,
                            "expected": enc_struct(base_res[m])[:6000], "observed": enc_struct(r2)[:6000]}
    except Timeout:
        return None
    except Exception:  # noqa: BLE001
        return None
    finally:
        signal.alarm(0)
    return None


def recheck(prop: str, f: dict) -> bool:
    """does the recorded direct failure still fail on the current tree?"""
    signal.signal(signal.SIGALRM, _alarm)
    out = {"lines": [], "expect": [], "direct": [], "load_errors": [], "stats": collections.Counter(), "timeouts": []}
    text = "".join(chr(c) for c in f.get("input", []))
    cases = [(f["rule"], text, f.get("start_pos", 0))] if "rule" in f else []
    rng = random.Random(0)
    signal.alarm(60)
    try:
        if prop == "C08" and "rewritten" in f:
            md, md2 = Modes(f["grammar"], f["passes"]), Modes(f["rewritten"], f["passes"])
            for start, t, k in cases:
                for m in MODES:
                    if outcome(run_struct(md.parse[m], start, t, k)) != outcome(run_struct(md2.parse[m], start, t, k)):
                        return True
            return False
        eval_grammar(prop, rng, f.get("group", "?"), f["grammar"], None, f["passes"], cases, out)
    except Timeout:
        return True
    except Exception:  # noqa: BLE001
        return True
    finally:
        signal.alarm(0)
    if out["direct"]:
        return True
    if any(kind == "spec" for kind, _, _ in out["expect"]):
        answers = run_driver(out["lines"], shards=1)
        for (kind, want, _meta), got in zip(out["expect"], answers):
            if kind == "spec" and spec_compare(want, got):
                return True
    return False


def shrink_failure(prop: str, f: dict) -> dict:
    """shorten the input while the failure persists (grammar is kept: it is already small)"""
    if "input" not in f:
        return f
    cur = dict(f)
    t0 = time.time()
    changed = True
    while changed and time.time() - t0 < 20:
        changed = False
        inp = cur["input"]
        for i in range(len(inp)):
            if cur.get("start_pos", 0) > i:
                continue
            cand = {**cur, "input": inp[:i] + inp[i + 1 :]}
            if recheck(prop, cand):
                cur, changed = cand, True
                break
    if cur.get("input") != f.get("input"):
        # `what` was written for the input as found; the shortened input still fails one of the property's oracles
        cur["found_on_input"] = f["input"]
    return cur


def tight_recursion_probe() -> dict:
    """harness/tight_recursion_probe.py in a process of its own (it plays with the recursion limit): a tree returned under a
    recursion budget that is too small must not show stack entries pushed inside an abandoned attempt"""
    import json as _json
    import subprocess
    try:
        from common import REPO as _REPO
        pr = subprocess.run(["/venv/bin/python", str(Path(__file__).resolve().parent / "tight_recursion_probe.py"), str(_REPO)],
                            capture_output=True, text=True, timeout=600)
        return _json.loads(pr.stdout.strip().splitlines()[-1])
    except Exception as e:  # noqa: BLE001
        return {"mismatches": [], "runs": 0, "error": f"{type(e).__name__}: {e}"[:200]}


def replay(out: Outcome, payload: dict) -> None:
    prop = out.prop
    out.coverage = {"explanation": "replay of one recorded case", "evaluations": 1, "distinct_nontrivial": 2, "samples": [payload.get("what", "")]}
    if payload.get("kind") == "tight-recursion":
        res = tight_recursion_probe()
        if res["mismatches"]:
            out.violation({**payload, **res["mismatches"][0], "kind": "tight-recursion"})
        return
    if payload.get("kind") == "direct" and (recheck(prop, payload) or recheck_fresh(prop, payload)):
        out.violation(payload)


# ---------------------------------------------------------------- main


def run_prop(out: Outcome, level_when_proved: str = "proof") -> None:
    prop = out.prop
    thorough = out.tier == "thorough"
    from export import export_core
    export_core()                       # regenerate the tables the theorems mention from /repo
    info = proof_stage(out, prop, THEOREMS[prop]) if THEOREMS.get(prop) else None
    if info is None:
        from common import lake_build
        ok, log = lake_build(["pestdriver"])
        info = {"build_ok": ok, "driver_ok": ok, "obligations": 0, "discharged": 0, "broken": [] if ok else ["pestdriver does not build"]}
    if not info.get("driver_ok"):
        out.infra_error = "Lean driver does not build: " + "; ".join(info.get("broken", []))[:400]
        out.coverage = {"explanation": "driver build failed", "evaluations": 1, "distinct_nontrivial": 2}
        return
    plan = PLANS[prop]
    nshards = NCPU
    per = (2000 if thorough else 25) if prop != "C08" else (300 if thorough else 8)
    if prop == "C06":
        per *= 3
    jobs = [(prop, s, per, out.tier, seed(), (s, nshards) if (plan["bundled"] or thorough) else None) for s in range(nshards)]
    stats = collections.Counter()
    corr, direct, load_errors, timeouts = [], [], [], []
    memory_skips: list = []
    n_corr = n_direct = 0
    line_cov: dict = {}
    # shards run in killable child processes with a deadline: a shard that does not come back (a parse stuck inside the regex
    # engine cannot be interrupted by a signal handler) ends the run as an infrastructure error that names the grammar it was at
    from common import run_killable
    results = []
    deadline = float(os.environ.get("VERIF_SHARD_DEADLINE_S", "5400" if thorough else "900"))
    try:
        for f_ in WORK_DIR.glob("heartbeat_*.json"):
            if time.time() - f_.stat().st_mtime > 4 * 3600:
                f_.unlink()
    except OSError:
        pass
    for kind, res in run_killable(_worker_limited, jobs, deadline, nshards):
        if kind == "ok":
            results.append(res)
        else:
            job, why = res
            hb = {}
            if kind == "hung":
                try:
                    hb = json.loads((WORK_DIR / f"heartbeat_{why}.json").read_text())
                except (OSError, ValueError):
                    hb = {}
            out.infra_error = (f"shard {job[1]} " + ("did not finish within %d s" % deadline if kind == "hung" else "failed: " + str(why)[:300])
                               + (f"; it was at group {hb.get('group')} grammar {hb.get('grammar', '')[:600]!r} passes {hb.get('passes')}" if hb else ""))
            out.coverage = {"explanation": "a shard did not finish", "evaluations": 1, "distinct_nontrivial": 2}
            return
    if True:
        for r in results:
            for f, (hit, total) in r.get("lines", {}).items():
                cur = line_cov.setdefault(f, [set(), total])
                cur[0] |= set(hit)
            stats.update(r["stats"])
            corr += r["corr"]
            direct += r["direct"]
            n_corr += r["n_corr"]
            n_direct += r["n_direct"]
            load_errors += r["load_errors"]
            timeouts += r["timeouts"]
            memory_skips += r.get("memory", [])

    # ---- verdict (DESIGN §5)
    reported = 0
    seen = set()
    n_known = 0
    if prop in ("C02", "C08") and "tag-lost-on-backtrack" in open_finding_keys(prop):
        kept = []
        for f in direct:
            if tag_only_difference(f):
                n_known += 1
            else:
                kept.append(f)
        direct = kept
        msg = replay_known_tag_finding(prop)
        if msg:
            out.known.append(msg)
    if prop == "C02" and "ci-nonascii-fold" in open_finding_keys(prop):
        msg = replay_known_ci_fold()
        if msg:
            out.known.append(msg)
    if prop == "C02" and "nullable-trivia-diverges" in open_finding_keys(prop):
        msg = replay_known_nullable_trivia()
        if msg:
            out.known.append(msg)
    if prop == "C05":
        res_t = tight_recursion_probe()
        stats["tight_recursion_runs"] = res_t.get("runs", 0)
        stats["cases"] += res_t.get("runs", 0)
        if res_t.get("error"):
            stats["tight_recursion_probe_failed"] = 1
        for mm in res_t["mismatches"][:2]:
            out.violation({"kind": "tight-recursion", "grammar": res_t.get("grammar"), **mm,
                           "input": [ord(c) for c in mm["input"]], "seed": seed(),
                           "what": "a parse under a recursion budget that is too small returned a tree that shows stack entries pushed inside "
                                   "an abandoned attempt (a swallowed RecursionError left a checkpoint or snapshot behind)",
                           "command": "./check C05 --replay <this file>"})
            reported += 1
    for f in direct:
        key = (f.get("what"), f.get("mode"), f.get("group"))
        if key in seen:
            continue
        seen.add(key)
        f = {**f, "kind": "direct"}
        if "rule" in f and not recheck(prop, f):
            if recheck_fresh(prop, f):
                # depends on what the process did before: reported with its history, not shrunk
                out.violation({**f, "history_dependent": True, "seed": seed(),
                               "what": f.get("what", "") + " (only after the recorded history: state is kept between grammars)",
                               "command": f"./check {prop} --replay <this file>"})
                reported += 1
                if reported >= 3:
                    break
            continue                      # not reproducible from the replay data: not believed
        small = shrink_failure(prop, f)
        out.violation({**small, "seed": seed(), "command": f"./check {prop} --replay <this file>"})
        reported += 1
        if reported >= 3:
            break
    for t in timeouts[:2]:
        if reported == 0 and prop == "C07" and not t["group"].startswith("bundled:"):
            # believed only if it reproduces with a generous limit on an otherwise idle process
            signal.signal(signal.SIGALRM, _alarm)
            signal.alarm(300)
            try:
                md = Modes(t["grammar"], t["passes"])
                rng = random.Random(1)
                rules_names = md.grammar_rule_names()[:3]
                for start in rules_names:
                    for text in ["", "a", "ab", "aab ", "abcabc", "a b a b", "#a#", "bbbbbbbb"]:
                        for m in MODES:
                            run_struct(md.parse[m], start, text, 0)
                confirmed = False
            except Timeout:
                confirmed = True
            except Exception:  # noqa: BLE001
                confirmed = False
            finally:
                signal.alarm(0)
            if confirmed:
                out.violation({"kind": "timeout", **t, "what": "parse() did not terminate within 300 s"})
                reported += 1
    if reported == 0 and prop == "C08" and corr:
        # the model and the implementation disagree on some (grammar, input): look for a rewrite of exactly that grammar that
        # changes the result on exactly that input - the concrete failing input the metamorphic sampling did not happen to draw
        for c in [c for c in corr if c.get("rule") and c.get("grammar")][:4]:
            found = targeted_rewrite_search(c)
            if found:
                out.violation({**found, "kind": "direct", "seed": seed(), "command": f"./check {prop} --replay <this file>"})
                reported += 1
                break
    if reported == 0:
        if corr:
            c = corr[0]
            out.unproved({"broken": f"correspondence {c['layer']}: {c['request'][:300]}", "model_answer": c["model"], "code_answer": c["impl"],
                          "grammar": c.get("grammar"), "passes": c.get("passes"), "more": [x["request"][:120] for x in corr[1:5]],
                          "searched": {"cases": stats["cases"], "note": "the property's direct oracle found no failing input on the implementation"}})
        elif info["broken"]:
            out.unproved({"broken": "theorem " + "; ".join(info["broken"])[:1500],
                          "searched": {"cases": stats["cases"], "note": "model and implementation agree on every explored case"}})
        elif any(k.startswith("unknown_expression_subclass:") for k in stats):
            names_ = sorted(k.split(":", 1)[1] for k in stats if k.startswith("unknown_expression_subclass:"))
            out.unproved({"broken": "table: the rule tables hold Expression classes the model has no constructor for (" + ", ".join(names_) +
                                    "); they were compared as the modelled classes they derive from",
                          "searched": {"cases": stats["cases"], "note": "model (for the base classes) and implementation agree on every explored case"}})
        elif load_errors and prop in ("C01", "C02", "C07"):
            le = load_errors[0]
            out.violation({"kind": "load", "what": f"{le[1]} while building the four modes: {le[2]}", "group": le[0], "grammar": le[3]})

    nontrivial = stats["cases"] - stats.get("interp:oof", 0)
    cov = proof_coverage(info, prop) if THEOREMS.get(prop) else {}
    out.coverage = {
        **cov,
        "explanation": ("Lean model layers spec/interp/gen/opt/optgen compared with the four execution modes of the implementation on "
                        "generated and bundled grammars; the property's own oracle evaluated on the implementation"),
        "evaluations": int(stats["cases"]),
        "distinct_nontrivial": int(max(nontrivial, 0)),
        "rule": "random well-formed grammars by feature group x grammar-derived / mutated / random inputs x start rules x start positions; "
                "bundled grammars with the test-suite's inputs and their mutations; non-trivial = a case on which the interpreter terminated",
        "samples": [{"group": c.get("group"), "what": c.get("what")} for c in direct[:3]] or [{"stats": dict(list(stats.items())[:12])}],
        "grammars": int(stats["grammars"]),
        "model_answers_compared": int(stats["corr_checked"] + stats["spec_checked"]),
        "correspondence_mismatches": n_corr,
        "direct_failures": n_direct,
        "attributed_to_known_findings": n_known,
        "timeouts": len(timeouts),
        "load_errors": len(load_errors),
        "memory_skips": memory_skips[:3],
        "outcome_distribution": {k: int(v) for k, v in sorted(stats.items())},
        **({"source_statement_coverage_of_mirrored_python": {f: f"{len(h)}/{t}" for f, (h, t) in sorted(line_cov.items())}}
           if line_cov else {}),
    }
    out.assumptions = [
        "grammars are filtered by a Python well-formedness check (no left recursion, no repetition over a nullable body)",
        "case-insensitive literals and character classes are exercised on ASCII letters only (regex engine's Unicode case folding is not modelled)",
        "Python RecursionError / model out-of-fuel cases are skipped and counted",
    ]


def run(out: Outcome) -> None:
    run_prop(out)
