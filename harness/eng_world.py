"""Engine for C15 — "Parsers are isolated, reusable and re-entrant".

Five stages (DESIGN.md §6 "C15"):
  (i)   proofs: lean/PestModel/World.lean + Props/C15.lean (audited by common.proof_stage);
  (ii)  write-set monitor on the real code: attribute writes on Expression/Rule/Parser/Optimizer
        objects are traced (`__setattr__` assigned on the classes from this process), and
        `Parser.BUILTIN`, every live parser's table, every caller-held rule mapping, the module
        and class globals of `pest.*` and of generated modules are fingerprinted before/after
        every operation of a history;
  (iii) history search: seeded random histories, every call's result compared with the same call
        in a fresh interpreter process that did nothing but build that one parser;
  (iv)  threads: N threads calling shared parsers / generated modules concurrently (first use of
        the lazy caches racing, parsers being created concurrently), compared with the sequential
        results of the same calls;
  (v)   correspondence: the same histories through the Lean `H` request (lean/PestModel/Drv/World.lean).

Everything that touches `pest` runs in *fresh subprocesses* (`python eng_world.py --job`), one per
history / per isolated object / per thread scenario, so that a failing history replays exactly.
"""

from __future__ import annotations

import collections
import concurrent.futures
import hashlib
import json
import os
import random
import subprocess
import sys
import threading
import time
import types
from pathlib import Path

sys.path.insert(0, str(Path(__file__).resolve().parent))

from common import LEAN, NCPU, REPO, WORK, Outcome, proof_coverage, proof_stage, run_driver, seed, use_repo  # noqa: E402

use_repo()
import eng_core as E  # noqa: E402
import gen_grammar as G  # noqa: E402
import pyside as P  # noqa: E402

THEOREMS = [
    "Pest.C15.shared_table_invariant",
    "Pest.C15.shared_table_invariant_init",
    "Pest.C15.mappings_invariant",
    "Pest.C15.parsers_frame",
    "Pest.C15.modules_frame",
    "Pest.C15.newParser_frame",
    "Pest.C15.generate_frame",
    "Pest.C15.history_independence",
    "Pest.C15.module_history_independence",
    "Pest.C15.same_grammar_same_result",
    "Pest.C15.parse_writes_only_caches",
    "Pest.C15.repeated_call_same_result",
    "Pest.C15.calls_do_not_interfere",
    "Pest.C15.calls_do_not_interfere_gen",
    "Pest.C15.call_idempotent",
    "Pest.C15.calls_commute",
    "Pest.C15.interleaving_irrelevant",
    "Pest.C15.schedule_independent",
    "Pest.C15.parse_interleaving_partial",
    "Pest.C15.old_optimizer_breaks_isolation",
    "Pest.C15.old_optimizer_rewrites_callers_rules",
]

FUEL = 600
LAZY = ("_compiled", "_pure", "_expanded")
PASS_NAMES = E.PASS_NAMES

# =====================================================================================
#  JOB SIDE — runs in a fresh interpreter
# =====================================================================================


def _opt_of(spec):
    """optimizer setting: "none" | "default" (the module-level DEFAULT_OPTIMIZER) | [pass names]"""
    from pest.grammar.optimizer import DEFAULT_OPTIMIZER

    if spec == "none":
        return None
    if spec == "default":
        return DEFAULT_OPTIMIZER
    return E.mk_optimizer(spec)


def call_result(parse, rule: str, text: str, k: int) -> dict:
    """what C15 compares: tree, or failure position + expected/unexpected keys + their labels (+ message)"""
    from pest.exceptions import PestParsingError

    try:
        return {"enc": "ok " + E.enc_tree(E.tree(parse(rule, text, start_pos=k)))}
    except PestParsingError as e:
        st = e.state
        enc = E.enc_struct(("fail", st.furthest_pos, [(a, len(b)) for a, b in st.furthest_expected.items()],
                            [(a, len(b)) for a, b in st.furthest_unexpected.items()], [f.name for f in st.furthest_stack]))
        try:
            msg = str(e)
        except Exception as ex:  # noqa: BLE001
            msg = "raised " + type(ex).__name__
        return {"enc": enc, "labels": [[[a, list(b)] for a, b in st.furthest_expected.items()],
                                       [[a, list(b)] for a, b in st.furthest_unexpected.items()]], "msg": msg}
    except RecursionError:
        return {"enc": "oof"}
    except Exception as e:  # noqa: BLE001
        return {"enc": "exc " + type(e).__name__}


def _sfp(e, Expression, path=()):
    """structural fingerprint of an expression tree; the lazy caches are not part of it.  An attribute that leads back to a node
    on the way down (a tree that has become a graph, e.g. an identifier holding the rule it names) is recorded as such."""
    if id(e) in path or len(path) > 400:
        return ("back-reference", type(e).__name__, getattr(e, "name", None))
    path = (*path, id(e))
    attrs = []
    for cls in type(e).__mro__:
        for s in cls.__dict__.get("__slots__", ()):
            if s in LAZY or s == "regex":
                continue
            v = getattr(e, s, None)
            if isinstance(v, Expression):
                attrs.append((s, _sfp(v, Expression, path)))
            elif isinstance(v, (list, tuple)):
                attrs.append((s, tuple(_sfp(x, Expression, path) if isinstance(x, Expression) else repr(x) for x in v)))
            else:
                attrs.append((s, repr(v)))
    return (type(e).__name__, tuple(attrs))


def _h(x) -> str:
    return hashlib.sha1(repr(x).encode()).hexdigest()[:12]


def _cfp(v):
    """shallow content fingerprint of a container value (ids of what it holds)"""
    if isinstance(v, dict):
        return ("dict", tuple((repr(k)[:40], id(x)) for k, x in list(v.items())[:400]), len(v))
    if isinstance(v, (list, tuple, set, frozenset, collections.deque)):
        return (type(v).__name__, tuple(id(x) for x in list(v)[:400]), len(v))
    return None


class Monitor:
    """write-set monitor (stage ii)"""

    def __init__(self):
        from pest import Parser
        from pest.grammar.expression import Expression
        from pest.grammar.optimizer import DEFAULT_OPTIMIZER, Optimizer

        self.Parser, self.Expression, self.Optimizer, self.DEFAULT = Parser, Expression, Optimizer, DEFAULT_OPTIMIZER
        self.events: list[dict] = []           # violations and notable writes
        self.counts = collections.Counter()    # monitored writes by kind
        self.fresh: dict[int, object] = {}     # objects created during the current operation
        self.active = False
        self.step = -1
        self.opkind = ""
        self.current_parser = None
        self.filled: dict[int, tuple] = {}     # node id -> (node, attr, fingerprint of the content written)
        self.known_parsers: dict[int, object] = {}
        self.optimizers: list = [DEFAULT_OPTIMIZER]

    # ---- attribute tracing

    def install(self):
        mon = self
        Expression, Parser, Optimizer = self.Expression, self.Parser, self.Optimizer

        def expr_new(cls, *_a, **_k):
            o = object.__new__(cls)
            if mon.active:
                mon.fresh[id(o)] = o
            return o

        def expr_set(obj, name, value):
            if mon.active:
                mon.on_set(obj, name, value)
            object.__setattr__(obj, name, value)

        def parser_set(obj, name, value):
            if mon.active and id(obj) in mon.known_parsers:
                mon.note(f"Parser.{name}", "attribute of an existing Parser assigned", violation=True)
            object.__setattr__(obj, name, value)

        def opt_set(obj, name, value):
            if mon.active and any(obj is o for o in mon.optimizers):
                mon.note(f"Optimizer.{name}", "attribute of an existing Optimizer assigned",
                         violation=mon.opkind in ("parse", "parse_gen"))
            object.__setattr__(obj, name, value)

        Expression.__new__ = staticmethod(expr_new)
        Expression.__setattr__ = expr_set
        Parser.__setattr__ = parser_set
        Optimizer.__setattr__ = opt_set

    def note(self, kind, what, *, violation):
        self.counts[kind] += 1
        if len(self.events) < 200 or (violation and len(self.events) < 600 and self.counts[kind] <= 25):
            self.events.append({"step": self.step, "op": self.opkind, "kind": kind, "what": what, "violation": violation})

    def on_set(self, obj, name, value):
        if id(obj) in self.fresh:
            self.counts["init of a new node"] += 1
            return
        kind = f"{type(obj).__name__}.{name}"
        if name in LAZY:
            self.counts["lazy cache " + name] += 1
            if name == "_compiled":
                content = (getattr(value, "pattern", None), getattr(value, "flags", None))
            elif name == "_expanded":
                content = _h(_sfp(value, self.Expression))
            else:
                content = value
            prev = self.filled.get(id(obj))
            if prev is not None and prev[1] == name and prev[2] != content:
                self.note(kind, f"lazy cache refilled with different content: {prev[2]!r} then {content!r}", violation=True)
            self.filled[id(obj)] = (obj, name, content)
            if self.opkind == "parse" and self.current_parser is not None and id(obj) not in self.reachable(self.current_parser):
                self.note(kind, "parse() filled a lazy cache of a node its parser's table does not reach", violation=True)
            return
        # a non-cache attribute of an object that existed before this operation
        owner = "a shared built-in rule" if any(obj is r for r in self.Parser.BUILTIN.values()) else "an existing object"
        self.note(kind, f"{kind} of {owner} ({getattr(obj, 'name', type(obj).__name__)}) assigned during {self.opkind}", violation=True)

    def reachable(self, parser) -> set:
        seen: set[int] = set()
        todo = list(parser.rules.values())
        Expression = self.Expression
        while todo:
            e = todo.pop()
            if id(e) in seen:
                continue
            seen.add(id(e))
            for cls in type(e).__mro__:
                for s in cls.__dict__.get("__slots__", ()):
                    v = getattr(e, s, None)
                    if isinstance(v, Expression):
                        todo.append(v)
                    elif isinstance(v, list):
                        todo.extend(x for x in v if isinstance(x, Expression))
        return seen

    # ---- fingerprints

    def fp_rules(self, rules: dict, deep_all: bool) -> dict:
        from pest.grammar.rule import BuiltInRule

        out = {}
        for n, r in rules.items():
            deep = deep_all or not isinstance(r, BuiltInRule)
            out[n] = (id(r), id(r.expression), r.name, r.modifier, _h(_sfp(r.expression, self.Expression)) if deep else "")
        return out

    def snapshot(self, proc) -> dict:
        snap = {"BUILTIN": self.fp_rules(self.Parser.BUILTIN, True), "BUILTIN.id": id(self.Parser.BUILTIN)}
        for pid, p in proc.parsers.items():
            if p is not None:
                snap["table:" + pid] = (id(p.rules), tuple(p.rules), self.fp_rules(p.rules, False))
        for mid, m in proc.mappings.items():
            if m is not None:
                snap["mapping:" + mid] = (id(m[0]), tuple(m[0]), self.fp_rules(m[0], True))
        g = {}
        for name, mod in list(sys.modules.items()):
            if mod is None or not (name == "pest" or name.startswith("pest.")):
                continue
            for k, v in list(vars(mod).items()):
                if k.startswith("__"):
                    continue
                g[f"{name}.{k}"] = (id(v), _cfp(v))
                if isinstance(v, type) and getattr(v, "__module__", None) == name:
                    for ck, cv in list(vars(v).items()):
                        if ck in ("__dict__", "__weakref__", "__doc__", "_abc_impl"):
                            continue
                        g[f"{name}.{k}::{ck}"] = (id(cv), _cfp(cv))
        snap["globals"] = g
        for xid, x in proc.modules.items():
            if x is not None:
                snap["genmodule:" + xid] = {k: (id(v), _cfp(v)) for k, v in vars(x[0]).items() if k != "__builtins__"}
        snap["optimizer.log"] = tuple(len(o.log) for o in self.optimizers)
        snap["optimizer.passes"] = tuple((id(o.passes), tuple(id(s) for s in o.passes)) for o in self.optimizers)
        snap["sys"] = (sys.getrecursionlimit(), sys.getswitchinterval())
        return snap

    def compare(self, before: dict, after: dict, own: set):
        """`own`: snapshot keys the operation is allowed to create (its new objects)"""
        is_call = self.opkind in ("parse", "parse_gen")
        for key, b in before.items():
            a = after.get(key)
            if a == b:
                continue
            if key in ("BUILTIN", "BUILTIN.id"):
                changed = [n for n in b if a.get(n) != b[n]][:6] if isinstance(b, dict) else []
                self.note("Parser.BUILTIN", f"shared built-in table changed during {self.opkind}: {changed}", violation=True)
            elif key.startswith("table:"):
                changed = [n for n in b[2] if a is None or a[2].get(n) != b[2][n]][:6]
                self.note("Parser.rules", f"the rule table of existing parser {key[6:]} changed during {self.opkind}: {changed}", violation=True)
            elif key.startswith("mapping:"):
                changed = [n for n in b[2] if a is None or a[2].get(n) != b[2][n]][:6]
                self.note("mapping", f"rule objects of the caller's mapping {key[8:]} changed during {self.opkind}: {changed}", violation=True)
            elif key == "globals":
                names = [n for n in set(a) | set(b) if a.get(n) != b.get(n)][:6]
                self.note("pest.* global / class attribute", f"changed during {self.opkind}: {names}", violation=is_call)
            elif key.startswith("genmodule:"):
                names = [n for n in set(a or {}) | set(b) if (a or {}).get(n) != b.get(n)][:6]
                self.note("generated module global", f"module {key[10:]} changed during {self.opkind}: {names}", violation=True)
            elif key == "optimizer.log":
                self.note("Optimizer.log", f"grew during {self.opkind}", violation=is_call)
            elif key == "optimizer.passes":
                self.note("Optimizer.passes", f"changed during {self.opkind}", violation=True)
            elif key == "sys":
                self.note("sys limits", f"recursion limit / switch interval changed during {self.opkind}: {b} -> {a}", violation=True)
        for key in after:
            if key not in before and key not in own:
                self.note("new object", f"unexpected new object {key} during {self.opkind}", violation=False)

    def recheck_caches(self):
        """content of every cache filled during the history is what a recomputation gives"""
        for node, attr, content in list(self.filled.values()):
            try:
                if attr == "_compiled":
                    object.__setattr__(node, "_compiled", None)
                    again = (node.pattern.pattern, node.pattern.flags)
                elif attr == "_expanded":
                    object.__setattr__(node, "_expanded", None)
                    again = _h(_sfp(node._unrolled(), self.Expression))  # noqa: SLF001
                else:
                    continue
            except Exception as e:  # noqa: BLE001
                again = "raised " + type(e).__name__
            if again != content:
                self.step, self.opkind = -1, "recheck"
                self.note(f"{type(node).__name__}.{attr}", f"cached content {content!r} is not what the node computes now ({again!r})", violation=True)


class Proc:
    """the real process, driven by a history (list of steps, see `gen_history`)"""

    def __init__(self, texts: list[str], mon: Monitor | None):
        self.texts, self.mon = texts, mon
        self.mappings: dict[str, tuple | None] = {}     # id -> (rules, doc, grammar index) | None
        self.parsers: dict[str, object | None] = {}
        self.pinfo: dict[str, dict] = {}
        self.modules: dict[str, tuple | None] = {}      # id -> (module, source)
        self.order: list[tuple] = []                    # creation order, for the model's indices

    def do(self, s: dict, opt=None):
        from pest import Parser
        from pest.grammar import parse as parse_grammar

        op = s["op"]
        if op == "mapping":
            try:
                rules, doc = parse_grammar(self.texts[s["g"]], Parser.BUILTIN)
            except Exception as e:  # noqa: BLE001
                self.mappings[s["id"]] = None
                return "exc " + type(e).__name__
            self.mappings[s["id"]] = (rules, doc, s["g"])
            return "ok"
        if op == "parser":
            m = self.mappings.get(s["m"])
            if m is None:
                self.parsers[s["id"]] = None
                return "noobj"
            try:
                p = Parser(m[0], m[1], optimizer=opt, debug=bool(s.get("debug")))
            except Exception as e:  # noqa: BLE001
                self.parsers[s["id"]] = None
                return "exc " + type(e).__name__
            self.parsers[s["id"]] = p
            self.pinfo[s["id"]] = {"g": m[2], "opt": s["opt"], "via": "ctor"}
            return "ok"
        if op == "from_grammar":
            try:
                p = Parser.from_grammar(self.texts[s["g"]], optimizer=opt, debug=bool(s.get("debug")))
            except Exception as e:  # noqa: BLE001
                self.parsers[s["id"]] = None
                return "exc " + type(e).__name__
            self.parsers[s["id"]] = p
            self.pinfo[s["id"]] = {"g": s["g"], "opt": s["opt"], "via": "from_grammar"}
            return "ok"
        if op == "generate":
            p = self.parsers.get(s["p"])
            if p is None:
                self.modules[s["id"]] = None
                return "noobj"
            try:
                src = p.generate()
                mod = P.load_generated(src)
            except Exception as e:  # noqa: BLE001
                self.modules[s["id"]] = None
                return "exc " + type(e).__name__
            self.modules[s["id"]] = (mod, src, s["p"])
            return "ok " + hashlib.sha1(src.encode()).hexdigest()[:16]
        text = "".join(chr(c) for c in s["input"])
        if op == "parse":
            p = self.parsers.get(s["p"])
            if p is None:
                return {"enc": "noobj"}
            return call_result(p.parse, s["rule"], text, s["k"])
        if op == "parse_gen":
            x = self.modules.get(s["x"])
            if x is None:
                return {"enc": "noobj"}
            return call_result(x[0].parse, s["rule"], text, s["k"])
        raise ValueError(op)

    def step(self, i: int, s: dict):
        mon = self.mon
        opt = _opt_of(s["opt"]) if "opt" in s else None      # the optimizer object exists before the operation
        if mon is None:
            return self.do(s, opt)
        if opt is not None and not any(opt is o for o in mon.optimizers):
            mon.optimizers.append(opt)
        mon.step, mon.opkind = i, s["op"]
        mon.current_parser = self.parsers.get(s.get("p")) if s["op"] == "parse" else None
        before = mon.snapshot(self)
        mon.fresh.clear()
        mon.active = True
        try:
            out = self.do(s, opt)
        finally:
            mon.active = False
        after = mon.snapshot(self)
        own = {"table:" + s["id"], "mapping:" + s["id"], "genmodule:" + s["id"]} if "id" in s else set()
        mon.compare(before, after, own)
        mon.fresh.clear()
        if s["op"] in ("parser", "from_grammar") and self.parsers.get(s["id"]) is not None:
            mon.known_parsers[id(self.parsers[s["id"]])] = self.parsers[s["id"]]
        return out

    # ---- the same history for the Lean model (H request, lean/PestModel/Drv/World.lean)

    def encode_model(self, steps: list[dict], outs: list) -> dict | None:
        from pest import Parser
        from pest.grammar import expressions as X
        from pest.grammar import parse as parse_grammar
        from pest.grammar.rule import BuiltInRule

        ups: set = set()
        names = {"EOI"}
        front: dict[int, dict] = {}

        def walk(e):
            if isinstance(e, BuiltInRule):
                names.add(e.name)
            if isinstance(e, X.Identifier) and e.value in Parser.BUILTIN:
                names.add(e.value)
            for c in e.children():
                walk(c)

        try:
            for s in steps:
                if "g" in s and s["g"] not in front:
                    rules, _doc = parse_grammar(self.texts[s["g"]], Parser.BUILTIN)
                    if any(n in Parser.BUILTIN for n in rules):
                        return None                       # a grammar rule named like a built-in: table order not modelled
                    front[s["g"]] = rules
                    for r in rules.values():
                        walk(r.expression)
                if s["op"] in ("parse", "parse_gen") and s["rule"] in Parser.BUILTIN:
                    names.add(s["rule"])
            btoks = [f"R {r.name} {r.modifier} b {P.ser_expr(r.expression, ups)}" for n, r in Parser.BUILTIN.items() if n in names]
            ops, expect = [], []
            midx: dict[str, int] = {}
            pidx: dict[str, int] = {}
            xidx: dict[str, int] = {}
            nm = npar = nx = 0
            for s, o in zip(steps, outs):
                op = s["op"]
                if op == "mapping":
                    if o != "ok":
                        return None
                    ops.append("M " + P.ser_rules(front[s["g"]], ups))
                    expect.append("ok")
                    midx[s["id"]] = nm
                    nm += 1
                elif op in ("parser", "from_grammar"):
                    if op == "from_grammar":
                        ops.append("M " + P.ser_rules(front[s["g"]], ups))
                        expect.append("ok")
                        mi = nm
                        nm += 1
                    else:
                        if s["m"] not in midx:
                            return None
                        mi = midx[s["m"]]
                    if o not in ("ok", "exc KeyError"):
                        return None                       # a failure the model does not describe (e.g. validation)
                    spec = s["opt"]
                    ops.append(f"N {mi} " + ("none" if spec == "none" else ",".join(PASS_NAMES) if spec == "default" else (",".join(spec) or "-")))
                    expect.append(o)
                    if o == "ok":
                        pidx[s["id"]] = npar
                        npar += 1
                        ops.append(f"T {pidx[s['id']]}")
                        expect.append(self.ser_own(self.parsers[s["id"]].rules, ups))
                elif op == "generate":
                    if s["p"] not in pidx:
                        return None
                    if not isinstance(o, str) or not o.startswith("ok"):
                        return None
                    ops.append(f"GEN {pidx[s['p']]}")
                    expect.append("ok")
                    xidx[s["id"]] = nx
                    nx += 1
                elif op == "parse":
                    if s["p"] not in pidx:
                        return None
                    ops.append(f"P {pidx[s['p']]} {s['rule']} {s['k']} " + P.enc_str("".join(chr(c) for c in s["input"])))
                    expect.append(o["enc"])
                elif op == "parse_gen":
                    if s["x"] not in xidx:
                        return None
                    ops.append(f"PG {xidx[s['x']]} {s['rule']} {s['k']} " + P.enc_str("".join(chr(c) for c in s["input"])))
                    expect.append(o["enc"])
            # at the end: the table every parser sees now, and the shared table
            for pid, i in pidx.items():
                ops.append(f"T {i}")
                expect.append(self.ser_own(self.parsers[pid].rules, ups))
            ops.append("TB")
            expect.append(" ".join([str(len(btoks)), *[f"R {r.name} {r.modifier} b {P.ser_expr(r.expression, ups)}"
                                                       for n, r in Parser.BUILTIN.items() if n in names]]))
        except P.Unsupported:
            return None
        return {"builtins": " ".join([str(len(btoks)), *btoks]), "ops": ops, "expect": expect, "ups": sorted(ups)}

    @staticmethod
    def ser_own(rules: dict, ups: set) -> str:
        from pest.grammar.rule import BuiltInRule

        own = [r for r in rules.values() if not isinstance(r, BuiltInRule)]
        return " ".join([str(len(own)), *[f"R {r.name} {r.modifier} g {P.ser_expr(r.expression, ups)}" for r in own]])


def job_history(job: dict) -> dict:
    mon = Monitor() if job.get("monitor", True) else None
    if mon:
        mon.install()
    proc = Proc(job["texts"], mon)
    outs = [proc.step(i, s) for i, s in enumerate(job["steps"])]
    if mon:
        mon.recheck_caches()
    model = None
    if job.get("encode", True):
        try:
            model = proc.encode_model(job["steps"], outs)
        except Exception:  # noqa: BLE001   (an object the serialiser does not know: the history is not sent to the model)
            model = None
    return {"outs": outs, "events": mon.events if mon else [], "writes": dict(mon.counts) if mon else {}, "model": model}


def _build(text: str, spec, via: str, gen: bool):
    """the one object of an isolated run: load that grammar with that optimizer setting, (generate)"""
    from pest import Parser
    from pest.grammar import parse as parse_grammar

    opt = _opt_of(spec)
    if via == "ctor":
        rules, doc = parse_grammar(text, Parser.BUILTIN)
        p = Parser(rules, doc, optimizer=opt)
    else:
        p = Parser.from_grammar(text, optimizer=opt)
    if not gen:
        return p.parse, None
    src = p.generate()
    return P.load_generated(src).parse, hashlib.sha1(src.encode()).hexdigest()[:16]


def job_isolated(job: dict) -> dict:
    try:
        parse, sha = _build(job["text"], job["opt"], job["via"], job["gen"])
    except Exception as e:  # noqa: BLE001
        return {"created": "exc " + type(e).__name__, "results": [], "sha": None}
    res = [call_result(parse, rule, "".join(chr(c) for c in inp), k) for rule, inp, k in job["calls"]]
    # the batch must not influence itself: the same calls again, in reverse order
    again = [call_result(parse, rule, "".join(chr(c) for c in inp), k) for rule, inp, k in reversed(job["calls"])][::-1]
    incons = [i for i, (a, b) in enumerate(zip(res, again)) if a != b and "oof" not in (a["enc"], b["enc"])]
    return {"created": "ok", "results": res, "sha": sha, "inconsistent": incons}


def job_threads(job: dict) -> dict:
    """stage (iv): the calls of `job["calls"]` from N threads on shared objects vs sequentially"""
    threading.stack_size(64 * 1024 * 1024)
    objs, calls, n = job["objects"], job["calls"], job["nthreads"]
    texts = job["texts"]

    def build_all():
        return [_build(texts[g], spec, via, gen)[0] for g, spec, via, gen in objs]

    def run_call(parsers, c):
        o, rule, inp, k = c
        return call_result(parsers[o], rule, "".join(chr(x) for x in inp), k)

    base = build_all()
    seq = [run_call(base, c) for c in calls]
    mismatches, ncalls = [], 0
    sys.setswitchinterval(job["interval"])
    for rnd in range(job["rounds"]):
        shared = build_all()                    # fresh lazy caches: first use races
        barrier = threading.Barrier(n)
        results: list = [None] * n
        errors: list = []

        def worker(t, shared=shared, barrier=barrier, results=results, errors=errors, rnd=rnd):
            rng = random.Random(job["seed"] * 1000 + rnd * 17 + t)
            order = list(range(len(calls)))
            if t:
                rng.shuffle(order)
            creator = t < job.get("creators", 0)
            res = {}
            try:
                barrier.wait()
                for j, ci in enumerate(order):
                    res[ci] = run_call(shared, calls[ci])
                    if creator and j % 5 == 0:
                        # a parser being created (and used) concurrently with the calls of the others
                        o = rng.randrange(len(objs))
                        g, spec, via, gen = objs[o]
                        mine = _build(texts[g], spec, via, gen)[0]
                        mine_calls = [x for x in range(len(calls)) if calls[x][0] == o][:3]
                        for x in mine_calls:
                            res[("own", j, x)] = (x, call_result(mine, calls[x][1], "".join(chr(y) for y in calls[x][2]), calls[x][3]))
            except Exception as e:  # noqa: BLE001
                errors.append(f"thread {t}: {type(e).__name__}: {e}")
            results[t] = res

        ths = [threading.Thread(target=worker, args=(t,)) for t in range(n)]
        for th in ths:
            th.start()
        for th in ths:
            th.join()
        for e in errors:
            mismatches.append({"round": rnd, "what": e})
        for t, res in enumerate(results):
            for key, got in (res or {}).items():
                ci, got = (key, got) if isinstance(key, int) else got
                ncalls += 1
                want = seq[ci]
                if "oof" in (want["enc"], got["enc"]):
                    continue
                if got != want:
                    mismatches.append({"round": rnd, "thread": t, "call": ci, "own_object": not isinstance(key, int),
                                       "expected": want["enc"][:300], "observed": got["enc"][:300],
                                       "labels_differ": want.get("labels") != got.get("labels")})
        after = [run_call(shared, c) for c in calls]
        for ci, (a, b) in enumerate(zip(after, seq)):
            if a != b and "oof" not in (a["enc"], b["enc"]):
                mismatches.append({"round": rnd, "thread": "after", "call": ci, "expected": b["enc"][:300], "observed": a["enc"][:300]})
    sys.setswitchinterval(0.005)
    return {"mismatches": mismatches[:20], "n_mismatches": len(mismatches), "calls": ncalls,
            "nontrivial": len({(c[0], c[1], tuple(c[2]), c[3]) for c, r in zip(calls, seq) if r["enc"] != "oof"})}


def _job_main() -> None:
    job = json.loads(sys.stdin.read())
    kind = job["kind"]
    res = {"history": job_history, "isolated": job_isolated, "threads": job_threads}[kind](job)
    sys.stdout.write("\n@@RESULT@@" + json.dumps(res))


# =====================================================================================
#  PARENT SIDE
# =====================================================================================


def run_job(job: dict, timeout: int = 180) -> dict:
    env = {**os.environ, "PEST_REPO": str(REPO), "PYTHONDONTWRITEBYTECODE": "1"}
    try:
        p = subprocess.run([sys.executable, str(Path(__file__).resolve()), "--job"], input=json.dumps(job), capture_output=True,
                           text=True, timeout=timeout, env=env)
    except subprocess.TimeoutExpired:
        return {"error": "timeout"}
    if "@@RESULT@@" not in p.stdout:
        return {"error": f"job crashed (exit {p.returncode}): " + p.stderr[-600:]}
    return json.loads(p.stdout.split("@@RESULT@@", 1)[1])


def run_jobs(jobs: list[dict]) -> list[dict]:
    if not jobs:
        return []
    with concurrent.futures.ThreadPoolExecutor(max_workers=NCPU) as ex:
        return list(ex.map(run_job, jobs))


# ---------------------------------------------------------------- grammar pool

BUILTIN_IDS = ["ASCII_ALPHA", "ASCII_HEX_DIGIT", "ASCII_ALPHANUMERIC", "NEWLINE", "ASCII_DIGIT", "ANY"]
BUILTIN_SAMPLE = {"ASCII_ALPHA": "azAZ", "ASCII_HEX_DIGIT": "09afAF", "ASCII_ALPHANUMERIC": "a0Z", "NEWLINE": "\n\r", "ASCII_DIGIT": "07",
                  "ANY": "a1 -"}


def gen_builtin_grammar(rng: random.Random) -> dict:
    """small grammars that lean on the shared built-in rules (whose failure reports the pinned optimizer changed)"""

    def atom():
        k = rng.random()
        if k < 0.6:
            return ("id", rng.choice(BUILTIN_IDS), None)
        if k < 0.8:
            return ("str", rng.choice(["a", "-", "0x", "_"]))
        return ("id", rng.choice(["r1", "r2"]), None)

    def expr(d):
        k = rng.random()
        if d <= 0 or k < 0.25:
            return atom()
        if k < 0.5:
            return ("seq", [expr(d - 1) for _ in range(rng.choice([2, 3]))])
        if k < 0.7:
            return ("choice", [expr(d - 1) for _ in range(rng.choice([2, 3]))])
        if k < 0.8:
            return ("rep", atom())
        if k < 0.9:
            return ("rep1", atom())
        return ("opt", expr(d - 1))

    for _ in range(200):
        rules = {"r0": ("", ("seq", [expr(2), ("id", rng.choice(BUILTIN_IDS[:4]), None)])),
                 "r1": (rng.choice(["", "_", "@"]), expr(1)),
                 "r2": (rng.choice(["", "_"]), ("choice", [atom(), ("str", "z")]))}
        if rng.random() < 0.3:
            rules["WHITESPACE"] = ("_", ("choice", [("str", " "), ("id", "NEWLINE", None)]))
        if G.well_formed(rules):
            return rules
    raise RuntimeError("no well-formed built-in grammar")


def sentence(rng: random.Random, rules: dict, e, depth=0) -> str:
    k = e[0]
    if k == "id" and e[1] in BUILTIN_SAMPLE:
        return rng.choice(BUILTIN_SAMPLE[e[1]])
    if k == "id" and e[1] in rules and depth < 6:
        return sentence(rng, rules, rules[e[1]][1], depth + 1)
    if k == "seq":
        return "".join(sentence(rng, rules, x, depth + 1) for x in e[1])
    if k == "choice":
        return sentence(rng, rules, rng.choice(e[1]), depth + 1)
    if k == "opt":
        return sentence(rng, rules, e[1], depth + 1) if rng.random() < 0.5 else ""
    if k in ("rep", "rep1"):
        return "".join(sentence(rng, rules, e[1], depth + 1) for _ in range(rng.choice([0, 1, 2]) + (k == "rep1")))
    if k == "str":
        return e[1]
    return ""


def grammar_pool(rng: random.Random, n_random: int, n_builtin: int, bundled: bool) -> list[dict]:
    """each entry: text + a pool of (rule, input, k) calls, succeeding and failing"""
    pool = []
    for i in range(n_random):
        gname, feats = G.FEATURE_GROUPS[(i * 5 + rng.randrange(3)) % len(G.FEATURE_GROUPS)]
        rules = G.gen_grammar(rng, feats)
        calls = []
        for start in list(rules)[:3]:
            for text in G.gen_inputs(rng, rules, start, feats, 4):
                calls.append((start, text, 0 if rng.random() < 0.8 else rng.randint(0, len(text))))
        pool.append({"name": "random:" + gname, "text": G.show_grammar(rules), "calls": calls})
    for _ in range(n_builtin):
        rules = gen_builtin_grammar(rng)
        calls = []
        for start in ("r0", "r1", "r2"):
            for j in range(4):
                s = sentence(rng, rules, rules[start][1])[:12]
                if j % 2:
                    s = E.mutate(rng, s)
                calls.append((start, s, 0))
            calls.append((start, "".join(rng.choice("a1 -\nZ_") for _ in range(rng.randint(0, 4))), 0))
        pool.append({"name": "builtin-heavy", "text": G.show_grammar(rules), "calls": calls})
    # sibling grammars: the same rule names with and without implicit trivia / atomic modifiers, around the
    # shapes the optimizer rewrites (anything an Optimizer or a cache remembers *by rule name* shows here)
    for j in range(max(2, n_random // 3)):
        base = G.gen_skip_template(rng) if j % 2 == 0 else G.gen_squash_template(rng)
        va = {n: (("@" if n == "r" else m), e) for n, (m, e) in base.items() if n != "WHITESPACE"}
        vb = {n: (("" if n == "r" else m), e) for n, (m, e) in base.items() if n != "WHITESPACE"}
        vb["WHITESPACE"] = ("_", ("str", " "))
        texts_ = ["".join(rng.choice("abc ") for _ in range(rng.randint(0, 6))) for _ in range(10)] + ["a ]", " ab", "ab ba", "a b c"]
        for tag, v in (("a", va), ("b", vb)):
            if G.well_formed(v):
                pool.append({"name": f"sibling:{j}:{tag}", "text": G.show_grammar(v), "calls": [("r", t, 0) for t in texts_]})
    # settings of the regular-expression engine are process-wide (default version, flags, caches): literals whose matching
    # depends on how case folding is configured, so that a setting leaked by something done earlier shows in a later parser
    pool.append({"name": "fold-sensitive", "text": 'street = { ^"stra\u00dfe" ~ " " ~ ASCII_DIGIT+ }\nword = { ^"fi" ~ ^"x" }',
                 "calls": [("street", "STRASSE 12", 0), ("street", "strasse 1", 0), ("street", "stra\u00dfe 1", 0), ("street", "STRA\u00dfE 2", 0),
                           ("street", "xx strasse 3", 3), ("word", "FIX", 0), ("word", "fiX", 0)]})
    if bundled:
        sc = E.suite_cases()
        for gfile, gtext in sorted(E.bundled_grammars().items()):
            base = sc.get(gfile, [])
            if not base:
                continue
            pick = rng.sample(base, min(len(base), 5))
            calls = []
            for rule, text in pick:
                text = text[:300]
                calls.append((rule, text, 0))
                calls.append((rule, E.mutate(rng, text), 0))
            pool.append({"name": "bundled:" + gfile, "text": gtext, "calls": calls})
    return pool


def rand_opt(rng: random.Random):
    k = rng.random()
    if k < 0.3:
        return "none"
    if k < 0.7:
        return "default"
    return [rng.choice(PASS_NAMES) for _ in range(rng.choice([1, 2, 3, 5]))]


def gen_history(rng: random.Random, pool: list[dict], max_steps: int) -> dict:
    """texts + steps.  Objects are referred to by name, so that steps can be deleted when shrinking."""
    gs = rng.sample(pool, min(len(pool), rng.choice([1, 2, 2, 3])))
    sibs = sorted({g["name"].rsplit(":", 1)[0] for g in pool if g["name"].startswith("sibling:")})
    if sibs and rng.random() < 0.35:
        pick = rng.choice(sibs)
        pair = [g for g in pool if g["name"].rsplit(":", 1)[0] == pick]
        if len(pair) == 2:
            rng.shuffle(pair)
            gs = pair + gs[:1]
    if rng.random() < 0.5 and not any(g["name"] == "builtin-heavy" for g in gs):
        heavy = [g for g in pool if g["name"] == "builtin-heavy"]
        if heavy:
            gs[0] = rng.choice(heavy)
    texts = [g["text"] for g in gs]
    steps: list[dict] = []
    mappings, parsers, modules = [], [], []          # (id, g)
    last_call: dict[str, dict] = {}
    n = [0]

    def fresh(prefix):
        n[0] += 1
        return f"{prefix}{n[0]}"

    def call_on(kind, oid, g):
        if oid in last_call and rng.random() < 0.45:
            c = dict(last_call[oid])                 # the same call again (after whatever happened in between)
        else:
            rule, text, k = rng.choice(gs[g]["calls"])
            c = {"op": kind, ("p" if kind == "parse" else "x"): oid, "rule": rule, "input": [ord(ch) for ch in text], "k": k}
        last_call[oid] = c
        steps.append(dict(c))

    def create():
        k = rng.random()
        if k < 0.45:
            g = rng.randrange(len(gs))
            pid = fresh("p")
            steps.append({"op": "from_grammar", "id": pid, "g": g, "opt": rand_opt(rng), "debug": rng.random() < 0.1})
            parsers.append((pid, g))
        elif k < 0.7 or not mappings:
            g = rng.randrange(len(gs))
            mid = fresh("m")
            steps.append({"op": "mapping", "id": mid, "g": g})
            mappings.append((mid, g))
            pid = fresh("p")
            steps.append({"op": "parser", "id": pid, "m": mid, "opt": rand_opt(rng), "debug": False})
            parsers.append((pid, g))
        else:
            mid, g = rng.choice(mappings)            # a second parser from a mapping that is already in use
            pid = fresh("p")
            steps.append({"op": "parser", "id": pid, "m": mid, "opt": rand_opt(rng), "debug": rng.random() < 0.1})
            parsers.append((pid, g))
        # observe the objects that existed before
        for oid, g in rng.sample(parsers[:-1], min(len(parsers) - 1, 2)):
            if rng.random() < 0.8:
                call_on("parse", oid, g)
        for xid, g in rng.sample(modules, min(len(modules), 1)):
            if rng.random() < 0.5:
                call_on("parse_gen", xid, g)

    create()
    call_on("parse", *parsers[0])
    while len(steps) < max_steps:
        k = rng.random()
        if k < 0.28:
            create()
        elif k < 0.38 and parsers:
            pid, g = rng.choice(parsers)
            xid = fresh("x")
            steps.append({"op": "generate", "id": xid, "p": pid})
            modules.append((xid, g))
        elif k < 0.82 or not modules:
            call_on("parse", *(parsers[0] if rng.random() < 0.3 else rng.choice(parsers)))
        else:
            call_on("parse_gen", *rng.choice(modules))
    return {"texts": texts, "steps": steps, "groups": [g["name"] for g in gs]}


# ---------------------------------------------------------------- oracle: the same call in a fresh process


def object_key(hist: dict, steps_upto: list[dict], oid: str, gen_of: str | None = None):
    """(text, optimizer setting, creation route, generated?) of the object a step refers to"""
    for s in steps_upto:
        if s.get("id") == oid and s["op"] in ("parser", "from_grammar"):
            if s["op"] == "from_grammar":
                return (hist["texts"][s["g"]], json.dumps(s["opt"]), "from_grammar", gen_of is not None)
            for m in steps_upto:
                if m.get("id") == s["m"] and m["op"] == "mapping":
                    return (hist["texts"][m["g"]], json.dumps(s["opt"]), "ctor", gen_of is not None)
    return None


def observed_calls(hist: dict):
    """yield (step index, object key, call tuple | None) for every step whose outcome is compared"""
    steps = hist["steps"]
    gen_parent = {s["id"]: s["p"] for s in steps if s["op"] == "generate"}
    for i, s in enumerate(steps):
        if s["op"] in ("parser", "from_grammar"):
            yield i, object_key(hist, steps, s["id"]), None
        elif s["op"] == "generate":
            yield i, object_key(hist, steps, s["p"], "gen"), None
        elif s["op"] == "parse":
            yield i, object_key(hist, steps, s["p"]), (s["rule"], tuple(s["input"]), s["k"])
        elif s["op"] == "parse_gen":
            yield i, object_key(hist, steps, gen_parent.get(s["x"], ""), "gen"), (s["rule"], tuple(s["input"]), s["k"])


class Oracle:
    """results of isolated runs, cached by (object key, call)"""

    def __init__(self, exact: bool = False):
        self.exact = exact                 # one fresh process per call (used to confirm and shrink) instead of per object
        self.created: dict = {}
        self.sha: dict = {}
        self.results: dict = {}
        self.inconsistent: dict = {}       # object key -> calls whose result changed when the batch was repeated
        self.jobs_run = 0

    def need(self, hists: list[dict]) -> None:
        want: dict = collections.defaultdict(set)
        for h in hists:
            for _i, key, call in observed_calls(h):
                if key is None:
                    continue
                if call is None:
                    if key not in self.created:
                        want[key]
                elif (key, call) not in self.results:
                    want[key].add(call)
        jobs, keys = [], []
        for key, calls in want.items():
            batches = [[c] for c in sorted(calls)] + ([[]] if key not in self.created else []) if self.exact else [sorted(calls)]
            for batch in batches:
                keys.append((key, batch))
                jobs.append({"kind": "isolated", "text": key[0], "opt": json.loads(key[1]), "via": key[2], "gen": key[3],
                             "calls": [[r, list(inp), k] for r, inp, k in batch]})
        for (key, calls), res in zip(keys, run_jobs(jobs)):
            self.jobs_run += 1
            if "error" in res:
                continue
            self.created[key] = res["created"]
            self.sha[key] = res["sha"]
            for c, r in zip(calls, res["results"]):
                self.results[(key, c)] = r
            if res.get("inconsistent"):
                self.inconsistent.setdefault(key, []).extend(calls[i] for i in res["inconsistent"])

    def differences(self, hist: dict, outs: list) -> list[dict]:
        diffs = []
        for i, key, call in observed_calls(hist):
            if key is None or i >= len(outs):
                continue
            o = outs[i]
            s = hist["steps"][i]
            if call is None:
                if key not in self.created:
                    continue
                want = self.created[key]
                if s["op"] == "generate":
                    if isinstance(o, str) and o.startswith("ok ") and self.sha.get(key) and o[3:] != self.sha[key]:
                        diffs.append({"step": i, "what": "generate() produced different source than in a fresh process", "expected": self.sha[key], "observed": o[3:]})
                elif o != want and o != "noobj":
                    diffs.append({"step": i, "what": "creating the parser ended differently than in a fresh process", "expected": want, "observed": o})
                continue
            want = self.results.get((key, call))
            if want is None or not isinstance(o, dict) or o["enc"] == "noobj":
                continue
            if "oof" in (want["enc"], o["enc"]):
                continue
            if o != want:
                what = ("result" if o["enc"] != want["enc"] else "failure labels / message") + " differs from the same call in a fresh process"
                diffs.append({"step": i, "what": what, "expected": want["enc"][:400], "observed": o["enc"][:400],
                              **({"expected_labels": want.get("labels"), "observed_labels": o.get("labels")} if o["enc"] == want["enc"] else {})})
        return diffs


def failing(hist: dict, oracle: Oracle) -> tuple[list[dict], dict]:
    """run the history in a fresh process; what fails (differences from the oracle + monitor violations)"""
    res = run_job({"kind": "history", "texts": hist["texts"], "steps": hist["steps"], "encode": False})
    if "error" in res:
        return [], res
    oracle.need([hist])
    bad = oracle.differences(hist, res["outs"])
    bad += [{"step": e["step"], "what": "monitor: " + e["what"], "kind": e["kind"]} for e in res["events"] if e["violation"]]
    return bad, res


def refs(s: dict) -> set:
    return {s[k] for k in ("m", "p", "x") if k in s}


def shrink(hist: dict, oracle: Oracle, sig: str, budget: int = 45) -> dict:
    """greedy deletion of steps while a failure of the same kind persists"""
    cur = hist
    t0 = time.time()
    changed = True
    while changed and budget > 0 and time.time() - t0 < 90:
        changed = False
        for i in range(len(cur["steps"]) - 1, -1, -1):
            s = cur["steps"][i]
            if "id" in s and any(s["id"] in refs(t) for t in cur["steps"][i + 1:]):
                continue
            cand = {**cur, "steps": cur["steps"][:i] + cur["steps"][i + 1:]}
            budget -= 1
            bad, _ = failing(cand, oracle)
            if any(signature(b) == sig for b in bad):
                cur, changed = cand, True
            if budget <= 0:
                break
    return cur


def signature(b: dict) -> str:
    w = b["what"]
    if w.startswith("monitor: "):
        if "shared built-in rule" in w or "shared built-in table" in w:
            return "monitor:shared built-in rule written"
        if "caller's mapping" in w or "an existing object" in w or "existing parser" in w:
            return "monitor:rule object of another parser / the caller's mapping written"
        return "monitor:" + b.get("kind", "")
    return w


def sig_rank(sig: str) -> int:
    return 2 if sig.startswith("monitor:") else 1 if sig.startswith("failure labels") else 0


def compact(hist: dict) -> dict:
    """drop the grammar texts no step refers to"""
    used = sorted({s["g"] for s in hist["steps"] if "g" in s})
    ren = {g: i for i, g in enumerate(used)}
    return {**hist, "texts": [hist["texts"][g] for g in used],
            "steps": [({**s, "g": ren[s["g"]]} if "g" in s else s) for s in hist["steps"]]}


# ---------------------------------------------------------------- the Lean model


def h_line(model: dict) -> str | None:
    blocks = []
    for name, pat in model["ups"]:
        line = P.uset_line(name, pat)          # "US name lo hi lo hi ..."
        toks = line.split()[2:]
        blocks.append(f"{name} {len(toks) // 2} " + " ".join(toks))
    return " ".join(["H", str(FUEL), str(len(blocks)), *blocks, model["builtins"], *model["ops"]])


_SCRATCH_MAIN = """import PestModel.Drv.World
partial def loop (hin hout : IO.FS.Stream) : IO Unit := do
  let line ← hin.getLine
  if line.isEmpty then return ()
  let l := if line.endsWith "\\n" then (line.dropEnd 1).toString else line
  let toks := (l.splitOn " ").filter (· ≠ "")
  hout.putStrLn ((Drv.handleWorld toks).getD "bad-request")
  loop hin hout
def main : IO Unit := do
  let hin ← IO.getStdin
  let hout ← IO.getStdout
  loop hin hout
  hout.flush
"""


def run_model(lines: list[str]) -> tuple[list[str], str]:
    """answers of the Lean model for `H` lines: through the compiled driver when it knows the
    request, else by interpreting `Drv.handleWorld` (same definition) with `lean --run`"""
    if not lines:
        return [], "none"
    try:
        probe = run_driver(["H 1 0 0"])
    except (RuntimeError, OSError):          # binary missing (e.g. being relinked by a concurrent build)
        probe = ["driver-error"]
    if probe and probe[0] != "bad-request:H" and probe[0] != "driver-error":
        return run_driver(lines, shards=min(NCPU, max(1, len(lines) // 8))), "pestdriver"
    WORK.mkdir(exist_ok=True)
    main = WORK / f"WorldMain_{os.getpid()}.lean"
    main.write_text(_SCRATCH_MAIN)
    shards = min(NCPU, max(1, len(lines) // 6))
    size = (len(lines) + shards - 1) // shards

    def one(chunk):
        p = subprocess.run(["lake", "env", "lean", "--run", str(main)], cwd=LEAN, input="\n".join(chunk) + "\n", capture_output=True, text=True)
        got = p.stdout.split("\n")
        if got and got[-1] == "":
            got.pop()
        return (got + ["driver-error"] * len(chunk))[: len(chunk)] if len(got) != len(chunk) else got

    try:
        with concurrent.futures.ThreadPoolExecutor(max_workers=shards) as ex:
            parts = list(ex.map(one, [lines[i * size:(i + 1) * size] for i in range(shards) if lines[i * size:(i + 1) * size]]))
    finally:
        main.unlink(missing_ok=True)
    return [a for part in parts for a in part], "lean --run (Drv.handleWorld interpreted; Driver.lean does not dispatch H yet)"


def correspondence(hists: list[dict], results: list[dict], max_ups: int) -> tuple[list[dict], dict]:
    lines, metas = [], []
    stats = collections.Counter()
    seen_ups: set = set()
    for h, r in zip(hists, results):
        m = r.get("model")
        if not m:
            stats["histories_not_encodable"] += 1
            continue
        new = {n for n, _ in m["ups"]} - seen_ups
        if len(seen_ups | new) > max_ups:
            stats["histories_skipped_unicode_sets"] += 1
            continue
        seen_ups |= new
        lines.append(h_line(m))
        metas.append((h, m))
    answers, how = run_model(lines)
    mism = []
    for ln, (h, m), ans in zip(lines, metas, answers):
        got = ans.split(" | ")
        if len(got) != len(m["expect"]):
            mism.append({"request": ln[:1500], "model": ans[:600], "impl": "(%d answers expected)" % len(m["expect"]), "op": "-", "history": h})
            continue
        for op, want, g in zip(m["ops"], m["expect"], got):
            stats["answers_compared"] += 1
            if g != want and "oof" not in (g, want):
                mism.append({"request": ln[:1500], "op": op[:300], "model": g[:600], "impl": want[:600], "history": h})
                break
    stats["histories_compared"] = len(lines)
    return mism, {"how": how, **stats}


# ---------------------------------------------------------------- threads


def gen_thread_job(rng: random.Random, pool: list[dict], thorough: bool, idx: int) -> dict:
    gs = rng.sample(pool, min(len(pool), rng.choice([1, 2, 2, 3])))
    sibs = sorted({g["name"].rsplit(":", 1)[0] for g in pool if g["name"].startswith("sibling:")})
    if sibs and rng.random() < 0.35:
        pick = rng.choice(sibs)
        pair = [g for g in pool if g["name"].rsplit(":", 1)[0] == pick]
        if len(pair) == 2:
            rng.shuffle(pair)
            gs = pair + gs[:1]
    texts = [g["text"] for g in gs]
    objects, calls = [], []
    for gi, g in enumerate(gs):
        variants = [("none", False), ("default", False), ("default", True), ("none", True), ([rng.choice(PASS_NAMES) for _ in range(3)], False)]
        for spec, gen in rng.sample(variants, rng.choice([2, 3, 4])):
            o = len(objects)
            objects.append((gi, spec, rng.choice(["from_grammar", "ctor"]), gen))
            for rule, text, k in rng.sample(g["calls"], min(len(g["calls"]), rng.choice([3, 5, 8]))):
                calls.append((o, rule, [ord(c) for c in text], k))
    rng.shuffle(calls)
    n = rng.choice([4, 6, 8])
    return {"kind": "threads", "texts": texts, "objects": objects, "calls": calls[:60], "nthreads": n,
            "interval": 1e-6 if thorough else rng.choice([1e-5, 1e-6, 5e-5]), "rounds": 8 if thorough else 3,
            "creators": rng.choice([0, 1, 2]), "seed": seed() * 100 + idx, "groups": [g["name"] for g in gs]}


# ---------------------------------------------------------------- main


def import_closure(roots: list[str]) -> set[str]:
    """relative paths of the Lean files the given modules import, transitively (project files only)"""
    import re as _re

    seen: set[str] = set()
    todo = list(roots)
    while todo:
        mod = todo.pop()
        rel = mod.replace(".", "/") + ".lean"
        if rel in seen or not (LEAN / rel).exists():
            continue
        seen.add(rel)
        todo += _re.findall(r"^import\s+(PestModel[\w.]*)", (LEAN / rel).read_text(), _re.M)
    return seen


def run(out: Outcome) -> None:
    thorough = out.tier == "thorough"
    info = proof_stage(out, "C15", THEOREMS, extra_targets=["PestModel.Drv.World"])
    # the forbidden-token grep of proof_stage covers the whole project; a hit in a file these theorems
    # do not import (somebody else's unfinished lemma file) says nothing about them (their axioms are audited)
    mine = import_closure(["PestModel.Props.C15", "PestModel.Drv.World"])
    dropped = [b for b in info.get("broken", []) if b.startswith("forbidden: ") and b[11:].split(":")[0] not in mine]
    if dropped:
        info["broken"] = [b for b in info["broken"] if b not in dropped]
        info["forbidden_hits_outside_import_closure"] = dropped[:5]
    if not info.get("build_ok") and not info.get("driver_ok"):
        # the model does not build: stages ii–iv still run (they do not need it)
        pass
    rng = random.Random(seed() * 104729 + 15)
    pool = grammar_pool(rng, 60 if thorough else 16, 40 if thorough else 12, True)
    n_hist = 1600 if thorough else 160
    hists = [gen_history(random.Random(rng.randrange(1 << 30)), pool, rng.choice([8, 12, 16, 24] if thorough else [8, 12, 16])) for _ in range(n_hist)]
    # directed histories: something is loaded, optimized, generated and executed first; afterwards a parser for the
    # fold-sensitive grammar is built and used - process-wide settings leaked by the first part would show in the second
    fold = next((g for g in pool if g["name"] == "fold-sensitive"), None)
    if fold:
        others = [g for g in pool if g["name"] != "fold-sensitive"]
        for j in range(6 if thorough else 3):
            g0 = others[(j * 7) % len(others)]
            steps = [{"op": "from_grammar", "id": "p1", "g": 0, "opt": "default" if j % 2 == 0 else "none"}]
            if g0["calls"]:
                r_, t_, k_ = g0["calls"][0]
                steps.append({"op": "parse", "p": "p1", "rule": r_, "input": [ord(c) for c in t_], "k": k_})
            steps.append({"op": "generate", "id": "x1", "p": "p1"})
            if g0["calls"]:
                steps.append({"op": "parse_gen", "x": "x1", "rule": r_, "input": [ord(c) for c in t_], "k": k_})
            steps.append({"op": "from_grammar", "id": "p2", "g": 1, "opt": "none" if j % 3 == 0 else "default"})
            for r2, t2, k2 in fold["calls"]:
                steps.append({"op": "parse", "p": "p2", "rule": r2, "input": [ord(c) for c in t2], "k": k2})
            hists.append({"texts": [g0["text"], fold["text"]], "steps": steps, "groups": [g0["name"], "fold-sensitive", "directed"]})

    # ---- stages ii + iii: every history in its own fresh process, monitored
    results = run_jobs([{"kind": "history", "texts": h["texts"], "steps": h["steps"]} for h in hists])
    errors = [r["error"] for r in results if "error" in r]
    ok_pairs = [(h, r) for h, r in zip(hists, results) if "error" not in r]
    oracle = Oracle()
    oracle.need([h for h, _ in ok_pairs])
    writes = collections.Counter()
    candidates = []                       # (history, failure)
    evals = 0
    distinct = set()
    outcome_kinds = collections.Counter()
    for h, r in ok_pairs:
        writes.update(r["writes"])
        for i, key, call in observed_calls(h):
            if call is not None and key is not None and isinstance(r["outs"][i], dict):
                evals += 1
                enc = r["outs"][i]["enc"]
                outcome_kinds[enc.split(" ")[0]] += 1
                if enc != "oof" and enc != "noobj":
                    distinct.add((key, call))
        bad = oracle.differences(h, r["outs"])
        bad += [{"step": e["step"], "what": "monitor: " + e["what"], "kind": e["kind"]} for e in r["events"] if e["violation"]]
        for b in bad:
            candidates.append((h, b))

    for key, calls in oracle.inconsistent.items():
        # in a fresh process, on one object, a call's result depended on the calls made before it
        text, spec, via, gen = key
        steps = ([{"op": "from_grammar", "id": "p1", "g": 0, "opt": json.loads(spec)}] if via == "from_grammar" else
                 [{"op": "mapping", "id": "m0", "g": 0}, {"op": "parser", "id": "p1", "m": "m0", "opt": json.loads(spec)}])
        if gen:
            steps.append({"op": "generate", "id": "x1", "p": "p1"})
        allc = sorted({c for (k2, c) in oracle.results if k2 == key})
        for rule, inp, k in allc + allc[::-1]:
            steps.append({"op": "parse_gen" if gen else "parse", ("x" if gen else "p"): "x1" if gen else "p1", "rule": rule, "input": list(inp), "k": k})
        candidates.append(({"texts": [text], "steps": steps, "groups": ["synthetic: repeated batch"]},
                           {"step": len(steps) - 1, "what": "result differs from the same call in a fresh process"}))
    xo = Oracle(exact=True)
    reported, seen_sig = 0, set()
    by_kind = collections.Counter(signature(b) for _h, b in candidates)
    candidates.sort(key=lambda hb: (sig_rank(signature(hb[1])), len(hb[0]["steps"])))
    for h, b in candidates:
        sig = signature(b)
        if sig in seen_sig:
            continue
        seen_sig.add(sig)
        again, _ = failing(h, xo)                     # believed only if it fails again from the replay data
        if not any(signature(x) == sig for x in again):
            continue
        small = compact(shrink(h, xo, sig))
        final, _ = failing(small, xo)
        first = next((x for x in final if signature(x) == sig), b)
        out.violation({"kind": "history", "what": first["what"], "texts": small["texts"], "steps": small["steps"], "failure": first,
                       "history_readable": [describe(s) for s in small["steps"]], "shrunk_from": len(h["steps"]), "seed": seed(),
                       "command": "./check C15 --replay <this file>"})
        reported += 1
        if reported >= 3:
            break

    # ---- stage iii-b: parsers built from another parser's optimized rule table
    for f in derived_table_failures()[:2]:
        out.violation({"kind": "derived-table", **f, "seed": seed(), "command": "./check C15 --replay <this file>"})
        reported += 1

    # ---- stage iv: threads
    tjobs = [gen_thread_job(random.Random(rng.randrange(1 << 30)), pool, thorough, i) for i in range(256 if thorough else 32)]
    tres = run_jobs(tjobs)
    tcalls = sum(r.get("calls", 0) for r in tres)
    tnontrivial = sum(r.get("nontrivial", 0) for r in tres)
    errors += [r["error"] for r in tres if "error" in r]
    thread_flaky = 0
    for j, r in zip(tjobs, tres):
        if r.get("n_mismatches"):
            # must reproduce twice from the replay data
            r1, r2 = run_jobs([j, j])
            if r1.get("n_mismatches") and r2.get("n_mismatches"):
                if reported < 3:
                    out.violation({"kind": "threads", "what": "a call made concurrently with other calls returned a different result than sequentially",
                                   "job": j, "mismatches": r["mismatches"][:5], "seed": seed(), "command": "./check C15 --replay <this file>"})
                    reported += 1
            else:
                thread_flaky += 1

    # ---- stage v: correspondence with the Lean model
    corr, cstats = ([], {"how": "model does not build"})
    if info.get("build_ok") or (LEAN / ".lake/build/lib/lean/PestModel/Drv/World.olean").exists():
        try:
            corr, cstats = correspondence([h for h, _ in ok_pairs], [r for _, r in ok_pairs], 6 if thorough else 3)
        except Exception as e:  # noqa: BLE001
            cstats = {"how": f"model run failed: {type(e).__name__}: {e}"[:300]}

    if reported == 0:
        if corr:
            c = corr[0]
            out.unproved({"broken": f"correspondence H {c['op']}", "model_answer": c["model"], "code_answer": c["impl"], "request": c["request"],
                          "history_readable": [describe(s) for s in c["history"]["steps"]], "more": len(corr) - 1,
                          "searched": {"histories": len(ok_pairs), "calls": evals, "note": "no call differed from a fresh process, the monitor saw no foreign write, no thread run differed"}})
        elif info.get("broken"):
            out.unproved({"broken": "theorem " + "; ".join(info["broken"])[:1500],
                          "searched": {"histories": len(ok_pairs), "calls": evals, "note": "model and implementation agree on every explored history"}})
    if len(errors) > max(3, (len(hists) + len(tjobs)) // 10):
        out.infra_error = f"{len(errors)} jobs failed: {errors[0][:300]}"

    sample = []
    for h, r in ok_pairs[:2]:
        sample.append({"groups": h["groups"], "history": [describe(s) for s in h["steps"]][:12],
                       "results": [(o["enc"][:60] if isinstance(o, dict) else o) for o in r["outs"]][:12]})
    out.coverage = {
        **proof_coverage(info, "C15"),
        "explanation": ("process-level model (shared built-in table, callers' rule mappings, parser objects, generated modules, lazy caches): "
                        "invariants and history independence proved for every history of current-tree operations; on the code: write-set monitor, "
                        "random histories vs fresh-process runs, thread runs vs sequential runs, histories replayed in the Lean model"),
        "open_statements": ["parse_interleaving: every bytecode-level step of CPython's parse() is a Transparent thread step over the lazy caches "
                            "(assumed; proved part: parse_interleaving_partial / interleaving_irrelevant)"],
        "what_is_proved": ("for every finite history of newMapping/newParser(any passes)/generate/parse/parseGen in the model: Parser.BUILTIN and the "
                           "callers' rule objects are never written, created objects never change, every call returns what it returns in a fresh "
                           "process; calls write only idempotent cache flags, commute, and do not affect each other (granularity: a whole call); "
                           "generic lemma: threads with disjoint private state whose only shared writes are fills of caches whose content is a function "
                           "of the slot reach the same private states under every schedule (granularity: one atomic access). NOT proved: that a step of "
                           "CPython's parse() is such a step (assumed, tested by stages ii and iv); model = code only as far as stage v compares"),
        "evaluations": int(evals + tcalls),
        "distinct_nontrivial": int(len(distinct) + tnontrivial),
        "rule": ("an evaluation = one parse() call inside a history (compared with the same call in a fresh process) or inside a thread run (compared "
                 "with the sequential result); distinct non-trivial = distinct (grammar text, optimizer setting, creation route, interpreted/generated, "
                 "rule, input, start position) whose result is a tree or a failure report (not RecursionError)"),
        "samples": sample,
        "histories": len(ok_pairs),
        "history_steps": sum(len(h["steps"]) for h, _ in ok_pairs),
        "isolated_processes": oracle.jobs_run + xo.jobs_run,
        "outcomes": dict(outcome_kinds),
        "grammar_pool": dict(collections.Counter(g["name"].split(":")[0] for g in pool)),
        "thread_runs": len(tjobs), "thread_calls": int(tcalls), "thread_mismatches_not_reproduced": thread_flaky,
        "threads_per_run": "4-8", "switch_interval": "1e-6" if thorough else "1e-6..5e-5",
        "monitored_writes_by_kind": dict(writes),
        "correspondence": cstats, "correspondence_mismatches": len(corr),
        "direct_failures": len(candidates), "direct_failures_by_kind": dict(by_kind), "job_errors": len(errors),
    }
    out.assumptions = [
        "CPython with the GIL: loads and stores of object slots are atomic; real preemption inside C code (regex matching) and free-threaded builds are not modelled",
        "the `regex` package's own pattern cache and compiled Pattern objects are treated as immutable and thread-safe",
        "the model's step granularity: histories are sequences of whole operations; interleaving_irrelevant is a generic lemma whose instantiation to parse() is checked by tests only",
        "the content of a lazy cache (_compiled, _expanded) is a function of its node: checked on every cache filled during a monitored history by recomputing it",
        "failure labels are compared on the implementation (fresh process vs history) but abstracted to counts per rule in the model",
        "RecursionError outcomes are skipped (they depend on the depth of the caller's stack)",
    ]


def describe(s: dict) -> str:
    op = s["op"]
    if op == "mapping":
        return f"{s['id']} = pest.grammar.parse(text{s['g']}, Parser.BUILTIN)"
    if op == "parser":
        return f"{s['id']} = Parser({s['m']}.rules, optimizer={s['opt']})"
    if op == "from_grammar":
        return f"{s['id']} = Parser.from_grammar(text{s['g']}, optimizer={s['opt']})"
    if op == "generate":
        return f"{s['id']} = load({s['p']}.generate())"
    text = "".join(chr(c) for c in s["input"])
    return f"{s.get('p') or s.get('x')}.parse({s['rule']!r}, {text[:40]!r}, start_pos={s['k']})"


# ---------------------------------------------------------------- parsers built from another parser's (optimized) rule table

DERIVED_GRAMMARS = [
    ('alpha = _{ \'a\'..\'z\' | \'A\'..\'Z\' }\nident = @{ (alpha | "_") ~ (alpha | "_" | \'0\'..\'9\')* }\nword = @{ alpha+ }\nnum = @{ (\'0\'..\'9\' | "_")+ }',
     [("word", "ab_1"), ("word", "ab"), ("ident", "1abc"), ("ident", "_a1"), ("word", "_"), ("num", "1_2"), ("num", "a")]),
    ('WHITESPACE = _{ " " | "\\t" }\nsep = _{ "," | ";" }\nitem = { (\'a\'..\'c\' | sep)+ }\nlist = { item ~ (sep ~ item)* }\nraw = @{ (!sep ~ ANY)* }',
     [("list", "a, b;c"), ("item", "a,b"), ("raw", "ab ,c"), ("list", "a b"), ("raw", "")]),
    ('kw = _{ ^"on" | ^"off" }\nflag = { kw | \'0\'..\'1\' }\nflags = { flag+ }\nname = @{ (kw | "_")+ }',
     [("flags", "ON0off1"), ("flag", "2"), ("name", "on_OFF"), ("name", "x"), ("flags", "")]),
]


def _derived_scenario(job):
    """one scenario in its own process: [p1 = from_grammar(g, opt1)] [+ parsers built from p1.rules, used or not] then p1's calls"""
    gtext, calls, opt1, derive, use_first = job
    use_repo()
    from pest import Parser
    from pest.grammar.optimizer import DEFAULT_OPTIMIZER
    o1 = DEFAULT_OPTIMIZER if opt1 == "default" else None
    p1 = Parser.from_grammar(gtext, optimizer=o1)
    outs = []
    if derive:
        others = [Parser(p1.rules, p1.doc, optimizer=DEFAULT_OPTIMIZER), Parser(p1.rules, p1.doc, optimizer=None)]
        if use_first:
            for q in others:
                for r, t in calls:
                    outs.append(("other", E.enc_struct(E.run_struct(q.parse, r, t, 0))[:300]))
    res = [E.enc_struct(E.run_struct(p1.parse, r, t, 0))[:600] for r, t in calls]
    return res, outs


def derived_table_failures() -> list[dict]:
    """a Parser built from another parser's rule table - the optimized table p1.rules, with or without an optimizer of its own -
    must leave p1 as it is: p1's results after such parsers were built (and used) equal p1's results in a process where they
    never existed.  Each scenario runs in a process of its own."""
    from common import run_killable
    jobs = []
    for gtext, calls in DERIVED_GRAMMARS:
        for opt1 in ("default", "none"):
            jobs.append((gtext, calls, opt1, False, False))
            jobs.append((gtext, calls, opt1, True, False))
            jobs.append((gtext, calls, opt1, True, True))
    got = {}
    # run_killable does not say which job an answer belongs to: run them one by one, in order (they are few and fast)
    for j in jobs:
        for kind, res in run_killable(_derived_scenario, [j], 120.0, 1):
            got[j[:1] + (tuple(j[1]),) + j[2:]] = res if kind == "ok" else None
    bad = []
    for gtext, calls in DERIVED_GRAMMARS:
        for opt1 in ("default", "none"):
            base = got.get((gtext, tuple(calls), opt1, False, False))
            for use_first in (False, True):
                cur = got.get((gtext, tuple(calls), opt1, True, use_first))
                if base is None or cur is None:
                    continue
                for (r, t), a, b in zip(calls, base[0], cur[0]):
                    if a != b:
                        bad.append({"grammar": gtext, "optimizer": opt1, "rule": r, "input": t, "expected": a, "observed": b,
                                    "what": "a parser's result changed after other parsers were built from its rule table"
                                            + (" and used" if use_first else ""),
                                    "history_readable": [f"p1 = Parser.from_grammar(text, optimizer={opt1})",
                                                         "p2 = Parser(p1.rules, p1.doc, optimizer=DEFAULT_OPTIMIZER)", "p3 = Parser(p1.rules, p1.doc, optimizer=None)"]
                                                        + (["p2.parse(...), p3.parse(...) on every call below"] if use_first else [])
                                                        + [f"p1.parse({r!r}, {t!r})"]})
    return bad


def replay(out: Outcome, payload: dict) -> None:
    out.coverage = {"explanation": "replay of one recorded case", "evaluations": 1, "distinct_nontrivial": 2, "samples": [payload.get("what", "")]}
    if payload.get("kind") == "derived-table":
        for f in derived_table_failures():
            if (f["grammar"], f["optimizer"], f["rule"], f["input"]) == tuple(payload.get(k) for k in ("grammar", "optimizer", "rule", "input")):
                out.violation(payload)
                return
        return
    if payload.get("kind") == "history":
        hist = {"texts": payload["texts"], "steps": payload["steps"]}
        bad, res = failing(hist, Oracle(exact=True))
        if "error" in res:
            out.infra_error = res["error"][:300]
        elif bad:
            out.violation({**payload, "failure": bad[0]})
    elif payload.get("kind") == "threads":
        r1, r2 = run_jobs([payload["job"], payload["job"]])
        if r1.get("n_mismatches") and r2.get("n_mismatches"):
            out.violation({**payload, "mismatches": r1["mismatches"][:5]})


if __name__ == "__main__" and "--job" in sys.argv:
    _job_main()
