"""C13 (text part) — `error_context(text, index)` of src/pest/exceptions.py.

  impl     pest.exceptions.error_context
  formula  C14's convention computed here: line = 1 + number of "\\n" before p, column = 1 +
           distance from the last "\\n", source line = the line containing p (only for texts
           whose only line break is "\\n" and 0 <= p <= len)
  model    Lean `errorContext` (request `EC`), proved total for all texts and equal to the
           specification for all "\\n"-texts (Props/C13Text.lean)

`run_text_part(out)` is meant to be called from the C13 engine; it decides nothing, it returns
what it found.  `check_case` / `replay_case` re-run one case.
"""

from __future__ import annotations

import itertools
import multiprocessing as mp
import random

from common import NCPU, run_driver, seed, use_repo
from eng_text import Exc, call, cps, enc, lf_only, random_text, spec_line_col, spec_line_of

# theorems of PestModel.Props.C13Text (for the `#print axioms` audit)
THEOREMS_TEXT = [
    "Pest.C13.error_context_total",
    "Pest.C13.error_context_total_any",
    "Pest.C13.error_context_is_linecol",
    "Pest.C13.error_context_agrees_with_position",
    "Pest.C13.error_context_sentinel",
    "Pest.LineCol.errorContext_total",
    "Pest.LineCol.errorContext_onlyLF",
]

ALPHABET = "a\n\xe9\r"          # DESIGN §6 C13: {a, \n, é, \r}
ALPHABET_WS = "a \n"            # blanks: what `.rstrip()` removes from the shown line


def show(v) -> str:
    if isinstance(v, Exc):
        return str(v)
    if (isinstance(v, tuple) and len(v) == 3 and isinstance(v[0], str)
            and isinstance(v[1], int) and isinstance(v[2], int)):
        return f"{enc(v[0])} {v[1]} {v[2]}"
    return "unexpected:" + repr(v)


def check_case(t: str, p: int):
    """None if error_context(t, p) is acceptable, else {expected, observed}.
    Any exception for -1 <= p <= len(t) is a failure, whatever the text.  On "\\n"-texts with
    0 <= p <= len(t): line and column are C14's, and the shown line is the line containing p
    up to trailing whitespace (the code strips it; an unstripped line would also be accepted)."""
    from pest.exceptions import error_context

    got = call(lambda: error_context(t, p))
    if isinstance(got, Exc):
        return {"expected": "no exception for -1 <= index <= len(text)", "observed": {"raises": str(got)}}
    if not (isinstance(got, tuple) and len(got) == 3):
        return {"expected": "(line, lineno, col)", "observed": repr(got)}
    if p < 0 or not lf_only(t):
        return None
    line, lineno, col = got
    e_line, (e_no, e_col) = spec_line_of(t, p), spec_line_col(t, p)
    ok = (lineno, col) == (e_no, e_col) and isinstance(line, str) and e_line.startswith(line) \
        and line.rstrip() == e_line.rstrip()
    if ok:
        return None
    return {"expected": {"line": e_line.rstrip(), "line_code_points": cps(e_line.rstrip()), "lineno": e_no, "col": e_col},
            "observed": {"line": line, "line_code_points": cps(line) if isinstance(line, str) else None,
                         "lineno": lineno, "col": col}}


def replay_case(payload: dict):
    use_repo()
    t = "".join(chr(c) for c in payload["text"])
    return check_case(t, payload["index"])


def signature(bad):
    """how a case fails (kept while shrinking, so that different defects stay different)"""
    if bad is None:
        return None
    o, e = bad["observed"], bad["expected"]
    if not isinstance(o, dict) or "raises" in o:
        return ("raises", str(o))
    return (o["lineno"] - e["lineno"], o["col"] - e["col"], o["line"].rstrip() == e["line"])


def shrink(t: str, p: int):
    sig = signature(check_case(t, p))
    changed = True
    while changed:
        changed = False
        for i in range(len(t)):
            t2 = t[:i] + t[i + 1 :]
            p2 = p - (1 if i < p else 0)
            if signature(check_case(t2, p2)) == sig:
                t, p, changed = t2, p2, True
                break
    return t, p


def _batch(texts):
    from pest.exceptions import error_context

    lines, answers, bads, nontriv = [], [], [], 0
    for t in texts:
        et = enc(t)
        for p in range(-1, len(t) + 1):
            lines.append(f"EC {et} {p}")
            answers.append(show(call(lambda: error_context(t, p))))
            if len(bads) < 40 and check_case(t, p) is not None:
                bads.append((t, p))
            if p > 0 and "\n" in t[:p]:
                nontriv += 1
    outs = run_driver(lines, shards=1)
    mism = [(ln, a, b) for ln, a, b in zip(lines, answers, outs) if a != b]
    return len(lines), nontriv, bads, mism[:5], len(mism)


def _exh_shard(args):
    prefix, maxlen, alphabet = args
    use_repo()
    texts = [prefix + "".join(r) for n in range(len(prefix), maxlen + 1)
             for r in itertools.product(alphabet, repeat=n - len(prefix))]
    return _batch(texts)


def _rand_shard(args):
    sd, count, maxlen = args
    use_repo()
    rng = random.Random(sd)
    texts = [random_text(rng, rng.randint(7, maxlen), i % 2 == 0) for i in range(count)]
    return _batch(texts)


def run_text_part(out) -> dict:
    """error_context vs the Lean model (`EC`) and vs C14's formula.  Returns
    {"concrete": [replay payloads], "corr": [mismatches], "evaluations", "distinct_nontrivial",
     "correspondence_mismatches", "rule", "samples", "assumptions"}; reports nothing itself."""
    use_repo()
    thorough = out.tier == "thorough"
    maxlen = 7 if thorough else 6
    nrand = 4000 if thorough else 600
    rmax = 200 if thorough else 80
    jobs = [("", 0, ALPHABET)]
    for alphabet in (ALPHABET, ALPHABET_WS):
        jobs += [(c, maxlen, alphabet) for c in alphabet]
    rjobs = [(seed() * 1000003 + 31 * i + 7, nrand // NCPU + 1, rmax) for i in range(NCPU)]
    evals = nontriv = ncorr = 0
    bads, corr = [], []
    with mp.Pool(NCPU) as pool:
        for n, nt, b, mism, nm in pool.imap_unordered(_exh_shard, jobs):
            evals += n
            nontriv += nt
            ncorr += nm
            bads += b
            corr += [{"kind": "exhaustive", "request": ln, "impl": a, "model": m} for ln, a, m in mism]
        n_exh = evals
        for n, nt, b, mism, nm in pool.imap_unordered(_rand_shard, rjobs):
            evals += n
            nontriv += nt
            ncorr += nm
            bads += b
            corr += [{"kind": "random", "request": ln, "impl": a, "model": m} for ln, a, m in mism]
    corr.sort(key=lambda c: len(c["request"]))

    concrete, seen, sigs = [], set(), set()
    for t, p in sorted(bads, key=lambda c: (len(c[0]), c[0], c[1])):
        sig = signature(check_case(t, p))
        if sig is None or sig in sigs:
            continue
        sigs.add(sig)
        t2, p2 = shrink(t, p)
        if (t2, p2) in seen:
            continue
        seen.add((t2, p2))
        concrete.append({"kind": "error_context", "text": cps(t2), "text_repr": repr(t2), "index": p2,
                         **check_case(t2, p2), "shrunk_from": {"text": cps(t), "index": p}, "seed": seed(),
                         "what": "error_context(text, index) raises, or its line:column / source line are not those of index"})
        if len(concrete) >= 3:
            break

    from pest.exceptions import error_context

    samples = [{"request": f"EC {enc(t)} {p}", "impl": show(call(lambda: error_context(t, p)))}
               for t, p in (("ab\n", 3), ("a \nb", 3), ("", 0), ("a\r\nb", -1))]
    return {
        "concrete": concrete,
        "corr": corr[:10],
        "correspondence_mismatches": ncorr,
        "reference_mismatches": len(bads),
        "evaluations": evals,
        "distinct_nontrivial": nontriv,
        "rule": f"error_context(text, p) for every text over {{a, \\n, \\xe9, \\r}} and over {{a, blank, \\n}} of length 0..{maxlen} x every "
                f"p in -1..len ({n_exh} evaluations) + {evals - n_exh} on seeded random texts of length 7..{rmax} (half \\n-only with blanks "
                "and non-ASCII, half with the other str.splitlines boundaries): no exception; equal to the Lean model; on \\n-only "
                "texts and p >= 0 equal to C14's formula.  Non-trivial = p after the first line break.",
        "samples": samples,
        "assumptions": [
            "error_context: the shown source line is the line containing p with trailing whitespace removed (str.rstrip); "
            "index -1 (no failure recorded) is only required not to raise; line:column are claimed for \\n-only texts",
        ],
    }
