"""Run every quick check against every behaviour-preserving refactoring in /verif/benign/<id>/patch.diff: each
check must exit 0 (no alarm on code where the property holds).  Patches are applied to a scratch worktree of
/repo's HEAD and the checks are pointed at it with PEST_REPO.  Usage: python harness/run_benign.py [--only ID ...] [--checks C01,C02]"""
from __future__ import annotations

import argparse
import json
import os
import shutil
import subprocess
import sys
import time
from pathlib import Path

ROOT = Path(__file__).resolve().parent.parent
ALL = [f"C{i:02d}" for i in range(1, 19)]


def sh(cmd, **kw):
    return subprocess.run(cmd, capture_output=True, text=True, **kw)


def main() -> int:
    ap = argparse.ArgumentParser()
    ap.add_argument("--only", nargs="*")
    ap.add_argument("--checks")
    a = ap.parse_args()
    checks = a.checks.split(",") if a.checks else ALL
    rows = []
    for d in sorted((ROOT / "benign").iterdir()):
        if not (d / "patch.diff").exists() or (a.only and d.name not in a.only):
            continue
        wt = Path(f"/tmp/benignrun_{d.name}_{os.getpid()}")
        sh(["git", "-C", "/repo", "worktree", "add", "-q", "--detach", str(wt), "HEAD"])
        res = {}
        try:
            ap_ = sh(["git", "-C", str(wt), "apply", "--3way", "--whitespace=nowarn", str(d / "patch.diff")])
            if ap_.returncode != 0:
                rows.append((d.name, "-", "patch does not apply: " + ap_.stderr.strip()[:160]))
                continue
            for c in checks:
                t0 = time.time()
                r = sh([str(ROOT / "check"), c, "--tier", "quick"], env={**os.environ, "PEST_REPO": str(wt)}, cwd=str(ROOT))
                viol = [ln for ln in r.stdout.splitlines() if ln.startswith("VIOLATION")]
                verdict = "quiet" if r.returncode == 0 and not viol else ("ALARM " + (viol[0] if viol else f"exit {r.returncode}"))
                res[c] = {"exit": r.returncode, "verdict": verdict, "wall_s": round(time.time() - t0, 1)}
                rows.append((d.name, c, verdict))
            (d / "last_run.json").write_text(json.dumps({"results": res, "repo_head": sh(["git", "-C", "/repo", "rev-parse", "--short", "HEAD"]).stdout.strip()}, indent=1) + "\n")
        finally:
            sh(["git", "-C", "/repo", "worktree", "remove", "--force", str(wt)])
            shutil.rmtree(wt, ignore_errors=True)
    bad = [r for r in rows if r[2] != "quiet"]
    for name, c, v in rows:
        if v != "quiet":
            print(f"{name:40s} {c:5s} {v}")
    print(f"{len(rows) - len(bad)} quiet, {len(bad)} not")
    return 0


if __name__ == "__main__":
    sys.exit(main())
