import random, sys, collections
sys.path.insert(0, "/verif/harness")
from common import run_driver
import pyside as P
import gen_grammar as G
from pest.grammar.optimizer import DEFAULT_OPTIMIZER_PASSES, Optimizer

NAMES = {"unroll": 0, "skip": 1, "inline_builtin": 2, "squash_choice": 3, "inline_silent": 4}
def mk_opt(names):
    return Optimizer([DEFAULT_OPTIMIZER_PASSES[NAMES[n]] for n in names])

def main(seed, n):
    rng = random.Random(seed)
    lines, expect, meta = [], [], []
    for i in range(n):
        gname, feats = G.FEATURE_GROUPS[i % len(G.FEATURE_GROUPS)]
        rules = G.gen_grammar(rng, feats)
        text = G.show_grammar(rules)
        p0 = P.make_parser(text, None)
        if i % 3 == 0:
            passes = list(NAMES)
        else:
            passes = [rng.choice(list(NAMES)) for _ in range(rng.choice([1, 2, 3, 5, 7]))]
        try:
            p1 = P.make_parser(text, mk_opt(passes))
            exp = P.ser_rules(p1.rules, set())
        except KeyError:
            exp = "exc KeyError"; p1 = None
        ups = set()
        gl = "G " + P.ser_rules(p0.rules, ups)
        if p1: P.ser_rules(p1.rules, ups)
        for (nm, pat) in ups:
            lines.append(P.uset_line(nm, pat)); expect.append("ok"); meta.append(None)
        lines.append(gl); expect.append("ok"); meta.append(None)
        lines.append("O " + (",".join(passes) or "-")); expect.append(exp); meta.append((gname, text, passes))
        if p1:
            gm = P.load_generated(p1.generate())
            for start in list(rules)[:3]:
                for inp in G.gen_inputs(rng, rules, start, feats, 4):
                    lines.append(f"P opt {start} 0 400 {P.enc_str(inp)}"); expect.append(P.run_parse(p1.parse, start, inp, 0)); meta.append((gname, text, passes, start, inp))
                    lines.append(f"P optgen {start} 0 400 {P.enc_str(inp)}"); expect.append(P.run_parse(gm.parse, start, inp, 0)); meta.append((gname, text, passes, start, inp))
    outs = run_driver(lines, shards=1)
    stats = collections.Counter(); shown = 0
    for l, e, o, m in zip(lines, expect, outs, meta):
        if m is None:
            if e != o: print("SETUP MISMATCH", l[:100], o)
            continue
        kind = l.split()[0] + (":" + l.split()[1] if l[0] == "P" else "")
        stats[(kind, "agree" if e == o else "DIFF")] += 1
        if e != o and shown < 6:
            shown += 1
            print("---", m[0], m[2]); print(m[1]); print(l[:80]); print(" impl :", e[:1500]); print(" model:", o[:1500])
    for k, v in sorted(stats.items()): print(k, v)
main(int(sys.argv[1]), int(sys.argv[2]))
