"""Run by eng_examples in a process of its own, under CPython's *default* recursion limit (the harness itself raises the limit):
both bundled JSON grammars, four execution modes, on documents that nest deeply but well within the default budget.
argv[1] = repository root.  Prints one JSON object: {"<grammar>|<mode>|<doc>": "ok" | "fail" | "rec" | "exc:<name>"}."""
import json
import sys
import types

repo = sys.argv[1]
sys.path.insert(0, repo + "/src")
from pest import Parser  # noqa: E402
from pest.exceptions import PestParsingError  # noqa: E402

DOCS = {}
for kind, depth, leaf in (("A", 30, "1"), ("A", 80, "1"), ("A", 80, '"a\\nb"'), ("O", 30, "1"), ("O", 60, "1"), ("O", 60, '"x"'),
                          ("AO", 60, "null"), ("A", 8, '"' + "\\n" * 140 + '"')):
    t = leaf
    for i in range(depth):
        t = "[" + t + "]" if kind == "A" or (kind == "AO" and i % 2) else '{"k":' + t + "}"
    json.loads(t)
    DOCS[f"{kind}{depth}:{leaf[:6]}"] = t

out = {}
for gname, rel in (("ex", "examples/json/json.pest"), ("test", "tests/grammars/json.pest")):
    text = open(f"{repo}/{rel}", encoding="utf-8").read()
    unopt = Parser.from_grammar(text, optimizer=None)
    opt = Parser.from_grammar(text)
    modes = {"interp": unopt.parse, "opt": opt.parse}
    for nm, p in (("gen", unopt), ("optgen", opt)):
        m = types.ModuleType("generated_" + nm)
        exec(compile(p.generate(), "<generated>", "exec"), m.__dict__)  # noqa: S102
        modes[nm] = m.parse
    for mode, parse in modes.items():
        for dn, t in DOCS.items():
            try:
                parse("json", t)
                r = "ok"
            except PestParsingError:
                r = "fail"
            except RecursionError:
                r = "rec"
            except Exception as e:  # noqa: BLE001
                r = "exc:" + type(e).__name__
            out[f"{gname}|{mode}|{dn}"] = r
print(json.dumps({"results": out, "docs": DOCS}))
