"""Entry point: ./check <ID> [--tier quick|thorough] [--replay FILE]"""

from __future__ import annotations

import argparse
import json
import os
import sys
import traceback
from pathlib import Path

sys.path.insert(0, str(Path(__file__).resolve().parent))

from common import ROOT, Outcome  # noqa: E402

ENGINES = {
    "C09": ("eng_stack", "proof"),
    "C14": ("eng_text", "proof"),
    "C18": ("eng_pratt", "proof"),
    "C15": ("eng_world", "other"),
    "C12": ("eng_charset", "proof"),
    "C10": ("eng_front", "proof"),
    "C11": ("eng_front", "proof"),
    "C17": ("eng_examples", "other"),
    "C01": ("eng_core", "proof"),
    "C02": ("eng_core", "proof"),
    "C03": ("eng_core", "proof"),
    "C04": ("eng_core", "proof"),
    "C05": ("eng_core", "proof"),
    "C06": ("eng_core", "proof"),
    "C07": ("eng_core", "proof"),
    "C08": ("eng_core", "proof"),
    "C13": ("eng_core", "proof"),
    "C16": ("eng_core", "proof"),
}


def main() -> int:
    ap = argparse.ArgumentParser()
    ap.add_argument("prop")
    ap.add_argument("--tier", default=os.environ.get("VERIF_TIER", "quick"), choices=["quick", "thorough"])
    ap.add_argument("--replay")
    a = ap.parse_args()
    if a.prop not in ENGINES:
        print(f"unknown property {a.prop}", file=sys.stderr)
        return 2
    modname, level = ENGINES[a.prop]
    out = Outcome(a.prop, a.tier, level)

    # watchdog: a check that does not finish (a lost worker result under memory pressure was seen once) must end as an
    # infrastructure error (exit 2), never hang and never be read as a verdict
    import multiprocessing
    import threading
    limit = int(os.environ.get("VERIF_WATCHDOG_S", "1800" if a.tier == "quick" else "10800"))

    def _expired():
        print(f"INFRA property={a.prop} tier={a.tier}: no result after {limit} s, giving up (exit 2)", file=sys.stderr, flush=True)
        for ch in multiprocessing.active_children():
            try:
                ch.terminate()
            except Exception:  # noqa: BLE001, S110
                pass
        os._exit(2)

    wd = threading.Timer(limit, _expired)
    wd.daemon = True
    wd.start()
    try:
        mod = __import__(modname)
        if a.replay:
            p = Path(a.replay)
            if not p.is_absolute():
                p = ROOT / p
            mod.replay(out, json.loads(p.read_text()))
        else:
            mod.run(out)
    except Exception:  # noqa: BLE001
        traceback.print_exc()
        out.infra_error = "harness crashed"
        if not out.coverage:
            out.coverage = {"explanation": "harness crashed before coverage was collected",
                            "evaluations": 1, "distinct_nontrivial": 2}
    return out.finish()


if __name__ == "__main__":
    sys.exit(main())
