"""Entry point: ./check <ID> [--tier quick|thorough] [--replay FILE]"""

from __future__ import annotations

import argparse
import json
import os
import sys
import traceback
from pathlib import Path

sys.path.insert(0, str(Path(__file__).resolve().parent))

from common import ROOT, Outcome  # noqa: E402

ENGINES = {
    "C09": ("eng_stack", "proof"),
    "C14": ("eng_text", "proof"),
    "C18": ("eng_pratt", "proof"),
    "C15": ("eng_world", "other"),
    "C12": ("eng_charset", "proof"),
    "C10": ("eng_front", "proof"),
    "C11": ("eng_front", "proof"),
    "C17": ("eng_examples", "proof"),
    "C01": ("eng_core", "proof"),
    "C02": ("eng_core", "proof"),
    "C03": ("eng_core", "proof"),
    "C04": ("eng_core", "proof"),
    "C05": ("eng_core", "proof"),
    "C06": ("eng_core", "proof"),
    "C07": ("eng_core", "proof"),
    "C08": ("eng_core", "proof"),
    "C13": ("eng_core", "proof"),
    "C16": ("eng_core", "proof"),
}


def run_demo_oracles(out: Outcome, prop: str) -> None:
    """Thorough tier: the demo programs kept with the seeded changes (seeded/<id>/demo.py) each check the property's own
    wording against a reference written by someone who saw only the property text (small reference PEG evaluators,
    explicit-trivia grammars, full-copy stacks, json.loads …).  They print PASS on a tree where the property holds; here they
    are run on the current tree as additional, independently written oracles.  A FAIL is reported with the demo's output."""
    import subprocess

    from common import REPO
    n = 0
    for d in sorted((ROOT / "seeded").iterdir()):
        meta_f, demo = d / "meta.json", d / "demo.py"
        if not (meta_f.exists() and demo.exists()):
            continue
        try:
            meta = json.loads(meta_f.read_text())
        except ValueError:
            continue
        if meta.get("property") != prop:
            continue
        try:
            r = subprocess.run(["/venv/bin/python", str(demo)], cwd=str(REPO), capture_output=True, text=True, timeout=600,
                               env={**os.environ, "PYTHONPATH": str(REPO / "src")})
        except subprocess.TimeoutExpired:
            continue
        n += 1
        if r.returncode == 1 and "FAIL" in r.stdout:
            out.violation({"kind": "demo-oracle", "demo": str(demo.relative_to(ROOT)), "what": "an independently written oracle for this property fails on the current tree",
                           "output_tail": r.stdout[-3000:], "command": f"PYTHONPATH=<repo>/src /venv/bin/python {demo.relative_to(ROOT)}"})
    if isinstance(out.coverage, dict):
        out.coverage["demo_oracles_run"] = n


def _tree_lock():
    """a shared lock on .work/tree.lock while its content names this run's tree; changing the content needs the exclusive lock.
    Returns the open file (the lock lives as long as the process)."""
    import fcntl
    import time
    work = ROOT / ".work"
    work.mkdir(exist_ok=True)
    mine = os.path.realpath(os.environ.get("PEST_REPO", "/repo"))
    path = work / "tree.lock"
    path.touch(exist_ok=True)
    t0 = time.time()
    while True:
        fh = open(path, "r+")  # noqa: SIM115
        fcntl.flock(fh, fcntl.LOCK_SH)
        if fh.read().strip() == mine:
            return fh
        fcntl.flock(fh, fcntl.LOCK_UN)
        try:
            fcntl.flock(fh, fcntl.LOCK_EX | fcntl.LOCK_NB)
        except OSError:
            fh.close()
            if time.time() - t0 > 7200:
                print("INFRA: another run on a different tree held lean/PestModel/Generated for two hours (exit 2)", file=sys.stderr, flush=True)
                os._exit(2)
            time.sleep(0.5 + (os.getpid() % 7) / 10)
            continue
        fh.seek(0)
        fh.truncate()
        fh.write(mine)
        fh.flush()
        fcntl.flock(fh, fcntl.LOCK_SH)       # not atomic: the content is read again at the top of the loop
        fh.close()


def main() -> int:
    import faulthandler
    import signal as _sig
    faulthandler.register(_sig.SIGUSR1, all_threads=True)     # kill -USR1 <pid> prints where a stuck check is
    ap = argparse.ArgumentParser()
    ap.add_argument("prop")
    ap.add_argument("--tier", default=os.environ.get("VERIF_TIER", "quick"), choices=["quick", "thorough"])
    ap.add_argument("--replay")
    a = ap.parse_args()
    if a.prop not in ENGINES:
        print(f"unknown property {a.prop}", file=sys.stderr)
        return 2
    modname, level = ENGINES[a.prop]
    out = Outcome(a.prop, a.tier, level)

    # watchdog: a check that does not finish (a lost worker result under memory pressure was seen once) must end as an
    # infrastructure error (exit 2), never hang and never be read as a verdict
    import multiprocessing
    import threading
    limit = int(os.environ.get("VERIF_WATCHDOG_S", "1800" if a.tier == "quick" else "10800"))

    def _expired():
        print(f"INFRA property={a.prop} tier={a.tier}: no result after {limit} s, giving up (exit 2)", file=sys.stderr, flush=True)
        for ch in multiprocessing.active_children():
            try:
                ch.terminate()
            except Exception:  # noqa: BLE001, S110
                pass
        os._exit(2)

    # the tables under lean/PestModel/Generated and the driver built from them are regenerated from the tree a run looks at:
    # runs on the same tree may overlap, runs on different trees (PEST_REPO pointing at scratch worktrees) take turns
    tree_lock = _tree_lock()
    wd = threading.Timer(limit, _expired)
    wd.daemon = True
    wd.start()
    try:
        mod = __import__(modname)
        if a.replay:
            p = Path(a.replay)
            if not p.is_absolute():
                p = ROOT / p
            mod.replay(out, json.loads(p.read_text()))
        else:
            mod.run(out)
        if a.tier == "thorough" and not a.replay:
            run_demo_oracles(out, a.prop)
    except Exception:  # noqa: BLE001
        traceback.print_exc()
        out.infra_error = "harness crashed"
        if not out.coverage:
            out.coverage = {"explanation": "harness crashed before coverage was collected",
                            "evaluations": 1, "distinct_nontrivial": 2}
    return out.finish()


if __name__ == "__main__":
    sys.exit(main())
