"""C14 — Position / Span / Pair line and column utilities (src/pest/pairs.py).

Three opinions on every (text, offset) and (text, start, end):
  impl     the real classes from /repo/src (pest.pairs.Position, Span, Pair)
  formula  the property's own wording, computed here with str.count / rfind / find
           (only for texts whose only line break is "\\n": the property's domain)
  model    the Lean model (proved equal to the Lean specification for *all* "\\n"-texts and
           offsets, and total for all texts); request `SP` returns the Lean *specification*
           itself, which is compared with the formula so that the two readings stay tied
impl vs formula is the direct failing-input search; impl vs model is the correspondence check.
"""

from __future__ import annotations

import itertools
import multiprocessing as mp
import random

from common import NCPU, Outcome, proof_coverage, proof_stage, run_driver, seed, use_repo

THEOREMS = [
    "Pest.C14.line_col_spec",
    "Pest.C14.line_col_total",
    "Pest.C14.spec_zero",
    "Pest.C14.spec_step",
    "Pest.C14.line_col_injective",
    "Pest.C14.py_line_col_injective",
    "Pest.C14.spec_bounds",
    "Pest.C14.pair_line_col",
    "Pest.C14.line_of_spec",
    "Pest.C14.line_of_is_nth_line",
    "Pest.C14.line_of_total",
    "Pest.C14.span_lines_spec",
    "Pest.C14.span_lines_get",
    "Pest.C14.span_lines_touch",
    "Pest.C14.spec_lines_partition",
    "Pest.C14.span_str",
    "Pest.C14.span_str_get",
    "Pest.C14.span_str_length",
    "Pest.LineCol.findLine_spec",
    "Pest.LineCol.findLine_top",
    "Pest.LineCol.splitlines_onlyLF",
    "Pest.LineCol.endsOnNewLine_onlyLF",
    "Pest.LineCol.pyLineCol_onlyLF",
]

ALPHABET = "ab\n"
ALPHABET2 = "a\n\r\u2028"     # second exhaustive space: other str.splitlines boundaries (model vs code only)
# str.splitlines boundaries other than "\n", blanks, non-ASCII (BMP and astral)
OTHER = ["\r", "\r\n", "\x0b", "\x0c", "\x1c", "\x1d", "\x1e", "\x85", "\u2028", "\u2029"]
PLAIN = ["a", "b", " ", "\t", "\xe9", "\xa0", "\u6f22", "\U0001F600"]


# ---------------------------------------------------------------- encoding (shared with DrvText.lean)

def enc(t: str) -> str:
    return ".".join(str(ord(c)) for c in t) if t else "-"


def enc_lines(ls) -> str:
    return "|".join(enc(l) for l in ls) if ls else "[]"


def cps(t: str) -> list[int]:
    return [ord(c) for c in t]


class Exc(str):
    """the name of a raised exception (kept apart from ordinary str results)"""


def call(f):
    """value of f(), or the name of the exception it raises"""
    try:
        return f()
    except Exception as e:  # noqa: BLE001
        return Exc(type(e).__name__)


def show_lc(v) -> str:
    if isinstance(v, tuple) and len(v) == 2 and all(isinstance(x, int) for x in v):
        return f"{v[0]} {v[1]}"
    return str(v) if isinstance(v, Exc) else "unexpected:" + repr(v)


def show_text(v) -> str:
    if isinstance(v, Exc):
        return str(v)
    return enc(v) if isinstance(v, str) else "unexpected:" + repr(v)


def show_lines(v) -> str:
    if isinstance(v, list) and all(isinstance(x, str) for x in v):
        return enc_lines(v)
    return str(v) if isinstance(v, Exc) else "unexpected:" + repr(v)


# ---------------------------------------------------------------- the property's formula ("\n"-texts)

def spec_line_col(t: str, p: int) -> tuple[int, int]:
    return 1 + t.count("\n", 0, p), p - (t.rfind("\n", 0, p) + 1) + 1


def spec_line_of(t: str, p: int) -> str:
    s = t.rfind("\n", 0, p) + 1
    e = t.find("\n", p)
    return t[s:] if e < 0 else t[s : e + 1]


def spec_all_lines(t: str) -> list[str]:
    out, s = [], 0
    while s < len(t):
        e = t.find("\n", s)
        if e < 0:
            out.append(t[s:])
            break
        out.append(t[s : e + 1])
        s = e + 1
    return out


def spec_span_lines(t: str, a: int, b: int) -> list[str]:
    """the lines on which some offset of the closed interval [a, b] lies"""
    ls = spec_all_lines(t)
    touched = sorted({t.count("\n", 0, p) for p in range(a, b + 1)})
    return [ls[i] for i in touched if i < len(ls)]


BREAKS_NOT_LF = "\r\x0b\x0c\x1c\x1d\x1e\x85\u2028\u2029"


def lf_only(t: str) -> bool:
    """no str.splitlines boundary other than "\\n" occurs (the property's domain)"""
    return not any(c in BREAKS_NOT_LF for c in t)


# ---------------------------------------------------------------- one case, by kind (search, shrink, replay)

def _frame():
    from pest.state import RuleFrame

    return RuleFrame("r", 0)


def check_case(kind: str, t: str, a: int, b: int):
    """None if the real code satisfies the property at this case, else {expected, observed}."""
    from pest.pairs import Pair, Position, Span

    if kind == "line_col":
        exp, got = spec_line_col(t, a), call(lambda: Position(t, a).line_col())
    elif kind == "line_of":
        exp, got = spec_line_of(t, a), call(lambda: Position(t, a).line_of())
    elif kind == "pair_line_col":
        exp, got = spec_line_col(t, a), call(lambda: Pair(t, a, b, _frame()).line_col())
    elif kind == "span_lines":
        exp, got = spec_span_lines(t, a, b), call(lambda: Span(t, a, b).lines())
    elif kind == "span_str":
        exp = (t[a:b], t[a:b])
        got = call(lambda: (str(Span(t, a, b)), Span(t, a, b).as_str()))
    elif kind == "span_pos":
        exp = ((t, a), (t, b), ((t, a), (t, b)), spec_line_col(t, a), spec_line_col(t, b))

        def f():
            sp = Span(t, a, b)
            s, e = sp.start_pos(), sp.end_pos()
            x, y = sp.split()
            return (tuple(s), tuple(e), (tuple(x), tuple(y)), s.line_col(), e.line_col())

        got = call(f)
    elif kind == "pair_span":
        # the span a pair hands out (the usual way to get one): every utility of it and of its two positions
        exp = (spec_span_lines(t, a, b), t[a:b], spec_line_col(t, a), spec_line_col(t, b), spec_line_of(t, a), spec_line_of(t, b),
               (a, b), (spec_line_col(t, a), spec_line_col(t, b)))

        def g():
            sp = Pair(t, a, b, _frame()).span()
            s, e = sp.start_pos(), sp.end_pos()
            x, y = sp.split()
            return (sp.lines(), str(sp), s.line_col(), e.line_col(), s.line_of(), e.line_of(), (sp.start, sp.end), (x.line_col(), y.line_col()))

        got = call(g)
    elif kind == "parsed_pairs":
        # pairs as a parser hands them out (interpreter: b = 0, generated module: b = 1): their offsets and every utility are about
        # the text that was passed to parse()
        exp = "every pair consistent with the text passed to parse()"
        got = call(lambda: _parsed_pairs_defect(t, b)) or exp
    elif kind == "injective":
        # two different offsets must not share (line, column)
        exp = "different (line, column)"
        x, y = call(lambda: Position(t, a).line_col()), call(lambda: Position(t, b).line_col())
        got = exp if (a == b or x != y) else f"both {x}"
    else:
        raise ValueError(kind)
    if got == exp:
        return None
    return {"expected": _jsonable(exp), "observed": _jsonable(got)}


_LINES_GRAMMAR = 'doc = { SOI ~ line* ~ EOI }\nline = { (!"\\n" ~ ANY)+ ~ "\\n"? | "\\n" }\n'
_LINES_PARSE: dict = {}


def _parsed_pairs_defect(t: str, generated: int):
    import types

    from pest import Parser
    if not _LINES_PARSE:
        p = Parser.from_grammar(_LINES_GRAMMAR)
        m = types.ModuleType("generated_lines")
        exec(compile(p.generate(), "<generated>", "exec"), m.__dict__)  # noqa: S102
        _LINES_PARSE[0], _LINES_PARSE[1] = p.parse, m.parse
    pairs = list(_LINES_PARSE[generated]("doc", t).flatten())
    lines_seen = [p for p in pairs if p.name == "line"]
    if "".join(t[p.start : p.end] for p in lines_seen) != t:
        return f"the line pairs {[(p.start, p.end) for p in lines_seen]} do not tile the text"
    for p in pairs:
        a, b = p.start, p.end
        sp = p.span()
        obs = (str(p), p.line_col(), str(sp), sp.lines(), sp.start_pos().line_col(), sp.end_pos().line_col(), sp.end_pos().line_of())
        exp = (t[a:b], spec_line_col(t, a), t[a:b], spec_span_lines(t, a, b), spec_line_col(t, a), spec_line_col(t, b), spec_line_of(t, b))
        if obs != exp:
            i = next(i for i in range(len(obs)) if obs[i] != exp[i])
            what = ["str(pair)", "pair.line_col()", "str(span)", "span.lines()", "start_pos().line_col()", "end_pos().line_col()", "end_pos().line_of()"][i]
            return f"{p.name}[{a}:{b}] {what}: observed {obs[i]!r}, by the text passed to parse() {exp[i]!r}"
    return None


def _jsonable(v):
    if isinstance(v, Exc):
        return {"raises": str(v)}
    if isinstance(v, str):
        return {"str": v, "code_points": cps(v)}
    if isinstance(v, (tuple, list)):
        return [_jsonable(x) for x in v]
    return v


def signature(bad):
    """how a case fails: by raising, or with a wrong value (kept while shrinking, so that
    different defects of the same method stay different)"""
    if bad is None:
        return None
    o = bad["observed"]
    return o["raises"] if isinstance(o, dict) and "raises" in o else "value"


def shrink(kind: str, t: str, a: int, b: int):
    """delete characters while the case keeps failing in the same way"""
    sig = signature(check_case(kind, t, a, b))
    changed = True
    while changed:
        changed = False
        for i in range(len(t)):
            t2 = t[:i] + t[i + 1 :]
            a2 = a - (1 if i < a else 0)
            b2 = b - (1 if i < b else 0)
            if kind in ("line_col", "line_of"):
                b2 = a2
            if signature(check_case(kind, t2, a2, b2)) == sig:
                t, a, b, changed = t2, a2, b2, True
                break
    return t, a, b


# ---------------------------------------------------------------- evaluation of one text

def eval_text(t: str, spans, direct: bool):
    """requests for the Lean driver, the real code's answers, and (direct=True) the cases in
    which the real code differs from the formula."""
    from pest.pairs import Pair, Position, Span

    et, n = enc(t), len(t)
    reqs, ans, bads = [], [], []
    frame = _frame()
    seen = {}
    for p in range(n + 1):
        lc = call(lambda: Position(t, p).line_col())
        lo = call(lambda: Position(t, p).line_of())
        plc = call(lambda: Pair(t, p, n, frame).line_col())
        reqs += [f"L {et} {p}", f"LO {et} {p}", f"L {et} {p}"]
        ans += [show_lc(lc), show_text(lo), show_lc(plc)]
        if direct:
            e_lc, e_lo = spec_line_col(t, p), spec_line_of(t, p)
            reqs.append(f"SP {et} {p}")
            ans.append(f"{e_lc[0]} {e_lc[1]} {enc(e_lo)}")
            if lc != e_lc:
                bads.append(("line_col", t, p, p))
            if lo != e_lo:
                bads.append(("line_of", t, p, p))
            if plc != e_lc:
                bads.append(("pair_line_col", t, p, n))
            key = lc if isinstance(lc, tuple) else None
            if key is not None:
                if key in seen:
                    bads.append(("injective", t, seen[key], p))
                seen[key] = p
    if direct:
        cnt = [t.count("\n", 0, p) for p in range(n + 1)]
        all_lines = spec_all_lines(t)
    for a, b in spans:
        sp = Span(t, a, b)
        ls = call(sp.lines)
        st = call(lambda: str(sp))
        reqs += [f"LS {et} {a} {b}", f"SS {et} {a} {b}"]
        ans += [show_lines(ls), show_text(st)]
        if direct:
            touched = sorted(set(cnt[a : b + 1]))
            if ls != [all_lines[i] for i in touched if i < len(all_lines)]:
                bads.append(("span_lines", t, a, b))
            if st != t[a:b]:
                bads.append(("span_str", t, a, b))
            if check_case("span_pos", t, a, b) is not None:
                bads.append(("span_pos", t, a, b))
            if check_case("pair_span", t, a, b) is not None:
                bads.append(("pair_span", t, a, b))
    if direct:
        # second pass: the utilities are functions of (text, offset) — asking again after the
        # Span calls above (on an equal text value) must give the same answers
        for p in range(n + 1):
            t_eq = "".join(list(t))                       # an equal but distinct str object
            lc2 = call(lambda: Position(t_eq, p).line_col())
            lo2 = call(lambda: Position(t_eq, p).line_of())
            if lc2 != spec_line_col(t, p):
                bads.append(("line_col_after_lines", t, p, p))
            if lo2 != spec_line_of(t, p):
                bads.append(("line_of_after_lines", t, p, p))
    return reqs, ans, bads


def all_spans(n: int):
    return [(a, b) for a in range(n + 1) for b in range(a, n + 1)]


def _nontrivial(t: str, spans) -> int:
    """offsets beyond the first line break + spans that contain a line break"""
    k = t.find("\n")
    if k < 0:
        return 0
    return (len(t) - k) + sum(1 for a, b in spans if "\n" in t[a:b])


def _run_batch(texts_spans, direct: bool):
    lines, answers, bads, nontriv, evals = [], [], [], 0, 0
    for t, spans in texts_spans:
        r, a, b = eval_text(t, spans, direct)
        lines += r
        answers += a
        if len(bads) < 40:
            bads += b[:8]
        nontriv += _nontrivial(t, spans)
        evals += (len(t) + 1) + len(spans)
    outs = run_driver(lines, shards=1)
    mism = [(ln, a, b) for ln, a, b in zip(lines, answers, outs) if a != b]
    return evals, len(lines), nontriv, bads, mism[:5], len(mism)


def _exh_shard(args):
    prefix, maxlen, alphabet = args
    use_repo()
    todo = []
    for n in range(len(prefix), maxlen + 1):
        for rest in itertools.product(alphabet, repeat=n - len(prefix)):
            t = prefix + "".join(rest)
            todo.append((t, all_spans(n)))
    # the formula is only claimed for "\n"-texts; on the others the code is compared with the model
    return _run_batch(todo, alphabet == ALPHABET)


def random_text(rng: random.Random, n: int, only_lf: bool) -> str:
    out = []
    w_nl = rng.choice([1, 2, 4])
    for _ in range(n):
        r = rng.random()
        if r < 0.1 * w_nl:
            out.append("\n")
        elif r < 0.1 * w_nl + 0.12 and not only_lf:
            out.append(rng.choice(OTHER))
        else:
            out.append(rng.choice(PLAIN))
    return "".join(out)


def _rand_shard(args):
    sd, count, maxlen = args
    use_repo()
    rng = random.Random(sd)
    res = [0, 0, 0, [], [], 0]
    for only in (True, False):
        todo = []
        for _ in range(count // 2):
            t = random_text(rng, rng.randint(8, maxlen), only)
            n = len(t)
            spans = [(a, rng.randint(a, n)) for a in (rng.randint(0, n) for _ in range(12))]
            spans += [(0, n), (n, n), (0, 0)]
            todo.append((t, spans))
        ev, nl, nt, bads, mism, nm = _run_batch(todo, only)
        res[0] += ev
        res[1] += nl
        res[2] += nt
        res[3] += bads
        res[4] += mism
        res[5] += nm
    return tuple(res)


# ---------------------------------------------------------------- main

def history_case(t: str):
    """run the engine's whole call sequence for one text (all offsets, all spans, second pass) and
    report the first answer that differs from the formula: for failures that need earlier calls"""
    _, _, bads = eval_text(t, all_spans(len(t)), True)
    if not bads:
        return None
    k, _, a, b = bads[0]
    return {"history_dependent": True, "first_failing_call": k, "offsets": [a, b],
            "observed": "differs from the formula only after earlier Position/Span calls on an equal text",
            "history": "for p in 0..len: line_col, line_of, Pair.line_col; for all a<=b: Span.lines, str, start/end_pos; then line_col/line_of again"}


def replay(out: Outcome, payload: dict) -> None:
    use_repo()
    t = "".join(chr(c) for c in payload["text"])
    if payload.get("history_dependent"):
        bad = history_case(t)
    else:
        bad = check_case(payload["kind"], t, payload["a"], payload["b"])
    out.coverage = {"explanation": "replay of one (text, offsets) case", "evaluations": 1,
                    "distinct_nontrivial": 2, "samples": [{k: payload[k] for k in ("kind", "text", "a", "b")}]}
    if bad:
        out.violation({**{k: payload[k] for k in ("kind", "text", "a", "b")}, **bad,
                       "command": "./check C14 --replay <this file>"})


def run(out: Outcome) -> None:
    use_repo()
    thorough = out.tier == "thorough"
    info = proof_stage(out, "C14", THEOREMS)
    if not info.get("driver_ok"):
        out.infra_error = "Lean driver does not build: " + "; ".join(info.get("broken", []))[:400]
        return

    concrete: list[tuple] = []     # (kind, text, a, b): real code differs from the formula
    corr: list[dict] = []          # real code differs from the Lean model (or Lean spec from the formula)
    evals = requests = nontriv = ncorr = 0

    maxlen = 9 if thorough else 7
    pre = 3 if thorough else 2
    nrand = 8000 if thorough else 800
    rmax = 300 if thorough else 120
    # one job per prefix of length `pre`; the texts shorter than that are jobs of their own
    jobs = [("".join(p), k, ALPHABET) for k in range(pre) for p in itertools.product(ALPHABET, repeat=k)]
    jobs += [("".join(p), maxlen, ALPHABET) for p in itertools.product(ALPHABET, repeat=pre)]
    maxlen2 = 6 if thorough else 5
    jobs2 = [("", 0, ALPHABET2)] + [(c, maxlen2, ALPHABET2) for c in ALPHABET2]
    rjobs = [(seed() * 1000003 + 17 * i + 5, nrand // NCPU + 1, rmax) for i in range(NCPU)]
    with mp.Pool(NCPU) as pool:
        for ev, nl, nt, bads, mism, nm in pool.imap_unordered(_exh_shard, jobs):
            evals += ev
            requests += nl
            nontriv += nt
            ncorr += nm
            concrete += bads
            corr += [{"kind": "exhaustive", "request": ln, "impl": a, "model": b} for ln, a, b in mism]
        n_exh = evals
        for ev, nl, nt, bads, mism, nm in pool.imap_unordered(_exh_shard, jobs2):
            evals += ev
            requests += nl
            nontriv += nt
            ncorr += nm
            corr += [{"kind": "exhaustive-other-boundaries", "request": ln, "impl": a, "model": b} for ln, a, b in mism]
        n_exh2 = evals - n_exh
        for ev, nl, nt, bads, mism, nm in pool.imap_unordered(_rand_shard, rjobs):
            evals += ev
            requests += nl
            nontriv += nt
            ncorr += nm
            concrete += bads
            corr += [{"kind": "random", "request": ln, "impl": a, "model": b} for ln, a, b in mism]

    # pairs handed out by a parser (both execution modes) on short texts, plain and behind characters a text may start with
    for pre_ in ("", "\ufeff", "\ufeff\n", "\u00a0", "\x00", " \n"):
        for k_ in range(5 if thorough else 4):
            for body_ in itertools.product("a\n", repeat=k_):
                t_ = pre_ + "".join(body_)
                for g_ in (0, 1):
                    evals += 1
                    if check_case("parsed_pairs", t_, 0, g_) is not None:
                        concrete.append(("parsed_pairs", t_, 0, g_))
    samples = []
    for t in ("ab\nb\n", "a\n\nb"):
        r, a, _ = eval_text(t, [(1, len(t))], True)
        samples += [{"request": x, "impl": y} for x, y in list(zip(r, a))[-6:]]

    # ---- verdict (DESIGN §5)
    by_kind: dict[tuple, tuple] = {}
    hist: dict[str, tuple] = {}
    for c in sorted(set(concrete), key=lambda c: (len(c[1]), c[1], c[2], c[3])):
        iso = None if c[0].endswith("_after_lines") else check_case(*c)
        sig = signature(iso)
        if sig is not None:
            by_kind.setdefault((c[0], sig), c)
        else:
            hist.setdefault(c[0], c)        # fails only within the engine's call sequence
    reported = set()
    if not by_kind:
        for kind, (_, t, a, b) in sorted(hist.items())[:2]:
            # shrink the text while the whole call sequence still shows a failure
            changed = True
            while changed:
                changed = False
                for i in range(len(t)):
                    t2 = t[:i] + t[i + 1 :]
                    if history_case(t2) is not None:
                        t, changed = t2, True
                        break
            bad = history_case(t)
            if bad is None:
                continue
            reported.add((kind, t, a, b))
            out.violation({"kind": kind, "text": cps(t), "text_repr": repr(t), "a": a, "b": b, **bad, "seed": seed(),
                           "command": "./check C14 --replay <this file>",
                           "what": "a Position/Span utility gives an answer that differs from the property's formula "
                                   "depending on earlier calls on an equal text"})
    for (kind, _), (_, t, a, b) in sorted(by_kind.items()):
        t2, a2, b2 = shrink(kind, t, a, b)
        if (kind, t2, a2, b2) in reported:
            continue
        reported.add((kind, t2, a2, b2))
        bad = check_case(kind, t2, a2, b2)
        if bad is None:
            t2, a2, b2 = t, a, b
            bad = check_case(kind, t, a, b)
        if bad is None:
            # not reproducible as a single call: the answer depends on earlier calls on an equal text
            bad = history_case(t)
            if bad is None:
                continue
        out.violation({"kind": kind, "text": cps(t2), "text_repr": repr(t2), "a": a2, "b": b2, **bad,
                       "shrunk_from": {"text": cps(t), "a": a, "b": b}, "seed": seed(),
                       "command": "./check C14 --replay <this file>",
                       "what": "implementation differs from the property's formula "
                               "(1 + number of \\n before p, 1 + distance from the last \\n; lines touched; text[a:b])"})
    corr.sort(key=lambda c: len(c["request"]))
    if not reported:
        if corr:
            out.unproved({"broken": "correspondence " + corr[0]["request"], "model_answer": corr[0]["model"],
                          "code_answer": corr[0]["impl"], "more": corr[1:5],
                          "searched": {"cases": evals, "note": "implementation agreed with the property's formula on all \\n-only texts"}})
        elif info["broken"]:
            out.unproved({"broken": "theorem " + "; ".join(info["broken"])[:1500],
                          "searched": {"cases": evals, "note": "implementation agreed with the formula and with the model"}})

    out.coverage = {
        **proof_coverage(info, "C14"),
        "evaluations": evals,
        "driver_requests": requests,
        "distinct_nontrivial": nontriv,
        "rule": f"every text over {{a, b, \\n}} of length 0..{maxlen} ({sum(3 ** k for k in range(maxlen + 1))} texts) x every offset "
                f"0..len (line_col, line_of, Pair.line_col, Lean spec vs formula) and every 0 <= a <= b <= len (Span.lines, str, "
                f"start_pos/end_pos/split): {n_exh} evaluations; every text over {{a, \\n, \\r, U+2028}} of length 0..{maxlen2} against the "
                f"model: {n_exh2} evaluations; {evals - n_exh - n_exh2} more on seeded random texts of length 8..{rmax}, half of "
                "them \\n-only with blanks and non-ASCII (formula + model), half with \\r, \\r\\n, \\x0b, \\x0c, \\x1c-\\x1e, \\x85, "
                "U+2028, U+2029 (model only).  Non-trivial = an offset after the first line break, or a span containing one.",
        "exhaustive": True,
        "samples": samples,
        "correspondence_mismatches": ncorr,
        "reference_mismatches": len(concrete),
    }
    out.assumptions = [
        "offsets are code-point offsets with 0 <= p <= len(text) and 0 <= start <= end <= len(text); behaviour outside is not constrained",
        "the line/column formula is claimed for texts whose only str.splitlines boundary is \\n; for the other boundaries the "
        "theorems claim totality only, and the check compares the code with the model",
        "'lines the span touches' = lines on which some offset of the closed interval [start, end] lies (pest's Span::lines); "
        "a line break belongs to the line it ends; the empty line after a trailing line break is not returned by lines() "
        "and is '' for line_of()",
        "line_of() returns the line with its line break, like Span.lines()",
    ]
