import random, sys, collections
sys.path.insert(0, "/verif/harness")
from common import run_driver
import pyside as P
import gen_grammar as G

def main(seed, n, layer="interp"):
    rng = random.Random(seed)
    lines, expect, meta = [], [], []
    for i in range(n):
        gname, feats = G.FEATURE_GROUPS[i % len(G.FEATURE_GROUPS)]
        rules = G.gen_grammar(rng, feats)
        text = G.show_grammar(rules)
        try:
            p = P.make_parser(text, None)
        except Exception as e:
            print("LOAD-EXC", type(e).__name__, e, "\n", text); continue
        gm = P.load_generated(p.generate()) if layer != "interp" else None
        ups = set()
        gl = "G " + P.ser_rules(p.rules, ups)
        for (nm, pat) in ups:
            lines.append(P.uset_line(nm, pat)); expect.append("ok"); meta.append(None)
        lines.append(gl); expect.append("ok"); meta.append(None)
        for start in list(rules)[:3]:
            for inp in G.gen_inputs(rng, rules, start, feats, 6):
                k = 0
                lines.append(f"P {layer} {start} {k} 400 {P.enc_str(inp)}")
                expect.append(P.run_parse(p.parse if layer == "interp" else gm.parse, start, inp, k))
                meta.append((gname, text, start, inp))
    outs = run_driver(lines, shards=1)
    stats = collections.Counter()
    shown = 0
    for l, e, o, m in zip(lines, expect, outs, meta):
        if m is None:
            if e != o: print("SETUP MISMATCH", l[:100], o)
            continue
        stats[(m[0], e.split()[0], "agree" if e == o else "DIFF")] += 1
        if e != o and shown < 8:
            shown += 1
            print("---", m[0]); print(m[1]); print("start", m[2], "input", repr(m[3])); print(" impl :", e); print(" model:", o)
    for k, v in sorted(stats.items()): print(k, v)

main(int(sys.argv[1]), int(sys.argv[2]), *(sys.argv[3:]))
