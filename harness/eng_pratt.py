"""C18 — PrattParser.parse_expr honours declared precedence and associativity.

Three opinions on every (operator table, token stream):
  impl   the real `pest.pratt.PrattParser` from /repo/src (a subclass created per table whose
         four hooks build tuples), run on a real `Stream` of real `Pair` objects
  spec   the specification written here once more, independently of the Lean text and of the
         Pratt algorithm: a `Lex`/`Good` checker on the returned tree (binding powers, a local
         condition at every node), a shunting-yard builder of the tree the binding powers
         demand, and — on small streams — plain enumeration of *all* trees over the tokens
  model  the Lean model `Pest.Pratt.parseExpr` (proved, for all tables and streams, to consume
         every well-formed stream and to return the one and only `Lex ∧ Good` tree over it)
         and the Lean enumerate-and-filter `reference`
impl vs spec is the direct failing-input search (well-formed streams: the property's scope);
impl vs model is the correspondence check (well-formed *and* ill-formed streams: returned tree,
number of pairs left in the stream, SyntaxError).
"""

from __future__ import annotations

import hashlib
import multiprocessing as mp
import random
import signal
from functools import lru_cache

from common import NCPU, Outcome, proof_coverage, proof_stage, run_driver, seed, use_repo

THEOREMS = [
    "Pest.C18.pratt_consumes_all",
    "Pest.C18.pratt_yield",
    "Pest.C18.pratt_lex",
    "Pest.C18.pratt_good",
    "Pest.C18.pratt_complete",
    "Pest.C18.good_unique",
    "Pest.C18.pratt_spec",
    "Pest.C18.wf_iff_yield",
    "Pest.C18.pratt_accepts_iff",
    "Pest.C18.pratt_total",
    "Pest.C18.pratt_fuel_irrelevant",
    "Pest.C18.mem_reference",
    "Pest.C18.reference_eq",
    "Pest.C18.reference_ill_formed",
    "Pest.C18.infix_pair",
    "Pest.C18.prefix_vs_postfix",
    "Pest.C18.infix_vs_postfix",
    "Pest.C18.prefix_vs_infix",
    "Pest.Pratt.expr_post",
    "Pest.Pratt.expr_wf",
    "Pest.Pratt.expr_no_fuel",
    "Pest.Pratt.expr_complete",
]

# A table is {"pre": {name: prec}, "post": {name: prec}, "inf": {name: [prec, right_assoc]}}.
# A tree is a primary's name, ("pre", op, t), ("post", t, op) or ("bin", l, op, r).


# ---------------------------------------------------------------- encoding

def enc_table(tbl: dict) -> str:
    pre = ",".join(f"{k}={v}" for k, v in tbl["pre"].items())
    post = ",".join(f"{k}={v}" for k, v in tbl["post"].items())
    inf = ",".join(f"{k}={p}{'R' if ra else 'L'}" for k, (p, ra) in tbl["inf"].items())
    return f"pre:{pre};post:{post};inf:{inf}"


def show(t) -> str:
    """canonical s-expression, same as DrvPratt.showTree (iterative: trees can be deep)"""
    out: list[str] = []
    stack: list = [t]
    while stack:
        x = stack.pop()
        if isinstance(x, str):
            out.append(x)
        elif x[0] == "pre":
            out.append("(pre " + x[1] + " ")
            stack.append(")")
            stack.append(x[2])
        elif x[0] == "post":
            out.append("(post ")
            stack.append(" " + x[2] + ")")
            stack.append(x[1])
        else:
            out.append("(bin ")
            stack.append(")")
            stack.append(x[3])
            stack.append(" " + x[2] + " ")
            stack.append(x[1])
    return "".join(out)


# ---------------------------------------------------------------- impl

def make_parser(tbl: dict):
    """a real PrattParser subclass for this table; hooks build tuples (and check what they get)"""
    from pest.pairs import Pair
    from pest.pratt import PrattParser

    def parse_primary(self, pair):
        assert isinstance(pair, Pair)
        return pair.name

    def parse_prefix(self, op, rhs):
        assert isinstance(op, Pair)
        return ("pre", op.name, rhs)

    def parse_postfix(self, lhs, op):
        assert isinstance(op, Pair)
        return ("post", lhs, op.name)

    def parse_infix(self, lhs, op, rhs):
        assert isinstance(op, Pair)
        return ("bin", lhs, op.name, rhs)

    ns = {
        "PREFIX_OPS": dict(tbl["pre"]),
        "POSTFIX_OPS": dict(tbl["post"]),
        "INFIX_OPS": {k: (int(p), bool(ra)) for k, (p, ra) in tbl["inf"].items()},
        "parse_primary": parse_primary,
        "parse_prefix": parse_prefix,
        "parse_postfix": parse_postfix,
        "parse_infix": parse_infix,
    }
    # every other table is declared on a class derived from another PrattParser subclass that declares the same operators
    # the other way round (precedences mirrored, associativity flipped): the tables that count are the ones the class itself declares
    base = PrattParser
    if (len(tbl["inf"]) + len(tbl["pre"]) + len(tbl["post"]) + sum(int(p) for p, _ in tbl["inf"].values())) % 2 == 1:
        allp = [int(p) for p in tbl["pre"].values()] + [int(p) for p in tbl["post"].values()] + [int(p) for p, _ in tbl["inf"].values()]
        top = (max(allp) if allp else 0) + 1
        decoy = {
            "PREFIX_OPS": {k: top - int(p) for k, p in tbl["pre"].items()},
            "POSTFIX_OPS": {k: top - int(p) for k, p in tbl["post"].items()},
            "INFIX_OPS": {k: (top - int(p), not bool(ra)) for k, (p, ra) in tbl["inf"].items()},
            "parse_primary": parse_primary, "parse_prefix": parse_prefix, "parse_postfix": parse_postfix, "parse_infix": parse_infix,
        }
        base = type("DecoyParser", (PrattParser,), decoy)
    return type("TableParser", (base,), ns)()


CASE_TIMEOUT_S = 2.0
_TIMEOUTS = mp.Value("i", 0)      # shared with the forked workers: stop evaluating once parses stop returning


class CaseTimeout(Exception):
    pass


def _on_alarm(signum, frame):
    raise CaseTimeout


def impl_run(parser, tokens):
    """-> (tree or None, pairs left in the stream, exception name or None)"""
    from pest.pairs import Pair, Pairs
    from pest.state import RuleFrame

    # only pair.name matters to parse_expr: every other pair is given an empty span (an operator or operand that matched
    # the empty string, e.g. juxtaposition), which must change nothing
    pairs = [Pair(n, 0, 0 if (i + len(tokens)) % 2 == 1 else len(n), RuleFrame(n, 0)) for i, n in enumerate(tokens)]
    # the stream comes from the enclosing pair, the way the calculator examples get it (expr_pair.stream()); when there are at
    # least two tokens the same pair is first asked for a stream that is read to its end and thrown away: every call must hand
    # out a fresh stream over the same pairs
    parent = Pair("".join(tokens), 0, sum(len(n) for n in tokens), RuleFrame("expr", 0), children=pairs)
    if len(tokens) % 3 == 2:
        used = parent.stream()
        while used.next() is not None:
            pass
        parent.inner().stream().next()
    stream = parent.stream() if len(tokens) % 2 == 0 else parent.inner().stream()
    signal.signal(signal.SIGALRM, _on_alarm)
    signal.setitimer(signal.ITIMER_REAL, CASE_TIMEOUT_S)       # a parse that does not return is a finding, not a hang
    try:
        tree = parser.parse_expr(stream)
    except SyntaxError:
        return None, len(pairs) - stream.pos, "SyntaxError"
    except CaseTimeout:
        return None, len(pairs) - stream.pos, f"no-return-within-{CASE_TIMEOUT_S:g}s"
    except Exception as e:  # noqa: BLE001
        return None, len(pairs) - stream.pos, type(e).__name__
    finally:
        signal.setitimer(signal.ITIMER_REAL, 0)
    return tree, len(pairs) - stream.pos, None


def impl_answer(tree, left, exc) -> str:
    return exc if exc else f"{show(tree)} {left}"


# ---------------------------------------------------------------- spec (independent of the algorithm)

def well_formed(tbl: dict, tokens) -> bool:
    """expr := pre* prim post* (inf expr)*, tokens read by position (see Pratt.wf)"""
    operand = True
    for n in tokens:
        if operand:
            if n not in tbl["pre"]:
                operand = False
        elif n in tbl["post"]:
            pass
        elif n in tbl["inf"]:
            operand = True
        else:
            return False
    return not operand


def flatten(t) -> list[str]:
    out: list[str] = []
    stack = [t]
    while stack:
        x = stack.pop()
        if isinstance(x, str):
            out.append(x)
        elif x[0] == "pre":
            stack.append(x[2])
            stack.append(x[1])
        elif x[0] == "post":
            stack.append(x[2])
            stack.append(x[1])
        else:
            stack.append(x[3])
            stack.append(x[2])
            stack.append(x[1])
    return out


def _ledge(t, tbl):
    out = []
    while not isinstance(t, str):
        if t[0] == "bin":
            out.append((2 * tbl["inf"][t[2]][0] + 1, t[2]))
            t = t[1]
        elif t[0] == "post":
            out.append((2 * tbl["post"][t[2]] + 1, t[2]))
            t = t[1]
        else:
            break
    return out


def _redge(t, tbl):
    out = []
    while not isinstance(t, str):
        if t[0] == "bin":
            p, ra = tbl["inf"][t[2]]
            out.append((2 * p if ra else 2 * p + 2, t[2]))
            t = t[3]
        elif t[0] == "pre":
            out.append((2 * tbl["pre"][t[1]], t[1]))
            t = t[2]
        else:
            break
    return out


def spec_defect(t, tbl) -> str | None:
    """None if the tree reads every token in its role (Lex) and respects the declared
    precedences and associativities (Good); otherwise a sentence naming the offending node"""
    stack = [t]
    while stack:
        x = stack.pop()
        if isinstance(x, str):
            if x in tbl["pre"]:
                return f"prefix operator {x} used as an operand"
            continue
        if x[0] == "pre":
            o, r = x[1], x[2]
            if o not in tbl["pre"]:
                return f"{o} is not a declared prefix operator"
            rbp = 2 * tbl["pre"][o]
            stack.append(r)
            try:
                for lbp, o2 in _ledge(r, tbl):
                    if not lbp >= rbp:
                        return (f"prefix {o} (precedence {tbl['pre'][o]}) was given an operand whose left edge exposes "
                                f"{o2} (left power {lbp} < {rbp}): {o2} binds less tightly and must apply to the whole "
                                f"prefix expression")
            except KeyError as e:
                return f"undeclared operator {e}"
        elif x[0] == "post":
            l, o = x[1], x[2]
            if o not in tbl["post"]:
                return f"{o} is not a declared postfix operator"
            lbp = 2 * tbl["post"][o] + 1
            stack.append(l)
            try:
                for rbp, o2 in _redge(l, tbl):
                    if not rbp > lbp:
                        return (f"postfix {o} (precedence {tbl['post'][o]}) was applied to an operand whose right edge "
                                f"exposes {o2} (right power {rbp} < left power {lbp} of {o}): {o} binds tighter and must "
                                f"apply inside {o2}'s operand")
            except KeyError as e:
                return f"undeclared operator {e}"
        else:
            l, o, r = x[1], x[2], x[3]
            if o in tbl["post"]:
                return f"{o} is a postfix operator in operator position but was used as infix"
            if o not in tbl["inf"]:
                return f"{o} is not a declared infix operator"
            p, ra = tbl["inf"][o]
            lbp, rbp = 2 * p + 1, (2 * p if ra else 2 * p + 2)
            stack.append(l)
            stack.append(r)
            try:
                for rb2, o2 in _redge(l, tbl):
                    if not rb2 > lbp:
                        return (f"infix {o} (precedence {p}) has a left operand whose right edge exposes {o2} "
                                f"(right power {rb2} < left power {lbp} of {o}): {o} binds tighter and must take "
                                f"{o2}'s operand")
                for lb2, o2 in _ledge(r, tbl):
                    if not lb2 >= rbp:
                        return (f"infix {o} (precedence {p}, {'right' if ra else 'left'}-assoc) has a right operand whose "
                                f"left edge exposes {o2} (left power {lb2} < right power {rbp} of {o}): {o2} binds less "
                                f"tightly and must apply to the whole {o} expression")
            except KeyError as e:
                return f"undeclared operator {e}"
    return None


def sy_build(tbl: dict, tokens):
    """The tree the binding powers demand, built with an operand stack and an operator stack
    (shunting yard): before an operator with left power L is handled, every stacked operator
    whose right power is greater than L is reduced.  None = the stream is not well formed."""
    operands: list = []
    ops: list = []          # (kind, name, right power)

    def reduce():
        kind, name, _ = ops.pop()
        if kind == "pre":
            operands.append(("pre", name, operands.pop()))
        else:
            r = operands.pop()
            l = operands.pop()
            operands.append(("bin", l, name, r))

    operand = True
    for n in tokens:
        if operand:
            if n in tbl["pre"]:
                ops.append(("pre", n, 2 * tbl["pre"][n]))
            else:
                operands.append(n)
                operand = False
        elif n in tbl["post"]:
            lbp = 2 * tbl["post"][n] + 1
            while ops and ops[-1][2] > lbp:
                reduce()
            operands.append(("post", operands.pop(), n))
        elif n in tbl["inf"]:
            p, ra = tbl["inf"][n]
            lbp = 2 * p + 1
            while ops and ops[-1][2] > lbp:
                reduce()
            ops.append(("bin", n, 2 * p if ra else 2 * p + 2))
            operand = True
        else:
            return None
    if operand:
        return None
    while ops:
        reduce()
    return operands[0]


def all_trees(tokens: tuple) -> list:
    """every tree whose yield is `tokens` (roles unconstrained)"""

    @lru_cache(None)
    def go(i: int, j: int):
        res = []
        if j - i == 1:
            res.append(tokens[i])
        if j - i >= 2:
            for r in go(i + 1, j):
                res.append(("pre", tokens[i], r))
            for l in go(i, j - 1):
                res.append(("post", l, tokens[j - 1]))
        for k in range(i + 1, j - 1):
            for l in go(i, k):
                for r in go(k + 1, j):
                    res.append(("bin", l, tokens[k], r))
        return res

    return go(0, len(tokens))


def enum_reference(tbl: dict, tokens) -> list:
    return [t for t in all_trees(tuple(tokens)) if spec_defect(t, tbl) is None]


def direct_check(parser, tbl, tokens):
    """Runs the code; on a well-formed stream judges it against the specification.
    -> (answer string for the correspondence, problem dict or None, harness inconsistency or None)"""
    tree, left, exc = impl_run(parser, tokens)
    ans = impl_answer(tree, left, exc)
    if not well_formed(tbl, tokens):
        return ans, None, None
    expected = sy_build(tbl, tokens)
    incons = None
    if expected is None or spec_defect(expected, tbl) is not None or flatten(expected) != list(tokens):
        incons = f"harness reference inconsistent on {enc_table(tbl)} {' '.join(tokens)}"
    problem = None
    if exc:
        problem = f"raised {exc} on a well-formed stream"
    elif left:
        problem = f"left {left} pairs of a well-formed stream unconsumed"
    elif flatten(tree) != list(tokens):
        problem = "the tokens of the returned tree are not the tokens of the stream, in order"
    else:
        d = spec_defect(tree, tbl)
        if d:
            problem = d
        elif tree != expected and incons is None:
            incons = f"two different admissible trees on {enc_table(tbl)} {' '.join(tokens)}"
    if problem:
        return ans, {"what": problem, "expected": show(expected) + " 0" if expected is not None else None,
                     "observed": ans}, incons
    return ans, None, incons


# ---------------------------------------------------------------- generators

def alphabet(tbl: dict, extra_prims: bool):
    pre = list(tbl["pre"])
    post = list(tbl["post"])
    inf = [o for o in tbl["inf"] if o not in tbl["post"]]
    prims: list[str | None] = [None]          # None = a fresh primary x<k>
    if extra_prims:                           # operator names the code reads as primaries in operand position
        prims += [o for o in dict.fromkeys(list(tbl["post"]) + list(tbl["inf"])) if o not in tbl["pre"]]
    return pre, post, inf, prims


def wf_streams(tbl: dict, maxlen: int, extra_prims: bool = False):
    """all well-formed streams of length <= maxlen over the table's names (primaries named x0, x1, …)"""
    pre, post, inf, prims = alphabet(tbl, extra_prims)
    cur: list[str] = []

    def go(operand: bool, nprim: int):
        if not operand:
            yield list(cur)
        if len(cur) >= maxlen or (operand and len(cur) + 1 > maxlen):
            return
        if operand:
            for o in pre:
                if len(cur) + 2 <= maxlen:
                    cur.append(o)
                    yield from go(True, nprim)
                    cur.pop()
            for p in prims:
                cur.append(p if p is not None else f"x{nprim}")
                yield from go(False, nprim + 1)
                cur.pop()
        else:
            for o in post:
                cur.append(o)
                yield from go(False, nprim)
                cur.pop()
            for o in inf:
                if len(cur) + 2 <= maxlen:
                    cur.append(o)
                    yield from go(True, nprim)
                    cur.pop()

    yield from go(True, 0)


def random_wf_stream(rng: random.Random, tbl: dict, n_units: int, extra_prims: bool = False) -> list[str]:
    pre, post, inf, prims = alphabet(tbl, extra_prims)
    toks: list[str] = []
    w = rng.choice([(0.2, 0.2), (0.5, 0.5), (0.7, 0.3), (0.3, 0.7), (0.05, 0.6)])
    for u in range(n_units):
        if u:
            if not inf:
                break
            toks.append(rng.choice(inf))
        while pre and rng.random() < w[0]:
            toks.append(rng.choice(pre))
        p = rng.choice(prims)
        toks.append(p if p is not None else f"x{u}")
        while post and rng.random() < w[1]:
            toks.append(rng.choice(post))
    return toks


def mutate(rng: random.Random, tbl: dict, toks: list[str]) -> list[str]:
    """mostly ill-formed variants: truncated, two operands in a row, deleted/replaced/swapped token"""
    names = list(dict.fromkeys(list(tbl["pre"]) + list(tbl["post"]) + list(tbl["inf"]) + ["y"]))
    t = list(toks)
    k = rng.randrange(6)
    if k == 0:
        return t[: max(0, len(t) - rng.randint(1, 2))]
    if k == 1:
        i = rng.randrange(len(t) + 1)
        return t[:i] + ["y"] + t[i:]
    if k == 2 and t:
        i = rng.randrange(len(t))
        return t[:i] + t[i + 1:]
    if k == 3 and t:
        i = rng.randrange(len(t))
        return t[:i] + [rng.choice(names)] + t[i + 1:]
    if k == 4 and len(t) > 1:
        i = rng.randrange(len(t) - 1)
        t[i], t[i + 1] = t[i + 1], t[i]
        return t
    return [rng.choice(names) for _ in range(rng.randint(0, 6))]


PRE_NAMES, POST_NAMES, INF_NAMES = ["neg", "not"], ["fac", "opt"], ["add", "mul", "pow"]


def random_table(rng: random.Random) -> tuple[dict, bool]:
    """1–4 precedence levels shared across kinds, both associativities, with/without prefix and
    postfix operators; now and then a name declared in several tables.  -> (table, overlapping)"""
    levels = rng.randint(1, 4)
    values = sorted(rng.sample(range(0, 9), levels)) if rng.random() < 0.5 else list(range(levels))
    pre_n, post_n, inf_n = PRE_NAMES[: rng.choice([0, 1, 1, 2])], POST_NAMES[: rng.choice([0, 1, 1, 2])], INF_NAMES[: rng.choice([1, 2, 2, 3])]
    if rng.random() < 0.35:
        # rule names that contain one another, declared in any order: a table is looked up by the whole name
        pre_n = rng.sample(["neg", "not", "bit_not", "n", "ne"], rng.choice([0, 1, 2]))
        post_n = rng.sample(["fac", "opt", "fact", "f", "op"], rng.choice([0, 1, 2]))
        inf_n = rng.sample(["add", "and", "bit_and", "ad", "d", "pow", "power", "ow", "or", "xor"], rng.choice([2, 2, 3]))
    tbl = {
        "pre": {n: rng.choice(values) for n in pre_n},
        "post": {n: rng.choice(values) for n in post_n},
        "inf": {n: [rng.choice(values), rng.random() < 0.5] for n in inf_n},
    }
    overlapping = rng.random() < 0.25
    if overlapping:
        kind = rng.randrange(4)
        if kind == 0:       # unary and binary minus
            tbl["pre"]["sub"] = rng.choice(values)
            tbl["inf"]["sub"] = [rng.choice(values), rng.random() < 0.5]
        elif kind == 1:     # postfix shadows infix
            tbl["post"]["bang"] = rng.choice(values)
            tbl["inf"]["bang"] = [rng.choice(values), rng.random() < 0.5]
        elif kind == 2:
            tbl["pre"]["amp"] = rng.choice(values)
            tbl["post"]["amp"] = rng.choice(values)
        else:
            tbl["pre"]["all"] = rng.choice(values)
            tbl["post"]["all"] = rng.choice(values)
            tbl["inf"]["all"] = [rng.choice(values), rng.random() < 0.5]
    return tbl, overlapping


def tiny_tables():
    """every table with one prefix, one postfix and two infix operators over precedences {0,1,2}
    (3·3·6·6 = 324 tables: every relative order, every tie, every associativity mix)"""
    for a in range(3):
        for b in range(3):
            for c in range(3):
                for cr in (False, True):
                    for d in range(3):
                        for dr in (False, True):
                            yield {"pre": {"neg": a}, "post": {"fac": b}, "inf": {"add": [c, cr], "mul": [d, dr]}}


def roles(tbl, toks) -> tuple:
    """role of each token of a well-formed stream: P prefix, x primary, F postfix, I infix"""
    out, operand = [], True
    for n in toks:
        if operand:
            if n in tbl["pre"]:
                out.append("P")
            else:
                out.append("x")
                operand = False
        elif n in tbl["post"]:
            out.append("F")
        else:
            out.append("I")
            operand = True
    return tuple(out)


def n_ops(tbl, toks) -> int:
    return sum(1 for t in toks if t in tbl["pre"] or t in tbl["post"] or t in tbl["inf"])


# ---------------------------------------------------------------- workers

def _judge(cases, with_reference: bool):
    """cases: list of (tbl, tokens, counted).  Runs impl + spec on each, then the model on all.
    `counted` marks the cases that are distinct by construction (enumerated, not mutated).
    -> stats dict"""
    use_repo()
    lines, answers, problems, incons = [], [], [], []
    xr_lines, xr_expected = [], []
    nontrivial = wf_count = 0
    parser_cache: dict[str, object] = {}
    for tbl, toks, counted in cases:
        if _TIMEOUTS.value >= 6:
            break
        key = enc_table(tbl)
        parser = parser_cache.get(key)
        if parser is None:
            parser = parser_cache[key] = make_parser(tbl)
        ans, problem, inc = direct_check(parser, tbl, toks)
        lines.append("X " + key + " " + " ".join(toks))
        answers.append(ans)
        if ans.startswith("no-return"):
            with _TIMEOUTS.get_lock():
                _TIMEOUTS.value += 1
        if _TIMEOUTS.value >= 6:     # do not sit out thousands of timeouts; the findings are recorded
            break
        if inc and len(incons) < 3:
            incons.append(inc)
        if problem and len(problems) < 5:
            problems.append({"table": tbl, "tokens": toks, **problem})
        if well_formed(tbl, toks):
            wf_count += 1
            if counted and n_ops(tbl, toks) >= 2:
                nontrivial += 1
        if with_reference and len(toks) <= 7:
            # the harness's Good checker against plain enumeration, and against Lean's reference
            goods = enum_reference(tbl, toks)
            exp = sy_build(tbl, toks)
            if (exp is None and goods) or (exp is not None and goods != [exp]):
                if len(incons) < 3:
                    incons.append(f"enumeration finds {len(goods)} admissible trees on {key} {' '.join(toks)}")
            xr_lines.append("XR " + key + " " + " ".join(toks))
            xr_expected.append(show(exp) if exp is not None else "none")
    outs = run_driver(lines, shards=1)
    mism = [(ln, a, b) for ln, a, b in zip(lines, answers, outs) if a != b]
    if xr_lines:
        xouts = run_driver(xr_lines, shards=1)
        for ln, a, b in zip(xr_lines, xr_expected, xouts):
            if a != b and len(incons) < 3:
                incons.append(f"Lean reference answers {b!r}, harness reference {a!r} on {ln}")
    return {"n": len(lines), "wf": wf_count, "nontrivial": nontrivial, "problems": problems,
            "mism": mism[:5], "n_mism": len(mism), "incons": incons,
            "samples": [{"request": lines[i], "impl": answers[i]} for i in (len(lines) // 2, len(lines) - 1) if lines]}


def _exhaustive_job(args):
    tbl, maxlen, extra, shard, nshards, mseed = args
    rng = random.Random(mseed)
    cases = []
    for i, toks in enumerate(wf_streams(tbl, maxlen, extra)):
        if i % nshards != shard:
            continue
        cases.append((tbl, toks, True))
        if rng.random() < 0.08:
            cases.append((tbl, mutate(rng, tbl, toks), False))
    res = _judge(cases, with_reference=False)
    res["kind"] = "exhaustive"
    return res


def _tiny_job(args):
    tables, maxlen = args
    cases = []
    for tbl in tables:
        for toks in wf_streams(tbl, maxlen):
            cases.append((tbl, toks, True))
            if len(toks) < maxlen:
                cases.append((tbl, toks + ["y"], False))          # two operands in a row / trailing junk
            if len(toks) > 1:
                cases.append((tbl, toks[:-1], False))             # truncated
    res = _judge(cases, with_reference=True)
    res["kind"] = "tiny"
    return res


def _random_job(args):
    mseed, count, max_units = args
    rng = random.Random(mseed)
    cases = []
    for _ in range(count):
        tbl, overlapping = random_table(rng)
        toks = random_wf_stream(rng, tbl, rng.randint(2, max_units), overlapping and rng.random() < 0.3)
        cases.append((tbl, toks, False))
        if rng.random() < 0.15:
            cases.append((tbl, mutate(rng, tbl, toks), False))
    res = _judge(cases, with_reference=False)
    res["kind"] = "random"
    res["keys"] = [hashlib.blake2b((enc_table(t) + " " + " ".join(s)).encode(), digest_size=8).digest()
                   for t, s, _ in cases if well_formed(t, s) and n_ops(t, s) >= 2]
    return res


# ---------------------------------------------------------------- shrinking, replay

def fails(tbl, toks) -> dict | None:
    if not well_formed(tbl, toks):
        return None
    _, problem, _ = direct_check(make_parser(tbl), tbl, toks)
    return problem


def shrink(tbl, toks):
    """drop tokens (keeping the stream well formed and failing), then unused operators"""
    cur = list(toks)
    first = fails(tbl, cur)
    changed = not (first and "no-return" in first["what"])      # every attempt would cost a timeout
    while changed:
        changed = False
        for width in (2, 1):
            for i in range(len(cur) - width + 1):
                cand = cur[:i] + cur[i + width:]
                if cand and fails(tbl, cand):
                    cur, changed = cand, True
                    break
            if changed:
                break
    used = set(cur)
    small = {"pre": {k: v for k, v in tbl["pre"].items() if k in used},
             "post": {k: v for k, v in tbl["post"].items() if k in used},
             "inf": {k: v for k, v in tbl["inf"].items() if k in used}}
    if fails(small, cur):
        tbl = small
    return tbl, cur


def dec_table(s: str) -> dict:
    tbl: dict = {"pre": {}, "post": {}, "inf": {}}
    for sec in s.split(";"):
        kind, _, body = sec.partition(":")
        for e in filter(None, body.split(",")):
            k, _, v = e.partition("=")
            tbl[kind][k] = [int(v[:-1]), v[-1] == "R"] if kind == "inf" else int(v)
    return tbl


def replay(out: Outcome, payload: dict) -> None:
    use_repo()
    out.coverage = {"explanation": "replay of one recorded finding", "evaluations": 1, "distinct_nontrivial": 2}
    broken = payload.get("broken", "")
    if broken.startswith("correspondence "):
        # model and code disagreed on this request (no specification failure had been found)
        line = broken[len("correspondence "):]
        _, enc, *toks = line.split(" ")
        tbl = dec_table(enc)
        ans = impl_answer(*impl_run(make_parser(tbl), toks))
        model = run_driver([line])[0]
        out.coverage["samples"] = [{"request": line, "impl": ans, "model": model}]
        problem = fails(tbl, toks)
        if problem:
            out.violation({"kind": "pratt", "table": tbl, "tokens": toks, **problem})
        elif ans != model:
            out.unproved({**payload, "model_answer": model, "code_answer": ans})
        return
    if broken.startswith("theorem "):
        info = proof_stage(out, "C18", THEOREMS)
        out.coverage = {**proof_coverage(info, "C18"), **out.coverage}
        if info["broken"]:
            out.unproved({"broken": "theorem " + "; ".join(info["broken"])[:1500]})
        return
    tbl, toks = payload["table"], payload["tokens"]
    problem = fails(tbl, toks)
    out.coverage["samples"] = [{"table": enc_table(tbl), "tokens": toks}]
    if problem:
        out.violation({**payload, **problem})


# ---------------------------------------------------------------- main

def run(out: Outcome) -> None:
    use_repo()
    rng = random.Random(seed() * 7919 + 18)
    thorough = out.tier == "thorough"
    _TIMEOUTS.value = 0
    info = proof_stage(out, "C18", THEOREMS)
    if not info.get("driver_ok"):
        out.infra_error = "Lean driver does not build: " + "; ".join(info.get("broken", []))[:400]
        return

    maxlen = 9 if thorough else 7
    n_tables = 120
    tiny_len = 7 if thorough else 5
    n_random = 200000 if thorough else 20000
    max_units = 80 if thorough else 25

    # the tables of the exhaustive part: the calculator example's, then seeded random ones
    tables: list[tuple[dict, bool]] = [({"pre": {"neg": 6}, "post": {"fac": 7},
                                         "inf": {"add": [3, False], "mul": [4, False], "pow": [5, True]}}, False)]
    seen = {enc_table(tables[0][0])} | {enc_table(t) for t in tiny_tables()}
    while len(tables) < n_tables:
        tbl, ov = random_table(rng)
        if enc_table(tbl) not in seen:
            seen.add(enc_table(tbl))
            tables.append((tbl, ov))

    jobs = []
    for tbl, ov in tables:
        big = len(tbl["pre"]) + len(tbl["post"]) + len(tbl["inf"]) >= 5
        nsh = (8 if big else 2) if thorough else 1
        extra = ov and rng.random() < 0.5
        ml = maxlen - 1 if (extra and big) else maxlen
        for sh in range(nsh):
            jobs.append((_exhaustive_job, (tbl, ml, extra, sh, nsh, rng.randrange(1 << 30))))
    tt = list(tiny_tables())
    for i in range(0, len(tt), 27):
        jobs.append((_tiny_job, (tt[i:i + 27], tiny_len)))
    per = 500
    for i in range(0, n_random, per):
        jobs.append((_random_job, (rng.randrange(1 << 30), per, max_units)))

    evals = wf_n = nontriv = n_mism = 0
    by_kind = {"exhaustive": 0, "tiny": 0, "random": 0}
    problems: list[dict] = []
    corr: list[tuple] = []
    incons: list[str] = []
    samples: list[dict] = []
    rkeys: set[bytes] = set()
    with mp.Pool(NCPU) as pool:
        for res in pool.imap_unordered(_call, jobs):
            evals += res["n"]
            wf_n += res["wf"]
            by_kind[res["kind"]] += res["n"]
            if res["kind"] == "random":
                rkeys.update(res["keys"])
            else:
                nontriv += res["nontrivial"]
            n_mism += res["n_mism"]
            problems.extend(res["problems"])
            corr.extend(res["mism"])
            incons.extend(res["incons"])
            if len(samples) < 4:
                samples.extend(res["samples"][:1])
    nontriv += len(rkeys)

    if incons:
        out.infra_error = "the harness's own references disagree: " + incons[0][:600]
        return

    # ---- verdict (DESIGN §5)
    # shrink, then prefer examples that need no tie-breaking (all precedences involved distinct),
    # whose operands are plain primaries, and that are short
    cands, done = [], set()
    hung = [c for c in problems if "no-return" in c["what"]]
    for c in hung[:2]:               # re-running or shrinking these would cost a timeout per attempt
        out.violation({"kind": "pratt", "table": c["table"], "table_encoded": enc_table(c["table"]),
                       "tokens": c["tokens"], "what": c["what"], "expected": c["expected"], "observed": c["observed"],
                       "seed": seed(), "command": "./check C18 --replay <this file>"})
    for c in ([] if hung else problems[:60]):
        tbl, toks = shrink(c["table"], c["tokens"])
        key = (enc_table(tbl), tuple(toks))
        if key in done:
            continue
        done.add(key)
        precs = list(tbl["pre"].values()) + list(tbl["post"].values()) + [p for p, _ in tbl["inf"].values()]
        shape = roles(tbl, toks)
        odd = any(r == "x" and (t in tbl["post"] or t in tbl["inf"]) for r, t in zip(shape, toks))
        cands.append((len(set(precs)) < len(precs), odd, len(toks), shape, tbl, toks, c))
    cands.sort(key=lambda x: x[:3])
    shapes = set()
    for tie, _, _, shape, tbl, toks, c in cands:
        if shape in shapes:          # one example per shape of stream
            continue
        shapes.add(shape)
        p = fails(tbl, toks) or {}
        out.violation({"kind": "pratt", "table": tbl, "table_encoded": enc_table(tbl), "tokens": toks, **p,
                       "needs_tie_breaking": tie,
                       "shrunk_from": {"table": c["table"], "tokens": c["tokens"]},
                       "seed": seed(), "command": "./check C18 --replay <this file>"})
        if len(shapes) >= 3:
            break
    if not problems:
        if corr:
            ln, a, b = corr[0]
            out.unproved({"broken": "correspondence " + ln, "model_answer": b, "code_answer": a,
                          "more": [{"request": x, "code": y, "model": z} for x, y, z in corr[1:5]],
                          "searched": {"cases": evals, "note": "on every well-formed stream the implementation returned "
                                       "an admissible tree over the whole stream"}})
        elif info["broken"]:
            out.unproved({"broken": "theorem " + "; ".join(info["broken"])[:1500],
                          "searched": {"cases": evals, "note": "implementation agreed with the specification and with the model"}})

    out.coverage = {
        **proof_coverage(info, "C18"),
        "evaluations": evals,
        "distinct_nontrivial": nontriv,
        "rule": f"{len(tables)} operator tables (the calculator example's + seeded random: 1–4 precedence levels shared "
                f"across prefix/postfix/infix, both associativities, 0–2 prefix, 0–2 postfix, 1–3 infix operators, a quarter "
                f"with a name declared in several tables) × every well-formed stream of up to {maxlen} pairs "
                f"({by_kind['exhaustive']} evaluations incl. 8% ill-formed mutants); all 324 tables with one prefix, one "
                f"postfix, two infix operators over precedences 0..2 × every well-formed stream up to {tiny_len} pairs, "
                f"each also truncated and with a trailing operand, and checked against plain enumeration of all trees in "
                f"Python and in Lean ({by_kind['tiny']}); {by_kind['random']} seeded random (table, stream) pairs with up to "
                f"{max_units} operands.  Well-formed streams ({wf_n}) are judged against the specification (Lex/Good checker, "
                "shunting-yard tree) and the Lean model; ill-formed ones against the model only.  Non-trivial = well-formed "
                "with at least two operators; distinct = distinct (table, stream) pairs, counted.",
        "exhaustive": True,
        "samples": samples,
        "well_formed": wf_n,
        "correspondence_mismatches": n_mism,
        "specification_mismatches": len(problems),
    }
    out.assumptions = [
        "observed through a PrattParser subclass whose four hooks build tuples from real Pair objects; "
        "a stream is a real pest Stream over Pair(name, 0, len or 0, RuleFrame(name, 0)) - every other pair has an empty span; only pair.name matters to parse_expr",
        "a name declared in several tables is read by position, as the code does: prefix where an operand is expected; "
        "where an operator is expected postfix before infix; any name that is not a prefix operator is a primary in "
        "operand position.  Well-formedness of a stream is relative to this reading",
        "ties between adjacent operators of equal precedence but different kind (or different associativity) are resolved "
        "by the left operator: left-assoc infix keeps its right operand, right-assoc infix and prefix give it up "
        "(as in pest's Rust PrattParser); the property text does not fix this corner",
        "precedences are non-negative integers, as in every use of the class (with the default min_prec=0 a negative "
        "precedence is refused at top level by the very comparison that implements precedence)",
        "Python's recursion limit is not modelled (streams here nest at most a few hundred deep)",
    ]


def _call(job):
    f, args = job
    return f(args)
