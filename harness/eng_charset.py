"""C12 — character terminals (ranges, one-character literals, ASCII_* / NEWLINE / ANY, the classes the
optimizer merges them into, case-insensitive literals, Unicode property rules).  The escape clause of
the property is checked by harness/eng_escapes.py (`run_escape_part`), called from here when present.

Opinions that are compared, for every swept pattern and *every* code point U+0000..U+10FFFF:
  impl    the accepted set of the one-rule grammar `r = { <terminal> }` in the four execution modes
          interp = Parser.from_grammar(g, optimizer=None).parse      opt    = Parser.from_grammar(g).parse
          gen    = module exec'd from the unoptimised generate()     optgen = … from the optimised generate()
  spec    the definition, computed here: a..b · that character · ASCII_* from Python's `string` module ·
          ^"x": the ASCII case variants · NEWLINE · ANY = everything · a choice = the union
  model   the Lean definitions the theorems of Props/C12.lean are about (driver requests AS / CA / CC / CM
          and P interp|gen|opt|optgen on the boundary code points)
impl vs spec and mode vs mode are the failing-input search; impl vs model is the correspondence check.

How 1 114 112 decisions per (pattern, mode) stay cheap: the accepted set of a terminal-only rule is the
union of what its leaves accept, and a leaf is a compiled `regex` object (Range._re, CIString._re,
RegexExpression.regex, OptimizedChoice.pattern; in generated code the `RE… = re.compile(…)` closure
constants of `parse_r`), a `startswith` literal or the ANY test.  Each such object — the one the mode
really uses, not a copy — is run once over the string of all code points (`finditer`); anything unusual
(a match that is not one character long) falls back to `rx.match(chr(cp))` for every cp.  The shortcut is
validated per (pattern, mode) against real `parse()` calls on U+0000..U+02FF, every interval boundary ±1,
a list of special code points and 2000 seeded random ones; if it ever disagrees, that (pattern, mode) is
swept with 1 114 112 real `parse()` calls instead.  A few patterns are swept that way in any case.
"""

from __future__ import annotations

import ast
import bisect
import multiprocessing as mp
import random
import re as stdre
import string
import time

import export_tables
from common import NCPU, Outcome, proof_coverage, proof_stage, run_driver, seed, use_repo

try:
    import eng_escapes  # the escape clause of C12 (written separately)
    ESCAPES_IMPORT_ERROR = None
except Exception as _e:  # noqa: BLE001  (absent, or not importable right now)
    eng_escapes = None
    ESCAPES_IMPORT_ERROR = f"{type(_e).__name__}: {_e}"

THEOREMS = [
    "Pest.C12.ascii_tables_spec",
    "Pest.C12.ascii_rules_built_from_map",
    "Pest.C12.any_body",
    "Pest.C12.newline_spec",
    "Pest.C12.newline_opt_spec",
    "Pest.C12.merge_char_class_spec",
    "Pest.C12.merged_ranges_disjoint_sorted",
    "Pest.C12.kept_singles_spec",
    "Pest.C12.class_pieces_spec",
    "Pest.C12.class_pattern_spec",
    "Pest.C12.squash_set_spec",
    "Pest.C12.squash_set_total",
    "Pest.C12.range_case_sensitive",
    "Pest.C12.range_modes_agree",
    "Pest.C12.any_spec",
    "Pest.C12.literal_modes_agree",
    "Pest.C12.ci_ascii_spec",
    "Pest.C12.caseVariant_iff",
    "Pest.C12.caseVariant_nonletter",
    "Pest.C12.ci_modes_agree",
    "Pest.C12.finding_ci_nonascii_fold",
    "Pest.C12.unicode_rule_same_pattern",
    "Pest.C12.unicode_patterns_wellformed",
    "Pest.CharSet.ivMem_mergeGo",
    "Pest.CharSet.separated_mergeRanges",
    "Pest.CharSet.sortedLex_sortIvs",
]
THEOREMS_ALL = THEOREMS + list(getattr(eng_escapes, "THEOREMS_ESC", []) or [])
EXTRA_TARGETS = ["PestModel.Drv.CharSet"]

N = 0x110000
MODES = ["interp", "opt", "gen", "optgen"]
PASSES = "unroll,skip,inline_builtin,squash_choice,inline_silent"
FUEL = 600
FINDING_KEY = "ci-nonascii-fold"
FINDING_TEXT = ('key=ci-nonascii-fold a case-insensitive literal folds non-ASCII characters differently per mode: '
                'the interpreter and generated code use regex re.I (^"k" accepts U+212A, ^"s" U+017F, ^"i" U+0130/U+0131), '
                'the squashed class uses str.upper/lower only (outside the property\'s ASCII clause; pest folds ASCII only)')

# ================================================================ interval sets

def ivs_norm(ivs):
    out = []
    for lo, hi in sorted(ivs):
        if lo > hi:
            continue
        if out and lo <= out[-1][1] + 1:
            if hi > out[-1][1]:
                out[-1] = (out[-1][0], hi)
        else:
            out.append((lo, hi))
    return out


def ivs_union(*lists):
    return ivs_norm([iv for l in lists for iv in l])


def ivs_contains(ivs, cp):
    i = bisect.bisect_right(ivs, (cp, N)) - 1
    return i >= 0 and ivs[i][0] <= cp <= ivs[i][1]


def ivs_op(a, b, f):
    """{c | f(c in a, c in b)} for normalised a, b (f(False, False) must be False)"""
    pts = sorted({p for lo, hi in a for p in (lo, hi + 1)} | {p for lo, hi in b for p in (lo, hi + 1)})
    out = []
    for i in range(len(pts) - 1):
        p = pts[i]
        if f(ivs_contains(a, p), ivs_contains(b, p)):
            out.append((p, pts[i + 1] - 1))
    return ivs_norm(out)


def ivs_xor(a, b):
    return ivs_op(a, b, lambda x, y: x != y)


def ivs_minus(a, b):
    return ivs_op(a, b, lambda x, y: x and not y)


def ivs_size(a):
    return sum(hi - lo + 1 for lo, hi in a)


def ivs_show(a, limit=12):
    s = ",".join(f"{lo:X}" if lo == hi else f"{lo:X}-{hi:X}" for lo, hi in a[:limit])
    return s + (f",…(+{len(a) - limit})" if len(a) > limit else "")


ALL = [(0, N - 1)]

# ================================================================ specification (computed here)

PY_ASCII = {
    "ASCII_DIGIT": string.digits,
    "ASCII_NONZERO_DIGIT": "123456789",
    "ASCII_BIN_DIGIT": "01",
    "ASCII_OCT_DIGIT": string.octdigits,
    "ASCII_HEX_DIGIT": string.hexdigits,
    "ASCII_ALPHA_LOWER": string.ascii_lowercase,
    "ASCII_ALPHA_UPPER": string.ascii_uppercase,
    "ASCII_ALPHA": string.ascii_letters,
    "ASCII_ALPHANUMERIC": string.ascii_letters + string.digits,
    "ASCII": "".join(chr(i) for i in range(128)),
}


def ascii_variants(cp):
    ch = chr(cp)
    if ch in string.ascii_lowercase:
        return [cp, cp - 32]
    if ch in string.ascii_uppercase:
        return [cp, cp + 32]
    return [cp]


def atom_spec(atom):
    """accepted single code points of one alternative, by definition; None = no definition here"""
    t = atom[0]
    if t == "char":
        return [(atom[1], atom[1])]
    if t == "ci":
        return ivs_norm([(c, c) for c in ascii_variants(atom[1])])
    if t == "range":
        return [(atom[1], atom[2])] if atom[1] <= atom[2] else []
    if t in ("str", "cistr"):
        return []                      # longer than the one-character input
    if t == "builtin":
        name = atom[1]
        if name in PY_ASCII:
            return ivs_norm([(ord(c), ord(c)) for c in PY_ASCII[name]])
        if name == "ANY":
            return list(ALL)
        if name == "NEWLINE":
            return [(10, 10), (13, 13)]
        return None                    # Unicode property rule: modes against each other
    raise ValueError(atom)


def case_spec(atoms):
    parts = [atom_spec(a) for a in atoms]
    if any(p is None for p in parts):
        return None
    return ivs_union(*parts)


def spec_match_len(atoms, text):
    """ordered choice over the alternatives on a string: length of the first that is a prefix; None = fails.
    Only for alternatives with a definition here and ASCII text where ^ is involved."""
    for a in atoms:
        t = a[0]
        if t in ("char", "ci", "range", "builtin"):
            if t == "builtin" and a[1] == "NEWLINE":
                for alt in ("\n", "\r\n", "\r"):
                    if text.startswith(alt):
                        return len(alt)
                continue
            sp = atom_spec(a)
            if sp is None:
                return "unknown"
            if text and ivs_contains(sp, ord(text[0])):
                return 1
        elif t == "str":
            s = "".join(map(chr, a[1]))
            if text.startswith(s):
                return len(s)
        elif t == "cistr":
            s = "".join(map(chr, a[1]))
            if len(text) >= len(s) and all(ord(x) in ascii_variants(ord(y)) for x, y in zip(text, s)):
                return len(s)
    return None


# ================================================================ grammar text

SAFE_RAW = set(string.ascii_letters + string.digits + " !#$%&()*+,-./:;<=>?@[]^_`{|}~")


def gch(cp):
    ch = chr(cp)
    return ch if ch in SAFE_RAW else "\\u{%06X}" % cp


def gstr(cps):
    return "".join(gch(c) for c in cps)


def atom_text(a):
    t = a[0]
    if t == "char":
        return f'"{gch(a[1])}"'
    if t == "ci":
        return f'^"{gch(a[1])}"'
    if t == "range":
        return f"'{gch(a[1])}'..'{gch(a[2])}'"
    if t == "str":
        return f'"{gstr(a[1])}"'
    if t == "cistr":
        return f'^"{gstr(a[1])}"'
    if t == "builtin":
        return a[1]
    raise ValueError(a)


def grammar_of(kind, atoms):
    body = " | ".join(atom_text(a) for a in atoms)
    if kind == "single":
        return "r = { " + body + " }"
    if kind == "skip":
        return "WHITESPACE = _{ " + body + " }\nr = { \"0\" ~ \"1\" ~ EOI }"
    raise ValueError(kind)


def text_of(kind, cp):
    return chr(cp) if kind == "single" else "0" + chr(cp) + "1"


# ================================================================ the four modes

class Unsupported(Exception):
    pass


class Modes:
    def __init__(self, gtext):
        import pyside as P

        self.errors = {}
        self.parse = {}
        self.p0 = self.p1 = self.m0 = self.m1 = None
        self.src0 = self.src1 = ""
        try:
            self.p0 = P.make_parser(gtext, None)
            self.parse["interp"] = self.p0.parse
        except Exception as e:  # noqa: BLE001
            self.errors["interp"] = f"{type(e).__name__}: {str(e)[:160]}"
        try:
            from pest import Parser

            self.p1 = Parser.from_grammar(gtext)
            self.parse["opt"] = self.p1.parse
        except Exception as e:  # noqa: BLE001
            self.errors["opt"] = f"{type(e).__name__}: {str(e)[:160]}"
        for mode, p, attr in (("gen", self.p0, "0"), ("optgen", self.p1, "1")):
            if p is None:
                self.errors.setdefault(mode, "no parser to generate from")
                continue
            try:
                src = p.generate()
                m = P.load_generated(src)
                setattr(self, "src" + attr, src)
                setattr(self, "m" + attr, m)
                self.parse[mode] = m.parse
            except Exception as e:  # noqa: BLE001
                self.errors[mode] = f"{type(e).__name__}: {str(e)[:160]}"


def real_accept(parse, kind, cp):
    """does the real parse() accept this code point?  True / False / 'raises <Exception>'"""
    from pest.exceptions import PestParsingError

    try:
        parse("r", text_of(kind, cp))
        return True
    except PestParsingError:
        return False
    except Exception as e:  # noqa: BLE001
        return "raises " + type(e).__name__


def real_match_len(parse, text):
    from pest.exceptions import PestParsingError

    try:
        pairs = list(parse("r", text))
        return pairs[0].end if pairs else "no-pair"
    except PestParsingError:
        return None
    except Exception as e:  # noqa: BLE001
        return "raises " + type(e).__name__


# ================================================================ sweeping compiled regexes

_BIG = None
_SWEEP_CACHE: dict = {}
SWEEP_STATS = {"finditer": 0, "per_char": 0, "cached": 0}


def big():
    global _BIG
    if _BIG is None:
        _BIG = "".join(map(chr, range(N)))
    return _BIG


def sweep_regex(rx):
    """{cp | rx.match(chr(cp)) consumes that one character}, for the compiled object `rx` itself"""
    key = (rx.pattern, int(rx.flags))
    if key in _SWEEP_CACHE:
        SWEEP_STATS["cached"] += 1
        return _SWEEP_CACHE[key]
    ivs, start, prev, ok = [], None, None, True
    for m in rx.finditer(big()):
        s = m.start()
        if m.end() != s + 1:
            ok = False
            break
        if prev is not None and s == prev + 1:
            prev = s
        else:
            if start is not None:
                ivs.append((start, prev))
            start = prev = s
    if ok:
        SWEEP_STATS["finditer"] += 1
        if start is not None:
            ivs.append((start, prev))
    else:
        SWEEP_STATS["per_char"] += 1
        ivs, start, prev = [], None, None
        match = rx.match
        for cp in range(N):
            m = match(chr(cp))
            if m is not None and m.end() == 1:
                if start is None:
                    start = cp
                prev = cp
            elif start is not None:
                ivs.append((start, prev))
                start = None
        if start is not None:
            ivs.append((start, prev))
    _SWEEP_CACHE[key] = ivs
    return ivs


def tree_set(e, rules, depth=0):
    """accepted single code points of a terminal-only expression of a real Parser (interp / opt)"""
    from pest.grammar import expressions as X
    from pest.grammar.expression import RegexExpression
    from pest.grammar.rule import Rule
    from pest.grammar.rules import special

    if depth > 40:
        raise Unsupported("depth")
    t = type(e)
    if t is X.Range:
        return sweep_regex(e._re)  # noqa: SLF001
    if t is X.String:
        return [(ord(e.value), ord(e.value))] if len(e.value) == 1 else []
    if t is X.CIString:
        return sweep_regex(e._re) if len(e.value) == 1 else []  # noqa: SLF001
    if t is RegexExpression:
        return sweep_regex(e.regex)
    if t is X.OptimizedChoice or t is X.OptimizedChoiceRepeat:
        return sweep_regex(e.pattern)
    if t is special._Any:  # noqa: SLF001
        return list(ALL)
    if t is X.Choice:
        return ivs_union(*[tree_set(x, rules, depth + 1) for x in e.expressions])
    if t is X.Group and e.tag is None:
        return tree_set(e.expression, rules, depth + 1)
    if t is X.Identifier and e.tag is None:
        if e.value not in rules:
            raise Unsupported("undefined " + e.value)
        return tree_set(rules[e.value], rules, depth + 1)
    if isinstance(e, Rule):
        return tree_set(e.expression, rules, depth + 1)
    raise Unsupported(t.__name__)


_STARTSWITH = stdre.compile(r"^\s*(?:if|elif) state\.input\.startswith\((?P<lit>.+), state\.pos\):\s*$", stdre.M)
_CALL = stdre.compile(r"\bparse_(\w+)\(state")
_FORBIDDEN_GEN = ("state.peek", "state.push", "user_stack", "while ", "for ", "state.drop", "state.pop(")


def gen_set(mod, src, name, depth=0):
    """accepted single code points of the generated function parse_<name> of a terminal-only rule:
    its `re.compile` closure constants, `startswith` literals, the ANY test, and the rules it calls"""
    import regex

    if depth > 40:
        raise Unsupported("depth")
    fn = getattr(mod, "parse_" + name, None)
    head, tail = f"def _parse_{name}()", f"\nparse_{name} = _parse_{name}()"
    if fn is None or head not in src or tail not in src:
        raise Unsupported("no function for " + name)
    block = src[src.index(head) : src.index(tail)]
    if any(w in block for w in _FORBIDDEN_GEN):
        raise Unsupported("not a terminal-only rule: " + name)
    parts = []
    for cell in fn.__closure__ or ():
        v = cell.cell_contents
        if isinstance(v, regex.Pattern):
            parts.append(sweep_regex(v))
    n_re = len(stdre.findall(r"\bRE\d+\.match\(", block))
    if n_re != len(parts):
        raise Unsupported(f"{n_re} regex uses, {len(parts)} constants")
    for m in _STARTSWITH.finditer(block):
        try:
            lit = ast.literal_eval(m.group("lit"))
        except Exception as e:  # noqa: BLE001
            raise Unsupported("startswith argument") from e
        if not isinstance(lit, str):
            raise Unsupported("startswith argument")
        if len(lit) == 1:
            parts.append([(ord(lit), ord(lit))])
    if "if state.pos < len(state.input):" in block:
        parts.append(list(ALL))
    for callee in set(_CALL.findall(block)) - {"trivia", name}:
        parts.append(gen_set(mod, src, callee, depth + 1))
    return ivs_union(*parts)


def shortcut_set(md: Modes, mode: str, kind: str):
    if mode in ("interp", "opt"):
        p = md.p0 if mode == "interp" else md.p1
        if kind == "single":
            return tree_set(p.rules["r"], p.rules)
        from pest.grammar.rule import SILENT, ATOMIC

        skip = p.rules.get("SKIP")
        if skip is not None and skip.modifier == (SILENT | ATOMIC):
            return tree_set(skip, p.rules)
        return tree_set(p.rules["WHITESPACE"], p.rules)
    mod, src = (md.m0, md.src0) if mode == "gen" else (md.m1, md.src1)
    if kind == "single":
        return gen_set(mod, src, "r")
    if hasattr(mod, "parse_SKIP") and "return parse_SKIP(state, pairs)" in src:
        return gen_set(mod, src, "SKIP")
    return gen_set(mod, src, "WHITESPACE")


SPECIAL_CPS = [0, 1, 9, 10, 13, 32, 0x7F, 0x80, 0xFF, 0x100, 0x130, 0x131, 0x17F, 0x212A, 0x1E9E, 0x2028, 0x2029,
               0xD7FF, 0xD800, 0xDBFF, 0xDC00, 0xDFFF, 0xE000, 0xFFFD, 0xFFFE, 0xFFFF, 0x10000, 0x1F600,
               0xE0001, 0x10FFFE, 0x10FFFF]


def boundaries(*sets):
    out = set()
    for s in sets:
        for lo, hi in s or []:
            for p in (lo - 1, lo, hi, hi + 1):
                if 0 <= p < N:
                    out.add(p)
    return out


def full_real_set(gtext, mode, kind, lo=0, hi=N):
    """the slow path: real parse() on every code point of [lo, hi)"""
    md = Modes(gtext)
    parse = md.parse.get(mode)
    if parse is None:
        return None, []
    ivs, start, prev, odd = [], None, None, []
    for cp in range(lo, hi):
        r = real_accept(parse, kind, cp)
        if r is True:
            if start is None:
                start = cp
            prev = cp
        else:
            if r is not False and len(odd) < 5:
                odd.append((cp, r))
            if start is not None:
                ivs.append((start, prev))
                start = None
    if start is not None:
        ivs.append((start, prev))
    return ivs, odd


# ================================================================ one case

def ci_dont_care(atoms):
    """non-ASCII neighbourhood of the ^ alternatives: what `regex` re.I folds onto the literal beyond the
    ASCII case variants the property speaks of (known finding ci-nonascii-fold)"""
    import regex

    out = []
    for a in atoms:
        if a[0] == "ci":
            s = sweep_regex(regex.compile(regex.escape(chr(a[1])), regex.I))
            out = ivs_union(out, ivs_minus(s, atom_spec(a)))
    return out


def probe_strings(atoms, rng):
    """short strings that tell ordered alternatives of different length apart"""
    out = []
    firsts = [a for a in atoms if a[0] in ("char", "ci", "range")]
    for a in atoms:
        if a[0] in ("str", "cistr"):
            s = "".join(map(chr, a[1]))
            out += [s, s[:-1], s + "z", s[:1], s.upper(), s.lower(), s.swapcase(), s[:1] + ""]
        if a[0] == "builtin" and a[1] == "NEWLINE":
            out += ["\n", "\r\n", "\r", "\n\r", "\r\r", "\rx", "\r\n\n", "\n\n", "x\n", "\x0b", "\x0c", "\x85", " ", "\r "]
    for a in firsts[:3]:
        c = chr(a[1])
        out += [c + c, c + "z"]
    seen, res = set(), []
    for s in out:
        if s and s not in seen and all(ord(ch) < 128 or not any(x[0] in ("ci", "cistr") for x in atoms) for ch in s):
            seen.add(s)
            res.append(s)
    return res[:40]


def expr_atoms_ok(md: Modes, kind, atoms):
    """did the front end build the alternatives that were written?  (escapes are eng_escapes' business:
    a mismatch here skips the case instead of blaming the terminals)"""
    from pest.grammar import expressions as X
    from pest.grammar.rule import Rule

    if md.p0 is None:
        return True
    e = md.p0.rules["r" if kind == "single" else "WHITESPACE"].expression
    es = e.expressions if type(e) is X.Choice else [e]
    if len(es) != len(atoms):
        return False
    for x, a in zip(es, atoms):
        t = a[0]
        if t == "char" and not (type(x) is X.String and x.value == chr(a[1])):
            return False
        if t == "ci" and not (type(x) is X.CIString and x.value == chr(a[1])):
            return False
        if t == "range" and not (type(x) is X.Range and x.start == chr(a[1]) and x.stop == chr(a[2])):
            return False
        if t == "str" and not (type(x) is X.String and x.value == "".join(map(chr, a[1]))):
            return False
        if t == "cistr" and not (type(x) is X.CIString and x.value == "".join(map(chr, a[1]))):
            return False
        if t == "builtin" and not ((type(x) is X.Identifier and x.value == a[1])
                                   or (isinstance(x, Rule) and x.name == a[1])):
            return False
    return True


def tokenize_class(cls: str):
    """the members of a class string `[…]` written by _optimize_char_class: ['x', ('a','b'), …] as code points"""
    assert cls.startswith("[") and cls.endswith("]"), cls
    body, i, items = cls[1:-1], 0, []

    def one():
        nonlocal i
        if body[i] == "\\":
            i += 2
            return ord(body[i - 1])
        i += 1
        return ord(body[i - 1])

    while i < len(body):
        a = one()
        if i < len(body) and body[i] == "-":
            i += 1
            b = one()
            items.append(f"{a}-{b}")
        else:
            items.append(str(a))
    return items


def find_optimized_choices(p):
    from pest.grammar import expressions as X

    out = []

    def walk(e):
        if type(e) in (X.OptimizedChoice, X.OptimizedChoiceRepeat):
            out.append(e)
        for c in e.children():
            walk(c)

    for n, r in p.rules.items():
        if n in ("r", "WHITESPACE", "SKIP"):
            walk(r.expression)
    return out


def class_part(pattern: str):
    """the trailing `[…]` of a pattern build_optimized_pattern wrote (None if there is none)"""
    core = pattern
    if core.endswith(")*"):
        core = core[:-1]
    if core.startswith("(?:") and core.endswith(")"):
        core = core[3:-1]
    if not core.endswith("]"):
        return None, core
    # the class is the last alternative; '[' inside is always escaped
    i = len(core) - 1
    while i >= 0 and not (core[i] == "[" and (i == 0 or core[i - 1] != "\\" or _even_backslashes(core, i))):
        i -= 1
    return core[i:], core[:i]


def _even_backslashes(s, i):
    k, j = 0, i - 1
    while j >= 0 and s[j] == "\\":
        k += 1
        j -= 1
    return k % 2 == 0


def eval_case(case, rng, want_driver=True):
    """everything about one pattern.  Returns a dict of findings (picklable)."""
    import pyside as P

    kind, atoms, gtext = case["kind"], [tuple(a) for a in case["atoms"]], case["grammar"]
    res = {"case": case, "concrete": [], "corr": [], "lines": [], "expect": [], "evals": 0, "skipped": None,
           "fallback": [], "nontrivial": 0, "probes": 0, "sets": {}}
    md = Modes(gtext)
    for mode, err in md.errors.items():
        if mode in ("gen", "optgen") and err == "no parser to generate from":
            continue
        res["concrete"].append({"mode": mode, "what": "building this mode raised", "observed": err,
                                "expected": "a parser", "input": None, "code_point": None})
    if md.errors:
        return res
    if not expr_atoms_ok(md, kind, atoms):
        res["skipped"] = "front end built other alternatives than written (escape handling: see eng_escapes)"
        return res
    spec = case_spec(atoms)
    dont_care = ci_dont_care(atoms)
    sets, bad_shortcut = {}, {}
    for mode in MODES:
        try:
            sets[mode] = shortcut_set(md, mode, kind)
        except Unsupported as e:
            sets[mode] = None
            bad_shortcut[mode] = "unsupported shape: " + str(e)
    # ---- validate the shortcut against real parse() calls
    sample = set(range(0x300)) | set(SPECIAL_CPS) | boundaries(spec, dont_care, *[s for s in sets.values() if s])
    sample |= set(rng.sample(range(N), 2000))
    if len(sample) > 9000:
        sample = set(range(0x300)) | set(SPECIAL_CPS) | set(rng.sample(sorted(sample), 7000))
    sample = sorted(sample)
    real = {}
    for mode in MODES:
        parse = md.parse[mode]
        real[mode] = {cp: real_accept(parse, kind, cp) for cp in sample}
        if sets[mode] is not None:
            for cp in sample:
                if (real[mode][cp] is True) != ivs_contains(sets[mode], cp):
                    bad_shortcut[mode] = f"shortcut differs from parse() at U+{cp:04X}"
                    break
    for mode, why in bad_shortcut.items():
        res["fallback"].append(f"{mode}: {why}")
        sets[mode], _ = full_real_set(gtext, mode, kind)
    res["evals"] = 4 * N
    res["sets"] = {m: ivs_show(sets[m], 6) for m in MODES}
    res["nontrivial"] = sum(len(boundaries(sets[m])) for m in MODES)

    def add_concrete(mode, cp, expected, observed, what, ref=None):
        res["concrete"].append({"mode": mode, "code_point": cp, "input": [ord(c) for c in text_of(kind, cp)],
                                "expected": expected, "observed": observed, "what": what, "reference_mode": ref})

    # ---- raised exceptions on the sample
    for mode in MODES:
        for cp in sample:
            if real[mode][cp] not in (True, False):
                add_concrete(mode, cp, "PestParsingError or Pairs", real[mode][cp], "parse() raised something else")
                break
    # ---- impl vs spec, on every code point outside the ^ don't-care set
    if spec is not None:
        for mode in MODES:
            d = ivs_minus(ivs_xor(sets[mode], spec), dont_care)
            if d:
                cp = d[0][0]
                exp = ivs_contains(spec, cp)
                obs = real_accept(md.parse[mode], kind, cp)
                if obs is not exp:
                    add_concrete(mode, cp, exp, obs,
                                 f"accepted set differs from the definition on {ivs_size(d)} code point(s): {ivs_show(d)}")
                else:
                    res["fallback"].append(f"{mode}: set difference at U+{cp:04X} not confirmed by parse()")
    # ---- mode vs mode (reference: interp)
    for mode in MODES[1:]:
        d = ivs_minus(ivs_xor(sets[mode], sets["interp"]), dont_care)
        if d:
            cp = d[0][0]
            exp = real_accept(md.parse["interp"], kind, cp)
            obs = real_accept(md.parse[mode], kind, cp)
            if obs != exp and not any(c["mode"] in (mode, "interp") and c.get("code_point") == cp for c in res["concrete"]):
                add_concrete(mode, cp, exp, obs,
                             f"accepted set differs from the interpreter's on {ivs_size(d)} code point(s): {ivs_show(d)}",
                             ref="interp")
    # ---- ordered alternatives of different length, on strings
    for s in probe_strings(atoms, rng):
        exp = spec_match_len(atoms, s) if kind == "single" else "unknown"
        got = {m: real_match_len(md.parse[m], s) for m in MODES} if kind == "single" else {}
        res["probes"] += len(got)
        for m in MODES:
            if kind != "single":
                break
            ref = exp if exp != "unknown" else got["interp"]
            if got[m] != ref:
                res["concrete"].append({"mode": m, "code_point": None, "input": [ord(c) for c in s],
                                        "expected": ref, "observed": got[m], "string": True,
                                        "what": "length matched by the ordered choice on a string",
                                        "reference_mode": None if exp != "unknown" else "interp"})
    # ---- correspondence with the Lean model
    if want_driver:
        lines, expect = res["lines"], res["expect"]
        # (1) P requests on boundary code points, all four layers
        ups: set = set()
        try:
            gline = "G " + P.ser_rules(md.p0.rules, ups)
            P.ser_rules(md.p1.rules, ups)
        except P.Unsupported:
            gline = None
        if gline is not None:
            import regex

            for nm, pat in sorted(ups):
                ivs = sweep_regex(regex.compile(pat))
                lines.append(f"US {nm} " + " ".join(f"{a} {b}" for a, b in ivs))
                expect.append(("setup", "ok"))
            lines.append(gline)
            expect.append(("setup", "ok"))
            lines.append("O " + PASSES)
            expect.append(("ignore", None))
            pts = sorted(boundaries(spec, *sets.values()) | {0x41, 0x61, 0x10FFFF})
            pts = [p for p in pts if not ivs_contains(dont_care, p)]
            if len(pts) > 48:
                pts = sorted(rng.sample(pts, 48))
            for cp in pts:
                text = text_of(kind, cp)
                for layer in MODES:
                    lines.append(f"P {layer} r 0 {FUEL} {P.enc_str(text)}")
                    got = P.run_parse(md.parse[layer], "r", text, 0)
                    expect.append(("P", got if got.startswith("ok") else got.split(" ")[0]))
        # (2) the class build_optimized_pattern wrote, piece by piece, and as a set
        for oc in find_optimized_choices(md.p1):
            pattern = oc.build_optimized_pattern()
            cls, rest = class_part(pattern)
            try:
                alts = [P.ser_alt(c) for c in oc.choices]
            except P.Unsupported:
                continue
            nonascii_ci = any(a.startswith("L ") and a.endswith(" i") and "." not in a.split(" ")[1]
                              and a.split(" ")[1] != "-" and int(a.split(" ")[1]) > 127 for a in alts)
            if cls is None or nonascii_ci:
                continue
            lines.append(f"CA {len(alts)} " + " ".join(alts))
            try:
                toks = tokenize_class(cls)
            except Exception:  # noqa: BLE001
                toks = ["untokenizable:" + cls]
            expect.append(("CA", ",".join(toks) or "-", cls, sweep_regex(oc.pattern) if rest in ("", "(?:") and not pattern.endswith("*") else None))
    return res


# ================================================================ families

TRICKY = [ord(c) for c in "]-^\\[&|~(){}.*+?$# \t\"'/!,:;<=>@_`%"]
LETTERS = [ord(c) for c in "aAbBkKsSiIzZmM"]
CTRL = [0, 1, 9, 10, 11, 12, 13, 0x1F, 0x7F, 0x80, 0x85, 0xA0]
NONASCII = [0xB5, 0xDF, 0xE9, 0xC9, 0x130, 0x131, 0x149, 0x17F, 0x1C5, 0x1F0, 0x212A, 0x1E9E, 0x3A3, 0x3C3, 0x3C2,
            0x2028, 0xD7FF, 0xE000, 0xFFFD, 0xFFFF]
ASTRAL = [0x10000, 0x10001, 0x1F600, 0x1F64F, 0xE0001, 0x10FFFE, 0x10FFFF]
EXPANDING = [0xDF, 0x149, 0x1F0, 0x130, 0x390, 0x3B0, 0x587, 0x1E96, 0xFB00, 0xFB01, 0x1C5, 0x1C8]  # upper()/lower() longer than one, or titlecase
POOL = TRICKY + LETTERS + CTRL + NONASCII + ASTRAL + [ord(c) for c in "09azAZ"]
NO_SKIP = {0x30, 0x31}      # delimiters of the WHITESPACE family


def fixed_cases(table_names=()):
    cs = []

    def add(family, atoms, kind="single"):
        cs.append({"family": family, "kind": kind, "atoms": [list(a) for a in atoms]})

    # every name pest defines, and every name the regenerated ASCII_RULE_MAP has (a changed or added entry is swept)
    for name in list(PY_ASCII) + [n for n in table_names if n not in PY_ASCII]:
        add("ascii", [("builtin", name)])
    add("newline", [("builtin", "NEWLINE")])
    add("any", [("builtin", "ANY")])
    add("builtin-mix", [("builtin", "ASCII_DIGIT"), ("char", ord("_")), ("builtin", "ASCII_ALPHA")])
    add("builtin-mix", [("builtin", "NEWLINE"), ("char", 9), ("char", 32)])
    add("builtin-mix", [("builtin", "ASCII_HEX_DIGIT"), ("range", ord("g"), ord("z"))])
    # characters that are special inside a class (VERSION1 adds [ & | ~ and the set operators)
    for c in "]-^\\[&|~":
        add("class-special", [("char", ord(c)), ("char", ord("a"))])
        add("class-special", [("range", ord(c), ord(c))])
    add("class-special", [("char", ord("&")), ("char", ord("&")), ("char", ord("a")), ("char", ord("|")), ("char", ord("|"))])
    add("class-special", [("char", ord("[")), ("char", ord("a")), ("char", ord("-")), ("char", ord("-")), ("char", ord("b")), ("char", ord("]"))])
    add("class-special", [("char", ord("~")), ("char", ord("~")), ("range", ord("["), ord("]"))])
    add("class-special", [("range", ord("+"), ord("-")), ("char", ord("a"))])
    add("class-special", [("range", ord("!"), ord("~"))])
    add("class-special", [("char", ord("^")), ("range", ord("-"), ord("/")), ("char", ord("\\"))])
    # the merge boundary: adjacent, one apart, overlapping, nested, repeated, singles inside / next to ranges
    a = ord("a")
    add("merge", [("range", a, a + 2), ("range", a + 3, a + 5)])
    add("merge", [("range", a, a + 2), ("range", a + 4, a + 5)])
    add("merge", [("range", a + 3, a + 5), ("range", a, a + 2)])
    add("merge", [("range", a, a + 9), ("range", a + 2, a + 4), ("char", a + 3), ("char", a + 10), ("char", a + 12)])
    add("merge", [("range", a, a + 4), ("range", a + 2, a + 8), ("range", a + 8, a + 8), ("char", a + 9)])
    add("merge", [("char", a), ("char", a + 1), ("char", a + 2), ("range", a + 3, a + 3)])
    add("merge", [("range", 0, 0), ("range", 1, 9), ("range", 0x10FFFE, 0x10FFFF), ("char", 0x10FFFD)])
    # astral and boundary code points
    add("astral", [("range", 0x10000, 0x10FFFF)])
    add("astral", [("range", 0x10FFFF, 0x10FFFF)])
    add("astral", [("char", 0x10FFFF), ("char", ord("a"))])
    add("astral", [("range", 0xFFFE, 0x10001), ("char", 0x1F600)])
    add("astral", [("range", 0xD7FF, 0xE000)])
    # case: ranges and literals are case sensitive, ^ literals fold ASCII letters only
    add("case", [("range", ord("a"), ord("c"))])
    add("case", [("range", ord("A"), ord("C"))])
    add("case", [("char", ord("k"))])
    for c in "kKsSiIaZ":
        add("ci", [("ci", ord(c))])
        add("ci", [("ci", ord(c)), ("char", ord("0"))])
    add("ci", [("ci", ord("1"))])
    add("ci", [("ci", ord("[")), ("ci", ord("@")), ("ci", ord("`")), ("ci", ord("{")), ("char", ord("a"))])
    add("ci", [("ci", ord("a")), ("range", ord("c"), ord("e")), ("ci", ord("z"))])
    for c in EXPANDING:
        add("ci-expanding", [("ci", c), ("char", ord("a"))])
        add("ci-expanding", [("ci", c), ("range", ord("a"), ord("b"))])
        add("ci-expanding", [("char", c), ("char", ord("a"))])
    # choices that must not be squashed (a later longer alternative would overtake) and ones that are
    add("order", [("char", ord("a")), ("str", [ord("a"), ord("b")]), ("range", ord("c"), ord("e"))])
    add("order", [("str", [ord("a"), ord("b")]), ("char", ord("a")), ("range", ord("c"), ord("e"))])
    add("order", [("range", ord("a"), ord("c")), ("str", [ord("b"), ord("b")])])
    add("order", [("ci", ord("a")), ("str", [ord("A"), ord("b")])])
    add("order", [("cistr", [ord("a"), ord("b")]), ("char", ord("a")), ("char", ord("A"))])
    add("order", [("char", 13), ("str", [13, 10]), ("char", 10)])
    # a multi-character ^ literal in the same squashed choice as ranges, singles and classes: its case-insensitivity must
    # not spill over to them (scoped flag), whatever the order
    add("ci-scope", [("cistr", [ord("o"), ord("n")]), ("range", ord("x"), ord("z")), ("char", ord("_"))])
    add("ci-scope", [("range", ord("x"), ord("z")), ("cistr", [ord("o"), ord("n")]), ("char", ord("q"))])
    add("ci-scope", [("cistr", [ord("o"), ord("f"), ord("f")]), ("builtin", "ASCII_DIGIT"), ("range", ord("a"), ord("f"))])
    add("ci-scope", [("cistr", [ord("1"), ord("k")]), ("char", ord("s")), ("builtin", "ASCII_ALPHA_LOWER")])
    add("ci-scope", [("str", [ord("o"), ord("n")]), ("cistr", [ord("u"), ord("p")]), ("range", 0x3b1, 0x3c9), ("char", 0xb5)])
    # WHITESPACE choices fused into SKIP
    add("skip", [("char", 32), ("char", 9)], "skip")
    add("skip", [("char", 32), ("char", 9), ("char", 10), ("char", 13)], "skip")
    add("skip", [("char", 32), ("range", ord("a"), ord("c")), ("range", ord("d"), ord("f"))], "skip")
    add("skip", [("char", ord("]")), ("char", ord("-")), ("char", ord("^")), ("char", ord("\\")), ("char", ord("["))], "skip")
    add("skip", [("char", 32), ("str", [13, 10]), ("char", 13)], "skip")
    add("skip", [("ci", ord("x")), ("char", 32)], "skip")
    add("skip", [("range", 0x2000, 0x200A), ("char", 0x3000), ("char", 0xA0), ("char", 32)], "skip")
    add("skip", [("range", 0x10000, 0x10FFFF), ("char", 32)], "skip")
    add("skip", [("char", 32), ("builtin", "NEWLINE")], "skip")
    return cs


def random_atom(rng, kind):
    r = rng.random()
    pool = [c for c in POOL if kind != "skip" or c not in NO_SKIP]
    if r < 0.40:
        return ("char", rng.choice(pool))
    if r < 0.80:
        lo = rng.choice(pool)
        w = rng.choice([0, 0, 1, 1, 2, 3, 5, 17, 300, 70000])
        hi = min(N - 1, lo + w)
        if kind == "skip" and lo <= 0x31 and hi >= 0x30:
            return ("char", lo)
        return ("range", lo, hi)
    if r < 0.92:
        return ("ci", rng.choice(LETTERS + TRICKY[:8] + [0x30 + rng.randrange(2, 10)]))
    return ("builtin", rng.choice(list(PY_ASCII))) if kind == "single" else ("char", rng.choice(pool))


def random_cases(rng, n):
    cs = []
    for i in range(n):
        kind = "skip" if i % 6 == 5 else "single"
        k = rng.choice([1, 2, 2, 3, 3, 4, 5, 7])
        atoms = [random_atom(rng, kind) for _ in range(k)]
        if rng.random() < 0.35 and len(atoms) >= 2:
            # neighbours: adjacent / overlapping / one apart from an earlier range
            base = next((a for a in atoms if a[0] == "range"), None)
            if base:
                d = rng.choice([-1, 0, 1, 2])
                lo = min(N - 1, max(0, base[2] + d))
                cand = ("range", lo, min(N - 1, lo + rng.choice([0, 1, 4])))
                if not (kind == "skip" and cand[1] <= 0x31 and cand[2] >= 0x30):
                    atoms.append(cand)
        cs.append({"family": "random-" + kind, "kind": kind, "atoms": [list(a) for a in atoms]})
    return cs


UNICODE_CORE = ["LETTER", "UPPERCASE_LETTER", "LOWERCASE_LETTER", "TITLECASE_LETTER", "CASED_LETTER", "NUMBER", "DECIMAL_NUMBER",
                "PUNCTUATION", "SYMBOL", "SEPARATOR", "OTHER", "UNASSIGNED", "WHITE_SPACE", "ALPHABETIC", "UPPERCASE", "LOWERCASE",
                "LATIN", "GREEK", "HAN", "COMMON"]


def unicode_cases(rng, names, n_single, n_mix):
    cs = []
    core = [n for n in UNICODE_CORE if n in names]
    pick = names if n_single >= len(names) else core + rng.sample([n for n in names if n not in core], max(0, n_single - len(core)))
    for nm in pick:
        cs.append({"family": "unicode", "kind": "single", "atoms": [["builtin", nm]]})
    for _ in range(n_mix):
        a, b = rng.sample(names, 2)
        shape = rng.choice([0, 1, 2])
        if shape == 0:
            atoms = [["builtin", a], ["builtin", b]]
        elif shape == 1:
            atoms = [["builtin", a], ["char", ord("_")], ["range", ord("0"), ord("9")]]
        else:
            atoms = [["char", ord("-")], ["builtin", a], ["ci", ord("x")], ["builtin", b]]
        cs.append({"family": "unicode-mix", "kind": "single", "atoms": atoms})
    return cs


# ================================================================ workers

def _worker(args):
    sd, cases = args
    use_repo()
    rng = random.Random(sd)
    out = []
    for c in cases:
        c = {**c, "grammar": grammar_of(c["kind"], [tuple(a) for a in c["atoms"]])}
        try:
            r = eval_case(c, rng)
        except Exception as e:  # noqa: BLE001
            import traceback

            r = {"case": c, "concrete": [], "corr": [], "lines": [], "expect": [], "evals": 0, "skipped": None,
                 "fallback": [], "nontrivial": 0, "probes": 0, "sets": {},
                 "crash": f"{type(e).__name__}: {e}\n{traceback.format_exc()[-600:]}"}
        # correspondence: one driver session per case
        if r["lines"]:
            answers = run_driver(r["lines"], shards=1)
            for ln, ex, an in zip(r["lines"], r["expect"], answers):
                tag = ex[0]
                if tag == "ignore":
                    continue
                if tag in ("setup",):
                    if an != ex[1]:
                        r["corr"].append({"request": ln[:300], "impl": ex[1], "model": an})
                elif tag == "P":
                    got = an if an.startswith("ok") else an.split(" ")[0]
                    if got != ex[1]:
                        r["corr"].append({"request": ln, "impl": ex[1], "model": an[:200]})
                elif tag == "CA":
                    # s:<…> r:<…> p:<pieces>
                    pieces = an.split(" p:")[-1] if " p:" in an else an
                    if pieces != ex[1]:
                        r["corr"].append({"request": ln[:300], "impl": f"{ex[2]!r} = {ex[1]}", "model": an[:300]})
                    elif ex[3] is not None:
                        lean_set = ivs_norm([tuple(int(x) for x in (p.split("-") if "-" in p else (p, p)))
                                             for p in pieces.split(",") if p != "-"])
                        if lean_set != ivs_norm(ex[3]):
                            d = ivs_xor(lean_set, ivs_norm(ex[3]))
                            r["corr"].append({"request": ln[:300], "impl": "regex engine on " + repr(ex[2]) + " accepts " + ivs_show(ex[3]),
                                              "model": "class set " + ivs_show(lean_set) + " differs at " + ivs_show(d)})
            r["requests"] = len(r["lines"])
        r.pop("lines", None)
        r.pop("expect", None)
        out.append(r)
    return out, dict(SWEEP_STATS)


def _full_worker(args):
    gtext, mode, kind, lo, hi = args
    use_repo()
    ivs, odd = full_real_set(gtext, mode, kind, lo, hi)
    return gtext, mode, ivs, odd


def _class_worker(args):
    """`_optimize_char_class` itself against `mergeCharClass`: pieces, and the regex engine's reading of
    the written class against the Lean set"""
    sd, count, n_sweep = args
    use_repo()
    import regex
    from pest.grammar.expressions.choice import _optimize_char_class

    rng = random.Random(sd)
    lines, expect = [], []
    for i in range(count):
        ns, nr = rng.choice([0, 1, 2, 3, 5]), rng.choice([0, 1, 2, 3, 4, 6])
        if ns + nr == 0:
            ns = 1
        base = rng.choice(POOL)
        singles = [min(N - 1, max(0, base + rng.randrange(-3, 12))) if rng.random() < 0.6 else rng.choice(POOL) for _ in range(ns)]
        ranges = []
        for _ in range(nr):
            lo = min(N - 1, max(0, base + rng.randrange(-4, 14))) if rng.random() < 0.7 else rng.choice(POOL)
            hi = min(N - 1, lo + rng.choice([0, 0, 1, 2, 3, 6, 40]))
            ranges.append((hi, lo) if rng.random() < 0.15 else (lo, hi))      # swapped bounds: only reachable through the API
        cls = _optimize_char_class([chr(c) for c in singles], [(chr(a), chr(b)) for a, b in ranges])
        args_ = f"{len(singles)} " + " ".join(map(str, singles)) + f" {len(ranges)} " + " ".join(f"{a} {b}" for a, b in ranges)
        args_ = " ".join(args_.split())
        lines.append("CC " + args_)
        try:
            toks = ",".join(tokenize_class(cls)) or "-"
        except Exception:  # noqa: BLE001
            toks = "untokenizable"
        expect.append(("CC", toks, cls, singles, ranges))
        spec = ivs_union([(c, c) for c in singles], [(min(a, b), max(a, b)) for a, b in ranges])
        try:
            rx = regex.compile(cls, regex.VERSION1)
        except regex.error as e:
            lines.append("CM " + args_ + f" {spec[0][0]}")
            expect.append(("CM", f"raises regex.error: {e}", cls, spec[0][0], True))
            continue
        for cp in sorted(boundaries(spec))[:24]:
            lines.append(f"CM {args_} {cp}")
            expect.append(("CM", "1" if rx.match(chr(cp)) else "0", cls, cp, ivs_contains(spec, cp)))
        if i < n_sweep:
            lines.append("CC " + args_)
            expect.append(("CCS", sweep_regex(rx), cls, spec))
    answers = run_driver(lines, shards=1)
    corr, concrete = [], []
    for ln, ex, an in zip(lines, expect, answers):
        if ex[0] == "CC":
            pieces = an.split(" p:")[-1] if " p:" in an else an
            if pieces != ex[1]:
                corr.append({"request": ln, "impl": f"{ex[2]!r} = {ex[1]}", "model": an})
        elif ex[0] == "CM":
            if ex[1] != ("1" if ex[4] else "0"):
                concrete.append({"what": "_optimize_char_class: the written class does not accept the union of its inputs",
                                 "class": ex[2], "request": ln, "code_point": ex[3], "expected": ex[4],
                                 "observed": ex[1] == "1" if ex[1] in "01" else ex[1]})
            if an != ex[1]:
                corr.append({"request": ln, "impl": f"{ex[2]!r} accepts: {ex[1]}", "model": an})
        else:
            pieces = an.split(" p:")[-1] if " p:" in an else an
            try:
                lean_set = ivs_norm([tuple(int(x) for x in (p.split("-") if "-" in p else (p, p)))
                                     for p in pieces.split(",") if p != "-"])
            except ValueError:
                lean_set = None
            if lean_set != ivs_norm(ex[1]):
                corr.append({"request": ln, "impl": f"regex engine on {ex[2]!r}: {ivs_show(ex[1])}", "model": an[:200]})
            if ivs_norm(ex[1]) != ex[3]:
                d = ivs_xor(ivs_norm(ex[1]), ex[3])
                concrete.append({"what": "_optimize_char_class: the written class does not accept the union of its inputs",
                                 "class": ex[2], "request": ln, "code_point": d[0][0], "expected": ivs_contains(ex[3], d[0][0]),
                                 "observed": ivs_contains(ivs_norm(ex[1]), d[0][0])})
    return len(lines), corr, concrete


# ================================================================ tables

def table_requests(tables):
    """regenerated tables and Lean definitions against what the imported modules say"""
    lines, expect = [], []
    for name, ivs in tables["ascii_map"]:
        lines.append(f"AT {name}")
        expect.append(",".join(f"{a}-{b}" for a, b in ivs) or "-")
        py = ivs_norm([(ord(c), ord(c)) for c in PY_ASCII.get(name, "")])
        lines.append(f"AS {name}")
        expect.append(",".join(f"{a}-{b}" for a, b in py) or "-")
    for name in PY_ASCII:
        if name not in {n for n, _ in tables["ascii_map"]}:
            lines.append(f"AT {name}")
            expect.append("present in ASCII_RULE_MAP")
    lines.append("NL")
    expect.append("|".join(".".join(str(ord(c)) for c in s) for s in tables["newline"]))
    for text, pos in (("\r\n", 0), ("\r", 0), ("\n", 0), ("\n\r", 0), ("a\r\n", 1), ("x", 0), ("", 0), ("\r\r\n", 0)):
        enc = ".".join(str(ord(c)) for c in text) or "-"
        lines.append(f"NLM {enc} {pos}")
        m = spec_match_len([("builtin", "NEWLINE")], text[pos:])
        expect.append("none" if m is None else str(pos + m))
    lines.append("UT")
    expect.append(f"ok {len(tables['unicode'])}")
    for name, pat, _ in tables["unicode"][:: max(1, len(tables["unicode"]) // 25)]:
        lines.append(f"UP {name}")
        expect.append(".".join(str(ord(c)) for c in pat))
    return lines, expect


# ================================================================ shrinking, replay

def check_point(gtext, kind, atoms, mode, inp, ref_mode=None):
    """re-evaluate one (grammar, mode, input): (expected, observed)"""
    md = Modes(gtext)
    if mode in md.errors:
        return "a parser", "raises " + md.errors[mode].split(":")[0]
    text = "".join(map(chr, inp))
    single = (kind == "single" and len(text) == 1) or (kind == "skip" and len(text) == 3)
    if single:
        cp = ord(text[0] if kind == "single" else text[1])
        obs = real_accept(md.parse[mode], kind, cp)
        if ref_mode:
            return real_accept(md.parse[ref_mode], kind, cp), obs
        spec = case_spec([tuple(a) for a in atoms])
        return (ivs_contains(spec, cp) if spec is not None else None), obs
    obs = real_match_len(md.parse[mode], text)
    if ref_mode:
        return real_match_len(md.parse[ref_mode], text), obs
    return spec_match_len([tuple(a) for a in atoms], text), obs


def shrink_case(case, c):
    """drop alternatives while the same (mode, input) keeps failing the same way"""
    atoms, kind = [list(a) for a in case["atoms"]], case["kind"]
    if c.get("input") is None:
        return case
    changed = True
    while changed and len(atoms) > 1:
        changed = False
        for i in range(len(atoms)):
            cand = atoms[:i] + atoms[i + 1 :]
            g = grammar_of(kind, [tuple(a) for a in cand])
            try:
                exp, obs = check_point(g, kind, cand, c["mode"], c["input"], c.get("reference_mode"))
            except Exception:  # noqa: BLE001
                continue
            if exp != obs and obs == c["observed"] and exp == c["expected"]:
                atoms, changed = cand, True
                break
    return {**case, "atoms": atoms, "grammar": grammar_of(kind, [tuple(a) for a in atoms])}


# ---------------------------------------------------------------- ^ literals where the optimizer rewrites around them

CI_CONTEXTS = [
    # (name, grammar with {L} = the literal's text, inputs built from a case variant V of the literal, expected verdict)
    ("skip terminator", 'r = @{{ (!^"{L}" ~ ANY)* ~ ^"{L}" ~ EOI }}', ["x1{V}", "{V}", "q7 {V}"]),
    ("skip terminator in a choice", 'r = @{{ (!(^"{L}" | ";") ~ ANY)* ~ (^"{L}" | ";") ~ EOI }}', ["x{V}", "{V}"]),
    ("skip terminator through a rule", 'r = @{{ (!t ~ ANY)* ~ t ~ EOI }}\nt = {{ ^"{L}" }}', ["x{V}", "{V}"]),
    ("squashed choice", 'r = {{ (^"{L}" | "#" | \'0\'..\'1\')+ ~ EOI }}', ["{V}", "#{V}0", "{V}{V}"]),
    ("inlined silent rule", 'r = {{ k ~ "!" ~ EOI }}\nk = _{{ ^"{L}" }}', ["{V}!"]),
    ("fused WHITESPACE", 'WHITESPACE = _{{ ^"{L}" | " " }}\nr = {{ "0" ~ "1" ~ EOI }}', ["0{V}1", "0 {V} 1"]),
]


def ci_context_failures() -> list[dict]:
    """every ASCII case variant of a multi-character ^ literal must be accepted, in all four modes, also where an optimizer
    pass rewrites the expression the literal sits in (skip terminators, squashed choices, inlined rules, the fused SKIP rule)"""
    import itertools

    from pest import Parser
    import pyside as PS
    out = []
    for lit in ("end", "Ab", "x9z"):
        variants = sorted({"".join(c) for c in itertools.product(*[(ch.lower(), ch.upper()) for ch in lit])})
        for name, gt, ins in CI_CONTEXTS:
            g = gt.format(L=lit)
            try:
                p0, p1 = Parser.from_grammar(g, optimizer=None), Parser.from_grammar(g)
                modes = {"interp": p0.parse, "opt": p1.parse, "gen": PS.load_generated(p0.generate()).parse,
                         "optgen": PS.load_generated(p1.generate()).parse}
            except Exception as e:  # noqa: BLE001
                out.append({"context": name, "grammar": g, "mode": "load", "input": "", "what": f"{type(e).__name__} while building the modes"})
                continue
            for v in variants:
                for it in ins:
                    text = it.format(V=v)
                    for m, parse in modes.items():
                        try:
                            parse("r", text)
                            ok = True
                        except Exception:  # noqa: BLE001
                            ok = False
                        if not ok:
                            out.append({"context": name, "grammar": g, "mode": m, "input": text,
                                        "what": f"^\"{lit}\" ({name}): the ASCII case variant {v!r} is not accepted"})
    return out


# literals that are different strings but look alike once printed (a line feed and backslash + n, …), in choices the optimizer
# fuses, in one grammar and in grammars loaded one after the other: each rule accepts exactly its own alternatives


def lookalike_failures() -> list[dict]:
    from pest import Parser
    import pyside as PS

    def esc(x):        # the text of a pest string literal that denotes x
        return '"' + "".join({"\n": "\\n", "\t": "\\t", "\r": "\\r", '"': '\\"', "\\": "\\\\"}.get(c, c) for c in x) + '"'

    pairs = [("\n", "\\n"), ("\t", "\\t"), ("\r", "\\r"), ("\\", "\\\\")]
    real = [a for a, _ in pairs]
    written = [b for _, b in pairs]
    rules = {"ws": real[:2], "esc": written[:2], "cr": [real[2], "a"], "crw": [written[2], "a"], "bs": [real[3], "b"], "bsw": [written[3], "b"]}
    one = "\n".join(f"{n} = {{ {' | '.join(esc(x) for x in alts)} }}" for n, alts in rules.items())
    grammars = [("one grammar", one, list(rules))]
    for n, alts in rules.items():                      # … and each rule in a grammar of its own, loaded in this order
        grammars.append((f"grammar of its own, loaded after the others ({n})", f"{n} = {{ {' | '.join(esc(x) for x in alts)} }}", [n]))
    inputs = sorted({x for alts in rules.values() for x in alts} | {"\\", "n", "t", "r", ""})
    out = []
    for label, g, names in grammars:
        try:
            p0, p1 = Parser.from_grammar(g, optimizer=None), Parser.from_grammar(g)
            modes = {"interp": p0.parse, "opt": p1.parse, "gen": PS.load_generated(p0.generate()).parse,
                     "optgen": PS.load_generated(p1.generate()).parse}
        except Exception as e:  # noqa: BLE001
            out.append({"context": label, "grammar": g, "mode": "load", "input": "", "rule": names[0], "what": f"{type(e).__name__} while building the modes"})
            continue
        for n in names:
            for text in inputs:
                want = next((len(x) for x in rules[n] if text.startswith(x)), None)
                for m, parse in modes.items():
                    try:
                        got = parse(n, text)[0].end
                    except Exception:  # noqa: BLE001
                        got = None
                    if got != want:
                        out.append({"context": label, "grammar": g, "mode": m, "input": text, "rule": n,
                                    "what": f"rule {n} on {text!r}: matched length {got}, its alternatives {rules[n]!r} say {want}"})
    return out


def replay(out: Outcome, payload: dict) -> None:
    use_repo()
    if payload.get("kind_of_case") == "lookalike":
        out.coverage = {"explanation": "replay of the look-alike literal cases", "evaluations": 1, "distinct_nontrivial": 2}
        for f in lookalike_failures():
            if f["mode"] == payload.get("mode") and f["input"] == payload.get("input") and f["rule"] == payload.get("rule"):
                out.violation(payload)
                return
        return
    if payload.get("kind_of_case") == "ci-context":
        out.coverage = {"explanation": "replay of the ^ literal context cases", "evaluations": 1, "distinct_nontrivial": 2}
        for f in ci_context_failures():
            if f["grammar"] == payload.get("grammar") and f["mode"] == payload.get("mode") and f["input"] == payload.get("input"):
                out.violation(payload)
                return
        return
    out.coverage = {"explanation": "replay of one (grammar, mode, input) case", "evaluations": 1, "distinct_nontrivial": 2,
                    "samples": [{k: payload.get(k) for k in ("grammar", "mode", "input", "expected")}]}
    if payload.get("kind_of_case") == "escape":
        if eng_escapes is None:
            out.infra_error = "harness/eng_escapes.py not present"
            return
        still = eng_escapes.replay_escape(payload["replay"])
        if still:
            out.violation({**payload, "still_failing": still})
        return
    if payload.get("kind_of_case") == "char-class":
        import regex
        from pest.grammar.expressions.choice import _optimize_char_class

        cls = _optimize_char_class([chr(c) for c in payload["singles"]], [(chr(a), chr(b)) for a, b in payload["ranges"]])
        try:
            obs = bool(regex.compile(cls, regex.VERSION1).match(chr(payload["code_point"])))
        except regex.error as e:
            obs = f"raises regex.error: {e}"
        if obs != payload["expected"]:
            out.violation({**payload, "observed": obs})
        return
    if payload.get("input") is None:
        md = Modes(payload["grammar"])
        if payload["mode"] in md.errors:
            out.violation({**payload, "observed": md.errors[payload["mode"]]})
        return
    exp, obs = check_point(payload["grammar"], payload["kind"], payload["atoms"], payload["mode"], payload["input"],
                           payload.get("reference_mode"))
    if exp != obs:
        out.violation({**payload, "expected": exp, "observed": obs})


def known_finding_still_there():
    """witness of ci-nonascii-fold: ^"k" | "a" on U+212A"""
    md = Modes('r = { ^"k" | "a" }')
    if md.errors:
        return False
    a = real_accept(md.parse["interp"], "single", 0x212A)
    b = real_accept(md.parse["opt"], "single", 0x212A)
    return a != b or a is True


# ================================================================ main

def run(out: Outcome) -> None:  # noqa: PLR0912, PLR0915
    use_repo()
    thorough = out.tier == "thorough"
    t0 = time.time()
    exp = export_tables.export_all()
    tables = exp["tables"]
    info = proof_stage(out, "C12", THEOREMS_ALL, extra_targets=EXTRA_TARGETS)
    if not info.get("driver_ok"):
        out.infra_error = "Lean driver does not build: " + "; ".join(info.get("broken", []))[:400]
        return
    probe = run_driver(["AS ASCII_DIGIT"], shards=1)
    if probe != ["48-57"]:
        out.infra_error = f"pestdriver does not answer the CharSet requests (AS ASCII_DIGIT -> {probe!r}): Drv.handleCharSet not wired into Driver.lean?"
        return
    t_proof = time.time() - t0

    rng = random.Random(seed() * 7919 + 12)
    unames = [n for n, _, _ in tables["unicode"]]
    cases = fixed_cases([n for n, _ in tables["ascii_map"]])
    cases += random_cases(rng, 400 if thorough else 40)
    cases += unicode_cases(rng, unames, len(unames) if thorough else 40, 60 if thorough else 8)
    rng.shuffle(cases)
    chunk = max(1, min(8, len(cases) // (NCPU * 3) or 1))
    jobs = [(seed() * 1000003 + i, cases[i : i + chunk]) for i in range(0, len(cases), chunk)]

    concrete, corr, fallbacks, skipped, crashes = [], [], [], [], []
    evals = nontriv = requests = probes = 0
    fam_count: dict = {}
    sweep_stats = {"finditer": 0, "per_char": 0, "cached": 0}
    samples = []
    results = []
    phase = {}
    with mp.Pool(NCPU) as pool:
        t1 = time.time()
        for rs, st in pool.imap_unordered(_worker, jobs):
            for k in sweep_stats:
                sweep_stats[k] += st.get(k, 0)
            results += rs
        phase["patterns_s"] = round(time.time() - t1, 1)
        t1 = time.time()
        # tables + the class builder on its own
        ccount = 6000 if thorough else 1200
        cjobs = [(seed() * 31 + 1000 + i, ccount // NCPU + 1, (40 if thorough else 8)) for i in range(NCPU)]
        class_res = pool.map(_class_worker, cjobs)
        phase["char_class_s"] = round(time.time() - t1, 1)
        t1 = time.time()
        # the slow path on a few patterns: 1 114 112 real parse() calls per mode, split over the pool
        full_cases = [c for c in cases if c["family"] in ("ascii", "class-special", "merge", "ci", "skip", "newline", "order")]
        rng2 = random.Random(seed() * 13 + 5)
        rng2.shuffle(full_cases)
        full_cases = full_cases[: (12 if thorough else 2)]
        step = N // (NCPU * 2) + 1
        fjobs = []
        for c in full_cases:
            g = grammar_of(c["kind"], [tuple(a) for a in c["atoms"]])
            for mode in MODES:
                fjobs += [(g, mode, c["kind"], lo, min(N, lo + step)) for lo in range(0, N, step)]
        full_sets: dict = {}
        for g, mode, ivs, odd in pool.imap_unordered(_full_worker, fjobs):
            full_sets.setdefault((g, mode), []).extend(ivs or [])
        phase["full_parse_s"] = round(time.time() - t1, 1)
    for r in results:
        c = r["case"]
        fam_count[c["family"]] = fam_count.get(c["family"], 0) + 1
        evals += r["evals"]
        nontriv += r["nontrivial"]
        requests += r.get("requests", 0)
        probes += r["probes"]
        if r.get("crash"):
            crashes.append({"grammar": c["grammar"], "crash": r["crash"]})
        if r["skipped"]:
            skipped.append({"grammar": c["grammar"], "why": r["skipped"]})
        fallbacks += [{"grammar": c["grammar"], "why": f} for f in r["fallback"]]
        concrete += [(c, x) for x in r["concrete"]]
        corr += [{**x, "grammar": c["grammar"]} for x in r["corr"]]
        if len(samples) < 6 and c["family"] in ("class-special", "merge", "ci", "skip", "unicode-mix", "ascii") \
                and c["family"] not in {s["family"] for s in samples}:
            samples.append({"family": c["family"], "grammar": c["grammar"], "accepted": r["sets"]})
    # the slow path agrees with the spec / the other modes?
    full_n = 0
    for c in full_cases:
        g = grammar_of(c["kind"], [tuple(a) for a in c["atoms"]])
        atoms = [tuple(a) for a in c["atoms"]]
        spec, dc = case_spec(atoms), ci_dont_care(atoms)
        for mode in MODES:
            got = ivs_norm(full_sets.get((g, mode), []))
            full_n += N
            ref = spec if spec is not None else ivs_norm(full_sets.get((g, "interp"), []))
            d = ivs_minus(ivs_xor(got, ref), dc)
            if d:
                cp = d[0][0]
                concrete.append(({**c, "grammar": g}, {
                    "mode": mode, "code_point": cp, "input": [ord(x) for x in text_of(c["kind"], cp)],
                    "expected": ivs_contains(ref, cp), "observed": ivs_contains(got, cp),
                    "what": "full sweep with parse(): accepted set differs on " + ivs_show(d),
                    "reference_mode": None if spec is not None else "interp"}))
    evals += full_n
    class_requests = 0
    class_concrete = []
    for nreq, ccorr, cconc in class_res:
        class_requests += nreq
        corr += ccorr
        class_concrete += cconc
    # tables
    tl, te = table_requests(tables)
    ta = run_driver(tl, shards=1)
    for ln, e, a in zip(tl, te, ta):
        if e != a:
            corr.append({"request": ln, "impl": e, "model": a, "kind": "table"})
    requests += len(tl) + class_requests

    # ---- escapes (harness/eng_escapes.py, written separately; merged into this verdict)
    esc_info: dict = {"ran": False}
    esc_concrete: list = []
    if eng_escapes is None:
        esc_info["why"] = "harness/eng_escapes.py not usable: " + str(ESCAPES_IMPORT_ERROR)
    else:
        try:
            er = eng_escapes.run_escape_part(out)
            esc_concrete = list(er.get("concrete") or [])
            for x in er.get("corr") or []:
                corr.append({**x, "kind": "escapes"})
            evals += int(er.get("evaluations") or 0)
            nontriv += int(er.get("distinct_nontrivial") or 0)
            requests += int(er.get("driver_requests") or 0)
            esc_info = {"ran": True, **{k: er.get(k) for k in ("evaluations", "driver_requests", "distinct_nontrivial", "distinct_bodies",
                                                               "concrete_total", "corr_total", "parse_skipped_lone_surrogates", "rule", "samples")}}
        except Exception as e:  # noqa: BLE001
            import traceback

            esc_info = {"ran": False, "error": f"{type(e).__name__}: {e}", "trace": traceback.format_exc()[-400:]}
            out.infra_error = f"escape part crashed: {type(e).__name__}: {e}"

    # ---- verdict (DESIGN §5)
    if crashes:
        out.infra_error = "harness crashed on a case: " + crashes[0]["crash"][:300]
    reported = set()
    n_conc = 0
    concrete.sort(key=lambda cx: (len(cx[0]["atoms"]), len(cx[0]["grammar"]), str(cx[1].get("code_point"))))
    for c, x in concrete:
        sig = (c["family"], x["what"].split(":")[0].split(" on ")[0], x.get("string", False))
        if sig in reported or n_conc >= 8:
            continue
        reported.add(sig)
        n_conc += 1
        sc = shrink_case(c, x) if x.get("input") is not None else c
        try:
            exp2, obs2 = check_point(sc["grammar"], sc["kind"], sc["atoms"], x["mode"], x["input"], x.get("reference_mode")) \
                if x.get("input") is not None else (x["expected"], x["observed"])
        except Exception:  # noqa: BLE001
            exp2, obs2 = x["expected"], x["observed"]
        out.violation({"kind_of_case": "terminal", "grammar": sc["grammar"], "rule": "r", "kind": sc["kind"], "atoms": sc["atoms"],
                       "family": sc["family"], "mode": x["mode"], "code_point": x.get("code_point"), "input": x.get("input"),
                       "input_repr": None if x.get("input") is None else repr("".join(map(chr, x["input"]))),
                       "expected": exp2, "observed": obs2, "reference_mode": x.get("reference_mode"), "what": x["what"],
                       "shrunk_from": c["grammar"], "seed": seed(), "command": "./check C12 --replay <this file>"})
    for f in lookalike_failures()[:2]:
        out.violation({"kind_of_case": "lookalike", **f, "expected": "each rule accepts exactly its own alternatives, in every mode",
                       "observed": f["what"], "seed": seed(), "command": "./check C12 --replay <this file>"})
        n_conc += 1
    ci_ctx = ci_context_failures()
    for f in ci_ctx[:2]:
        out.violation({"kind_of_case": "ci-context", **f, "rule": "r", "expected": "accepted in every mode", "observed": "rejected",
                       "seed": seed(), "command": "./check C12 --replay <this file>"})
        n_conc += 1
    seen_cls = set()
    for x in class_concrete:
        if (x["class"], x["code_point"]) in seen_cls or len(seen_cls) >= 2:
            continue
        seen_cls.add((x["class"], x["code_point"]))
        toks = x["request"].split()[1:]
        ns = int(toks[0])
        singles = [int(t) for t in toks[1 : 1 + ns]]
        nr = int(toks[1 + ns])
        flat = [int(t) for t in toks[2 + ns : 2 + ns + 2 * nr]]
        out.violation({"kind_of_case": "char-class", "singles": singles, "ranges": [flat[i : i + 2] for i in range(0, len(flat), 2)],
                       "class": x["class"], "code_point": x["code_point"], "expected": x["expected"], "observed": x["observed"],
                       "what": x["what"], "mode": "opt", "seed": seed(), "command": "./check C12 --replay <this file>"})
        n_conc += 1
    for x in esc_concrete:
        out.violation({"kind_of_case": "escape", **x, "seed": seed(), "command": "./check C12 --replay <this file>"})
        n_conc += 1
    corr.sort(key=lambda c: len(str(c.get("request", ""))))
    if n_conc == 0 and not out.violations:
        if corr:
            out.unproved({"broken": "correspondence " + str(corr[0].get("request"))[:400], "model_answer": corr[0].get("model"),
                          "code_answer": corr[0].get("impl"), "grammar": corr[0].get("grammar"), "more": corr[1:5],
                          "searched": {"cases": evals, "note": "every swept pattern agreed with its definition and across the four modes"}})
        elif info["broken"]:
            out.unproved({"broken": "theorem " + "; ".join(info["broken"])[:1500],
                          "searched": {"cases": evals, "note": "regenerated tables and every swept pattern agree with the definitions "
                                                                "and with the Lean model; no failing input"}})
    if known_finding_still_there():
        out.known.append(FINDING_TEXT)

    n_cases = len(results)
    mism_summary: dict = {}
    for c, x in concrete:
        k = f"{c['family']}/{x['mode']}"
        mism_summary[k] = mism_summary.get(k, 0) + 1
    out.coverage = {
        **proof_coverage(info, "C12"),
        "evaluations": evals,
        "distinct_nontrivial": nontriv,
        "driver_requests": requests,
        "patterns": n_cases,
        "patterns_by_family": dict(sorted(fam_count.items())),
        "rule": f"{n_cases} one-rule grammars r = {{ terminal | … }} (and WHITESPACE choices observed through \"0\" ~ \"1\" ~ EOI) x 4 modes x "
                f"all 1,114,112 code points (surrogates included): every ASCII_* rule, NEWLINE, ANY, fixed families for characters special "
                f"in a class (] - ^ \\ [ & | ~), adjacent / overlapping / nested ranges, astral ranges, case, ^ literals (letters, digits, "
                f"punctuation, characters whose upper()/lower() is longer than one), choices that must and must not squash, SKIP, "
                f"{40 if not thorough else 400} seeded random mixed choices, {fam_count.get('unicode', 0)} Unicode property rules and "
                f"{fam_count.get('unicode-mix', 0)} choices containing them (mode against mode).  Accepted sets come from the compiled regex "
                f"objects / closure constants each mode really uses (one finditer over all code points), validated per (pattern, mode) by "
                f"real parse() calls on U+0000..U+02FF, all interval boundaries ±1, special code points and 2000 seeded random ones; "
                f"{len(full_cases)} patterns x 4 modes were also swept with 1,114,112 real parse() calls each ({full_n} calls).  "
                f"{class_requests} requests compare _optimize_char_class with the Lean mergeCharClass (pieces, membership, full sets); "
                f"{probes} string probes check ordered alternatives of different length (CR LF).  Non-trivial = interval boundaries "
                f"of the accepted sets (where an off-by-one would show).",
        "exhaustive": True,
        "samples": samples,
        "sweep_stats": sweep_stats,
        "shortcut_fallbacks": fallbacks[:10],
        "skipped_frontend": skipped[:10],
        "skipped_frontend_count": len(skipped),
        "correspondence_mismatches": len(corr),
        "reference_mismatches": len(concrete) + len(class_concrete),
        "reference_mismatches_by_family_mode": mism_summary,
        "escapes": esc_info,
        "tables_regenerated": exp["changed"],
        "proof_stage_s": round(t_proof, 1),
        "phase_s": phase,
    }
    out.assumptions = [
        "what the `regex` engine does with a class string, re.I and \\p{…} is not modelled in Lean; it is observed exhaustively "
        "(all code points) for every swept pattern, so the tie is complete for those patterns and only for those",
        "^\"x\" is claimed for ASCII input only: non-ASCII code points that regex re.I folds onto the literal (U+212A, U+017F, "
        "U+0130, U+0131, and the Unicode case partners of a non-ASCII literal) are excluded from the comparisons and recorded as "
        "known finding ci-nonascii-fold",
        "lone surrogates U+D800..U+DFFF are code points like any other for the Python implementation and for the model "
        "(pest itself cannot represent them)",
        "'b'..'a' (bounds swapped) cannot be written: Range('b','a') raises at load; _optimize_char_class's swap is exercised through the API only",
        "the one-rule grammars are written with raw characters or \\u{XXXXXX}; if the front end builds other alternatives than written "
        "the pattern is skipped here (escapes are checked by eng_escapes)",
        "Unicode property rules have no definition in the property: their sets are compared mode against mode only",
    ]
