#!/bin/sh
# collect_mutant.sh <worktree> <seeded-id>   — copy MUTANT/ of a scratch worktree to /verif/seeded/<id>, verify it, remove the worktree
set -e
WT="$1"; ID="$2"; DST=/verif/seeded/$ID
mkdir -p "$DST"
cp "$WT/MUTANT/patch.diff" "$WT/MUTANT/demo.py" "$WT/MUTANT/meta.json" "$DST/"
CLEAN=/tmp/verify_clean_$$; MUT=/tmp/verify_mut_$$
git -C /repo worktree add -q --detach "$CLEAN" HEAD
git -C /repo worktree add -q --detach "$MUT" HEAD
git -C "$MUT" apply --whitespace=nowarn "$DST/patch.diff"
echo "--- demo on clean tree:"; (cd "$CLEAN" && PYTHONPATH="$CLEAN/src" /venv/bin/python "$DST/demo.py" | tail -2; echo "exit=$?")
echo "--- demo on changed tree:"; (cd "$MUT" && PYTHONPATH="$MUT/src" /venv/bin/python "$DST/demo.py" | tail -3; echo "exit=$?") || true
echo "--- suite on changed tree:"; (cd "$MUT" && PYTHONPATH="$MUT/src" /venv/bin/python -m pytest -q -p no:cacheprovider --continue-on-collection-errors 2>&1 | tail -1)
git -C /repo worktree remove --force "$CLEAN"; git -C /repo worktree remove --force "$MUT"
git -C /repo worktree remove --force "$WT" 2>/dev/null || true
rm -rf "$CLEAN" "$MUT" "$WT"
