#!/bin/sh
# collect_and_run.sh <worktree> <seeded-id>: collect a mutant and run its property's quick check on it with seeds 0 and 1
set -e
/verif/harness/collect_mutant.sh "$1" "$2" 2>&1 | tail -4
cd /verif
for s in 0 1; do VERIF_SEED=$s /venv/bin/python harness/run_seeded.py --only "$2" 2>&1 | tail -1; done
