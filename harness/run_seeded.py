"""Run the checks against every seeded change in /verif/seeded/<id>/ and record which check
catches which change.

Each change is applied to a scratch worktree of /repo's HEAD (outside /repo and /verif) and the
checks are pointed at it with PEST_REPO — equivalent to `git -C /repo apply` + run + `git checkout`,
but safe while other work is going on in /repo's working tree.  Usage:
    python harness/run_seeded.py [--only ID ...] [--checks C01,C02] [--tier quick]
"""

from __future__ import annotations

import argparse
import json
import os
import re
import shutil
import subprocess
import sys
import time
from pathlib import Path

ROOT = Path(__file__).resolve().parent.parent
SEEDED = ROOT / "seeded"


def sh(cmd, **kw):
    return subprocess.run(cmd, capture_output=True, text=True, **kw)


def main() -> int:
    ap = argparse.ArgumentParser()
    ap.add_argument("--only", nargs="*")
    ap.add_argument("--checks")
    ap.add_argument("--tier", default="quick")
    a = ap.parse_args()
    rows = []
    for d in sorted(SEEDED.iterdir()):
        if not (d / "patch.diff").exists() or (a.only and d.name not in a.only):
            continue
        meta = json.loads((d / "meta.json").read_text())
        checks = a.checks.split(",") if a.checks else meta.get("checks_to_run") or [meta["property"]]
        wt = Path(f"/tmp/seedrun_{d.name}_{os.getpid()}")
        sh(["git", "-C", "/repo", "worktree", "add", "-q", "--detach", str(wt), "HEAD"])
        try:
            ap_ = sh(["git", "-C", str(wt), "apply", "--whitespace=nowarn", str(d / "patch.diff")])
            if ap_.returncode != 0:
                ap_ = sh(["git", "-C", str(wt), "apply", "--3way", "--whitespace=nowarn", str(d / "patch.diff")])
            if ap_.returncode != 0:
                rows.append((d.name, "-", "patch does not apply: " + ap_.stderr.strip()[:200]))
                continue
            demo = d / "demo.py"
            demo_res = None
            if demo.exists():
                r = sh(["/venv/bin/python", str(demo)], env={**os.environ, "PYTHONPATH": str(wt / "src")}, cwd=str(wt))
                demo_res = r.returncode
            results = {}
            for c in checks:
                t0 = time.time()
                r = sh([str(ROOT / "check"), c, "--tier", a.tier], env={**os.environ, "PEST_REPO": str(wt)}, cwd=str(ROOT))
                viol = [ln for ln in r.stdout.splitlines() if ln.startswith("VIOLATION")]
                kind = "missed" if demo_res != 0 else "quiet (the demo passes on the changed tree too: no violation there any more)"
                if r.returncode == 1 and viol:
                    kind = "no-failing-input-found" if all(v.endswith("no-failing-input-found") for v in viol) else "caught"
                elif r.returncode not in (0, 1):
                    kind = f"exit {r.returncode}"
                results[c] = {"exit": r.returncode, "verdict": kind, "violations": viol[:3], "wall_s": round(time.time() - t0, 1)}
                rows.append((d.name, c, kind))
            meta["last_run"] = {"demo_exit_on_changed_tree": demo_res, "results": results, "tier": a.tier,
                                "repo_head": sh(["git", "-C", "/repo", "rev-parse", "--short", "HEAD"]).stdout.strip()}
            (d / "meta.json").write_text(json.dumps(meta, indent=1) + "\n")
        finally:
            sh(["git", "-C", "/repo", "worktree", "remove", "--force", str(wt)])
            shutil.rmtree(wt, ignore_errors=True)
    # the checks wrote evidence / regenerated tables for the changed trees: restore them from a clean run later
    for name, c, kind in rows:
        print(f"{name:28s} {c:5s} {kind}")
    return 0


if __name__ == "__main__":
    sys.exit(main())
