"""C12, escape clause — the escape decoder (src/pest/grammar/unescape.py) behind string,
case-insensitive string, PUSH_LITERAL and character literals.

Three opinions on every literal:
  impl       (a) the real front end: Parser.from_grammar('r = { <literal> }', optimizer=None) and the
                 value stored in the rule's expression, then `parser.parse` of the decoded text with
                 that rule (must match and consume exactly the decoded text);
             (b) `unescape_string(body, token)` called directly on the body
  reference  `spec_unescape` of harness/front_meta.py (pest_meta's reading, independent of the
             implementation); for the deliberately malformed bodies the reference is "not a literal"
  model      the Lean model (`U` request; proved equal to the Lean specification for *all* texts,
             total, compositional) and the Lean specification itself (`USPEC` request)
impl vs reference is the direct failing-input search (concrete failures); `unescape_string` vs the
Lean model (exact, including which error) and the Lean specification vs the Python reference are
the correspondence check.

`run_escape_part(out)` is called by the C12 engine, which runs `proof_stage` itself with
`THEOREMS_ESC`.
"""

from __future__ import annotations

import multiprocessing as mp
import os
import random
from pathlib import Path

import common
from common import NCPU, Outcome, run_driver, seed, use_repo
from front_meta import SpecError, spec_unescape

THEOREMS_ESC = [
    "Pest.C12.unescape_total",
    "Pest.C12.unescape_spec",
    "Pest.C12.unescape_ok_iff",
    "Pest.C12.unescape_error_iff",
    "Pest.C12.spec_denotes",
    "Pest.C12.unescape_denotes",
    "Pest.C12.simple_escape_table",
    "Pest.C12.unescape_append",
    "Pest.C12.unescape_append_ok",
    "Pest.C12.unescape_simple",
    "Pest.C12.unescape_hex",
    "Pest.C12.unescape_hex_value",
    "Pest.C12.unescape_hex_value_lower",
    "Pest.C12.unescape_unicode",
    "Pest.C12.unescape_unicode_value",
    "Pest.C12.unescape_unicode_range",
    "Pest.C12.unescape_unicode_digits",
    "Pest.C12.unescape_unknown",
    "Pest.C12.unescape_lone_backslash",
    "Pest.C12.unescape_keeps_following",
    "Pest.C12.unescape_plain",
    "Pest.C12.escapeLen_spec",
    "Pest.C12.unescape_valid",
    "Pest.C12.unescape_char",
    "Pest.C12.unescape_single",
    "Pest.Unescape.loop_eq",
    "Pest.Unescape.decode_drop",
    "Pest.Unescape.decode_agrees",
    "Pest.Unescape.unescape_rel",
]

SIMPLE = [("\\n", 10), ("\\r", 13), ("\\t", 9), ("\\\\", 92), ('\\"', 34), ("\\'", 39), ("\\0", 0)]
BOUNDARY = [0x0, 0x7F, 0x80, 0xFF, 0x100, 0x7FF, 0x800, 0xD7FF, 0xD800, 0xDFFF, 0xE000, 0xFFFF,
            0x10000, 0x10FFFF, 0x110000, 0xFFFFFF]
# (text before, text after) the escape, as written in the grammar: nothing, ordinary characters,
# a hex-digit-looking character, a closing brace, a digit, another escape before / after, non-ASCII
CONTEXTS = [("", ""), ("a", ""), ("", "b"), ("a", "b"), ("", "B"), ("", "}"), ("", "0"), ("", "\\n"),
            ("\\t", ""), ("é ", "\U0001F600"), ("\\x41", "\\u{42}")]
MALFORMED = ["\\q", "\\x4", "\\xZZ", "\\x", "\\xg1", "\\x4g", "\\u{1}", "\\u{1234567}", "\\u{}", "\\u41", "\\u{41",
             "\\u", "\\b", "\\/", "\\f", "\\", "\\u{12g4}", "\\ ", "\\N", "\\U{41}", "\\X41", "\\a", "\\v", "\\e",
             "\\1", "\\u{ 41}", "\\u{41 }", "\\u{+41}", "\\x+1", "\\u{0x41}"]
# contexts that keep a malformed body malformed ("g" is not a hex digit)
MAL_CONTEXTS = [("", ""), ("a", ""), ("", "g"), ("a", "g"), ("\\n", ""), ("\\x41", "g")]
KINDS = ["str", "ci", "pushl"]
_KIND_ORDER = {"str": 0, "char": 1, "ci": 2, "pushl": 3, "charpair": 4}

_SLUGS = [
    ("incomplete escape sequence", "incomplete"),
    ("unknown escape sequence", "unknown"),
    ("expected an opening brace", "brace"),
    ("unclosed Unicode escape sequence", "unclosed"),
    ("expected two to six hexadecimal digits", "digits"),
    ("invalid hexadecimal digit in escape sequence", "hex"),
    ("escape sequence is not a Unicode code point", "range"),
]


def slug_of(exc: Exception) -> str:
    msg = str(exc.args[0]) if exc.args else ""
    for prefix, slug in _SLUGS:
        if msg.startswith(prefix):
            return slug
    return "other:" + msg[:60]


def enc(t: str) -> str:
    return ".".join(str(ord(c)) for c in t) if t else "-"


def cps(t: str) -> list[int]:
    return [ord(c) for c in t]


# ---------------------------------------------------------------- the space


def spellings(v: int) -> list[str]:
    """every \\u{…} spelling of v: 2..6 digits (leading zeros), upper and lower case"""
    out = []
    for k in range(2, 7):
        if v < 16 ** k:
            up = f"{v:0{k}X}"
            out.append("\\u{" + up + "}")
            if up.lower() != up:
                out.append("\\u{" + up.lower() + "}")
    return out


def random_value(rng: random.Random) -> int:
    r = rng.random()
    if r < 0.10:
        return rng.randint(0, 0xFF)
    if r < 0.20:
        return rng.randint(0x100, 0x7FF)
    if r < 0.40:
        return rng.randint(0x800, 0xFFFF)
    if r < 0.50:
        if rng.random() < 0.5:
            return max(0, rng.choice(BOUNDARY[:14]) + rng.randint(-2, 2))
        return rng.randint(0xD7F0, 0xE010)
    if r < 0.92:
        return rng.randint(0x10000, 0x10FFFF)
    return rng.randint(0x110000, 0xFFFFFF)


def random_spelling(rng: random.Random, v: int) -> str:
    ks = [k for k in range(2, 7) if v < 16 ** k]
    digits = f"{v:0{rng.choice(ks)}X}"
    mode = rng.randrange(3)
    if mode == 1:
        digits = digits.lower()
    elif mode == 2:
        digits = "".join(c.lower() if rng.random() < 0.5 else c for c in digits)
    return "\\u{" + digits + "}"


def build_cases(thorough: bool, sd: int):
    """[(kind, body, label, family)], the number of distinct escape values, and a description.
    kind: str | ci | pushl | char | charpair;  label: ok (a literal by construction; it may still
    denote nothing when a \\u{…} is beyond U+10FFFF) | malformed"""
    rng = random.Random(sd * 7919 + 12)
    systematic: list[tuple[str, str]] = []          # (escape text, family)
    values = set()
    for text, v in SIMPLE:
        systematic.append((text, "simple " + text))
        values.add(("simple", v))
    for v in range(256):
        for text in sorted({f"\\x{v:02X}", f"\\x{v:02x}"}):
            systematic.append((text, "x"))
        hi, lo = f"{v:02X}"
        if hi.isalpha() and lo.isalpha():
            systematic.append(("\\x" + hi.lower() + lo, "x"))
            systematic.append(("\\x" + hi + lo.lower(), "x"))
        values.add(("x", v))
    sweep = set(BOUNDARY)
    sweep.update(b + d for b in BOUNDARY[:15] for d in (-1, 1) if 0 <= b + d)
    sweep.update(1 << i for i in range(24))
    sweep.update((1 << i) - 1 for i in range(1, 25))
    sweep.update(range(0x100))                       # every \u{HH}, also against \xHH
    sweep.update(range(0, 0x110000, 0x1111 if not thorough else 0x111))
    for v in sorted(sweep):
        for text in spellings(v):
            systematic.append((text, f"u{len(text) - 4}"))
        values.add(("u", v))
    cases: list[tuple[str, str, str, str]] = []
    for text, fam in systematic:
        for pre, post in CONTEXTS:
            for kind in KINDS:
                cases.append((kind, pre + text + post, "ok", fam))
        cases.append(("char", text, "ok", fam))
    nrand = 50000 if thorough else 2000
    for _ in range(nrand):
        v = random_value(rng)
        text = random_spelling(rng, v)
        fam = f"u{len(text) - 4}"
        values.add(("u", v))
        for pre, post in CONTEXTS:
            cases.append(("str", pre + text + post, "ok", fam))
        pre, post = rng.choice(CONTEXTS)
        cases.append(("ci", pre + text + post, "ok", fam))
        pre, post = rng.choice(CONTEXTS)
        cases.append(("pushl", pre + text + post, "ok", fam))
        cases.append(("char", text, "ok", fam))
    # longer bodies: several escapes and ordinary characters mixed
    pool = [t for t, _ in SIMPLE] + ["\\x41", "\\x7f", "\\xFf", "\\u{41}", "\\u{041}", "\\u{1F600}", "\\u{01f600}",
                                     "\\u{10FFFF}", "\\u{00}", "\\u{d7ff}"]
    plain = list("ab B}{0 u xé漢\U0001F600'")
    for _ in range(3000 if thorough else 300):
        body = "".join(rng.choice(pool) if rng.random() < 0.5 else rng.choice(plain) for _ in range(rng.randint(2, 9)))
        cases.append((rng.choice(KINDS), body, "ok", "mixed"))
    # character ranges with two different ends (start <= stop)
    for a, b in [("\\x41", "\\x5A"), ("\\u{00}", "\\u{10FFFF}"), ("\\t", "\\r"), ("\\0", "\\x7f"),
                 ("\\u{D800}", "\\u{DFFF}"), ("\\'", "\\\\"), ("a", "\\x7A"), ("\\n", "z")]:
        cases.append(("charpair", a + "\x00" + b, "ok", "range"))
    for text in MALFORMED:
        for pre, post in MAL_CONTEXTS:
            for kind in KINDS:
                cases.append((kind, pre + text + post, "malformed", "malformed " + text))
        cases.append(("char", text, "malformed", "malformed " + text))
    rule = (
        "every literal body <before><escape><after> with <escape> in: the seven one-letter escapes; every \\xHH "
        "(256 values, upper-, lower- and mixed-case digits); \\u{H..} for the boundary values 0 7F 80 FF 100 7FF 800 "
        "D7FF D800 DFFF E000 FFFF 10000 10FFFF 110000 FFFFFF and their neighbours, every power of two and 2^k-1 below "
        f"2^24, every value below 0x100 and every {'0x111' if thorough else '0x1111'}-th value up to 0x10FFFF, each in every "
        f"width of 2..6 digits that fits (leading zeros) in upper and lower case; {nrand} seeded random \\u values "
        "(8% beyond U+10FFFF) in a random width and case; <before>/<after> in: nothing, 'a', 'b', both, a following "
        "'B' (hex-digit-looking), '}', '0', a following \\n escape, a preceding \\t escape, non-ASCII text, "
        "\\x41…\\u{42}; each as a string \"…\", a case-insensitive string ^\"…\" and PUSH_LITERAL(\"…\") "
        "(systematic part: all three for every context; random part: every context as a string, one context for the "
        "other two), and alone as both ends of a character range '…'..'…'; mixed bodies of 2..9 escapes and plain "
        f"characters; 8 character ranges with different ends; {len(MALFORMED)} malformed bodies (\\q \\x4 \\xZZ \\u{{1}} "
        "\\u{1234567} \\u41 \\u{41 \\b \\/ lone \\ …) alone, preceded and followed.  Every body is also given to "
        "unescape_string directly.  distinct_nontrivial = distinct (escape family, value) pairs."
    )
    return cases, len(values), rule


# ---------------------------------------------------------------- evaluation (worker side)


def grammar_for(kind: str, body: str) -> tuple[str, str]:
    """(grammar text, rule to parse with)"""
    if kind == "str":
        return 'r = { "' + body + '" }', "r"
    if kind == "ci":
        return 'r = { ^"' + body + '" }', "r"
    if kind == "pushl":
        return 'r = { PUSH_LITERAL("' + body + '") }\np = { r ~ POP }', "p"
    if kind == "char":
        return "r = { '" + body + "'..'" + body + "' }", "r"
    if kind == "charpair":
        a, b = body.split("\x00")
        return "r = { '" + a + "'..'" + b + "' }", "r"
    raise ValueError(kind)


def reference(kind: str, body: str, label: str):
    """("ok", text) | ("rej",) — what the literal denotes by pest's definition"""
    if label == "malformed":
        return ("rej",)
    try:
        if kind == "charpair":
            a, b = body.split("\x00")
            return ("ok", spec_unescape(a) + spec_unescape(b))
        return ("ok", spec_unescape(body))
    except SpecError:
        return ("rej",)


def front(kind: str, body: str):
    """("ok", text, parse_note) | ("rej", slug) | ("exc", name): the front end's reading.  For a
    character range with different ends the text is start + stop.  parse_note: None = the rule matched the decoded
    text and consumed exactly it, else what happened."""
    from pest import Parser, PestGrammarError, PestParsingError

    g, entry = grammar_for(kind, body)
    try:
        p = Parser.from_grammar(g, optimizer=None)
        e = p.rules["r"].expression
        if kind == "char":
            # the same literal at both ends: one reading (both, glued, if they differ)
            text = e.start if e.start == e.stop else e.start + e.stop
            subject = e.start
        elif kind == "charpair":
            text = e.start + e.stop
            subject = e.stop
        else:
            text = e.value
            subject = text
        if not isinstance(text, str):
            return ("exc", "value is " + type(text).__name__)
    except PestGrammarError as ex:
        return ("rej", slug_of(ex))
    except Exception as ex:  # noqa: BLE001
        return ("exc", type(ex).__name__)
    note = None
    try:
        first = next(iter(p.parse(entry, subject)))
        if first.start != 0 or first.end != len(subject):
            note = f"rule consumed [{first.start}:{first.end}] of the {len(subject)} decoded characters"
    except PestParsingError:
        note = "the rule does not match the decoded text"
    except Exception as ex:  # noqa: BLE001
        lone = any(0xD800 <= ord(c) <= 0xDFFF for c in subject)
        note = "skipped:surrogate" if lone else "parsing the decoded text raises " + type(ex).__name__
    return ("ok", text, note)


def direct(body: str):
    """("ok", text) | ("err", slug) | ("exc", name): unescape_string on the body"""
    from pest import PestGrammarError
    from pest.grammar.tokens import Token, TokenKind
    from pest.grammar.unescape import unescape_string

    try:
        r = unescape_string(body, Token(TokenKind.STRING, body, 0, body))
        return ("ok", r) if isinstance(r, str) else ("exc", "returns " + type(r).__name__)
    except PestGrammarError as ex:
        return ("err", slug_of(ex))
    except Exception as ex:  # noqa: BLE001
        return ("exc", type(ex).__name__)


def _eval_chunk(chunk):
    use_repo()
    out = []
    for kind, body, label, fam in chunk:
        ref = reference(kind, body, label)
        fr = front(kind, body)
        dr = None if kind == "charpair" else direct(body)
        out.append((kind, body, label, fam, ref, fr, dr))
    return out


# ---------------------------------------------------------------- comparison


def show_direct(d) -> str:
    """the Lean driver's answer format for `U`"""
    if d[0] == "ok":
        return enc(d[1])
    return ("err " if d[0] == "err" else "exc ") + d[1]


def _jsonable(v):
    if v[0] == "ok":
        return {"decodes_to": cps(v[1]), "repr": repr(v[1])}
    if v[0] in ("rej", "err"):
        return {"rejected": (v[1] if len(v) > 1 else "not a literal / denotes no character")}
    return {"raises": v[1]}


def check_case(kind: str, body: str, label: str):
    """concrete failures of one case: [(what, expected, observed)] (used by the search and by replay)"""
    ref = reference(kind, body, label)
    return _judge(kind, ref, front(kind, body), None if kind == "charpair" else direct(body))


def _judge(kind, ref, fr, dr):
    bad = []
    if fr[0] == "exc":
        bad.append(("front end raises outside PestGrammarError", ref, fr))
    elif ref[0] == "ok":
        if fr[0] == "rej":
            bad.append(("front end rejects a literal pest accepts", ref, fr))
        elif fr[1] != ref[1]:
            bad.append(("front end decodes the literal to the wrong text", ref, fr))
        elif fr[2] is not None and not fr[2].startswith("skipped"):
            bad.append(("parsing: " + fr[2], ref, ("exc", fr[2])))
    elif fr[0] == "ok":
        bad.append(("front end accepts what is not a literal / denotes no character", ref, fr))
    if dr is not None:
        if dr[0] == "exc":
            bad.append(("unescape_string raises outside PestGrammarError", ref, dr))
        elif ref[0] == "ok":
            if dr[0] == "err":
                bad.append(("unescape_string rejects a body pest accepts", ref, dr))
            elif dr[1] != ref[1]:
                bad.append(("unescape_string decodes the body to the wrong text", ref, dr))
        elif dr[0] == "ok":
            bad.append(("unescape_string accepts what is not a literal body / denotes no character", ref, dr))
    return bad


def run_escape_part(out: Outcome) -> dict:
    use_repo()
    if os.environ.get("PEST_DRIVER"):
        common.DRIVER = Path(os.environ["PEST_DRIVER"])
    thorough = out.tier == "thorough"
    cases, nvalues, rule = build_cases(thorough, seed())

    if len(cases) > 150000 and NCPU > 1:
        size = 5000
        chunks = [cases[i : i + size] for i in range(0, len(cases), size)]
        with mp.Pool(NCPU) as pool:
            results = [r for part in pool.imap(_eval_chunk, chunks) for r in part]
    else:
        results = _eval_chunk(cases)

    # ---- impl vs reference
    found: dict[tuple, list] = {}
    nconcrete = 0
    skipped_surrogate = 0
    direct_of: dict[str, tuple] = {}
    ref_of: dict[str, tuple] = {}
    for kind, body, label, fam, ref, fr, dr in results:
        if fr[0] == "ok" and fr[2] is not None and fr[2].startswith("skipped"):
            skipped_surrogate += 1
        if dr is not None:
            direct_of.setdefault(body, dr)
            ref_of.setdefault(body, ref)
        for what, exp, obs in _judge(kind, ref, fr, dr):
            nconcrete += 1
            sig = (what, fam if fam.startswith(("simple", "malformed", "u", "x")) else "other", obs[0],
                   obs[1] if obs[0] != "ok" else "")
            found.setdefault(sig, []).append((kind, body, label, what, exp, obs))
    # the 20 reported: one per (kind of failure), then one per (kind of failure, escape family,
    # observation), shortest literal first
    by_what: dict[str, list[list]] = {}
    for sig, g in found.items():
        g.sort(key=lambda c: (len(c[1]), _KIND_ORDER.get(c[0], 9), c[1]))
        by_what.setdefault(sig[0], []).append(g)
    for gs in by_what.values():
        gs.sort(key=lambda g: (len(g[0][1]), _KIND_ORDER.get(g[0][0], 9), g[0][1]))
    picked = []
    depth = 0
    while len(picked) < 20 and any(depth < len(gs) for gs in by_what.values()):
        for what in sorted(by_what):
            gs = by_what[what]
            if depth < len(gs) and len(picked) < 20:
                picked.append(gs[depth][0])
        depth += 1
    concrete = []
    for kind, body, label, what, exp, obs in picked:
        shown = body.replace("\x00", "'..'")
        concrete.append({
            "kind": what,
            "literal": cps(shown),
            "literal_repr": shown,
            "context": {"literal_kind": kind, "grammar": grammar_for(kind, body)[0], "label": label},
            "expected": _jsonable(exp),
            "observed": _jsonable(obs),
            "replay": {"kind": kind, "body": cps(body), "label": label},
        })

    # ---- impl vs Lean model, Lean spec vs reference
    bodies = sorted(direct_of)
    reqs = [f"U d {enc(b)}" for b in bodies] + [f"USPEC {enc(b)}" for b in bodies]
    answers = run_driver(reqs)
    n = len(bodies)
    corr = []
    ncorr = 0
    for i, b in enumerate(bodies):
        dr, ref = direct_of[b], ref_of[b]
        impl = show_direct(dr)
        model, lspec = answers[i], answers[n + i]
        pyref = enc(ref[1]) if ref[0] == "ok" else "none"
        agrees_with_ref = (dr[0] == "ok" and ref[0] == "ok" and dr[1] == ref[1]) or (dr[0] == "err" and ref[0] == "rej")
        if impl != model and agrees_with_ref:
            ncorr += 1
            corr.append({"request": reqs[i], "impl": impl, "model": model, "body_repr": b})
        if lspec != pyref:
            ncorr += 1
            corr.append({"request": reqs[n + i], "impl": "reference: " + pyref, "model": lspec, "body_repr": b})
    corr.sort(key=lambda c: len(c["request"]))

    samples = []
    for b in ["\\x41B", "a\\u{10FFFF}b", "\\0", "\\u{110000}", "\\xZZ"]:
        if b in direct_of:
            i = bodies.index(b)
            samples.append({"request": reqs[i], "answer": answers[i], "impl": show_direct(direct_of[b]),
                            "spec_request": reqs[n + i], "spec_answer": answers[n + i]})
    return {
        "concrete": concrete,
        "corr": corr[:20],
        "concrete_total": nconcrete,
        "corr_total": ncorr,
        "evaluations": len(results),
        "driver_requests": len(reqs),
        "distinct_nontrivial": nvalues,
        "distinct_bodies": n,
        "parse_skipped_lone_surrogates": skipped_surrogate,
        "rule": rule,
        "samples": samples,
    }


def replay_escape(payload: dict) -> list[dict]:
    """re-run one reported case: the concrete failures it still shows"""
    use_repo()
    body = "".join(chr(c) for c in payload["body"])
    return [{"kind": what, "expected": _jsonable(exp), "observed": _jsonable(obs)}
            for what, exp, obs in check_case(payload["kind"], body, payload["label"])]
