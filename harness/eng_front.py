"""C10 / C11 — the grammar front end (src/pest/grammar/scanner.py, parser.py, unescape.py,
exceptions.py; Parser.from_grammar).

Four opinions on a grammar text:
  impl     Parser.from_grammar(text, optimizer=None) and (text) with the default optimizer, in-process
  oracle   pest's meta-grammar (front_meta.META, transcribed by hand from tests/grammars/meta.pest)
           run by the executable Lean *specification* of pest's PEG semantics (driver request
           `P spec grammar_rules …`): accepts <=> the text is syntactically valid pest v2; the pairs it
           returns are pest's parse tree of the text
  denote   front_meta.denote: the reference reading of that parse tree (names, modifiers, docs,
           precedence/grouping, prefix/postfix chains, bounds, tags, slices, decoded literals)
  model    the Lean mirror of scanner + grammar parser (driver request `F`), about which
           Props/C11.lean proves totality and Props/C10.lean the round trip of printed ASTs
C10: impl accepts <=> oracle accepts; impl's rules == denote; impl == model (exact rule table).
C11: impl never raises anything but PestGrammarError, str(error) renders, the reported line and column
     are those of the error token inside the text; impl == model (accept / error kind / error start).
"""

from __future__ import annotations

import collections
import multiprocessing as mp
import os
import random
import re
import resource
import signal
import sys
import time
from pathlib import Path

import common
import front_meta as FM
import gen_grammar as GG
from common import NCPU, REPO, Outcome, proof_coverage, proof_stage, run_driver, seed, use_repo

if os.environ.get("PEST_DRIVER"):            # test hook: a driver binary other than lean/.lake/build/bin/pestdriver
    common.DRIVER = Path(os.environ["PEST_DRIVER"])

THEOREMS = {
    "C10": [
        "Pest.C10.front_exact",
        "Pest.C10.front_accepts_iff",
        "Pest.C10.front_accepts_only_grammar_texts",
        "Pest.C10.front_roundtrip_text'",
        "Pest.C10.den_unique",
        "Pest.C10.scan_inversion",
        "Pest.C10.scan_accept",
        "Pest.C10.parse_ctree",
        "Pest.C10.grammarText'_of_grammarText",
        "Pest.C10.wf'_of_wf",
        "Pest.C10.wf_iff",
        "Pest.C10.front_accepts_only_grammar_texts_partial",
        "Pest.C10.peekBig_accepted",
        "Pest.C10.front_roundtrip_text",
        "Pest.C10.front_roundtrip_trivia",
        "Pest.C10.front_roundtrip",
        "Pest.C10.scan_roundtrip",
        "Pest.C10.parse_roundtrip",
        "Pest.C10.parse_expression_roundtrip",
        "Pest.C10.den_seq_then_choice",
        "Pest.C10.den_choice_then_seq",
        "Pest.C10.den_seq_chain",
        "Pest.C10.den_choice_chain",
        "Pest.C10.den_one",
        "Pest.C10.den_prefix_postfix",
        "Pest.C10.den_paren_tag",
        "Pest.C10.den_bounds",
        "Pest.Front.scan_roundtrip",
        "Pest.Front.scan_roundtrip_text",
        "Pest.Front.scan_roundtrip_trivia",
        "Pest.Front.PRT.parseTokens_roundtrip",
        "Pest.Front.PRT.recOK",
    ],
    "C11": [
        "Pest.C11.front_total",
        "Pest.C11.front_ok_or_error",
        "Pest.C11.front_error_position",
        "Pest.C11.front_error_renders",
        "Pest.C11.error_context_total",
        "Pest.C11.error_context_exists",
        "Pest.C11.error_context_col_lt",
        "Pest.C11.gec_lines_partition",
        "Pest.C11.scan_no_oof",
        "Pest.C11.scan_no_exc",
        "Pest.C11.scan_error_position",
        "Pest.C11.scan_tokens_ok",
        "Pest.C11.number_token_digits",
        "Pest.C11.integer_token_int",
        "Pest.C11.char_token_unescapes",
        "Pest.C11.skipTrivia_done",
        "Pest.C11.parse_no_oof",
        "Pest.C11.parse_no_exc",
        "Pest.C11.parse_error_token",
        "Pest.C11.parse_error_position",
    ],
}

ALPHABET = "{}()[]~|*+?!&@$_=\"'\\/#^.,-0aA \n"
RECURSION_LIMIT = 1000          # CPython's default; the checks run the front end under it
LOAD_TIMEOUT_S = 20             # one from_grammar call
MEMORY_LIMIT = 6 << 30          # address space of a worker process


class LoadTimeout(Exception):
    pass


def _on_alarm(_sig, _frm):
    raise LoadTimeout


# ---------------------------------------------------------------- the implementation's side

def _imports():
    use_repo()
    from pest import Parser
    from pest.grammar import expressions as X
    from pest.grammar import parse as gparse
    from pest.grammar.exceptions import PestGrammarError
    from pest.grammar.rule import BuiltInRule, GrammarRule

    return Parser, X, gparse, PestGrammarError, BuiltInRule, GrammarRule


SLUGS = [
    ("expected a rule", "expected_a_rule"), ("expected the assignment operator", "expected_the_assignment_operator"),
    ("expected an opening brace", "expected_an_opening_brace"), ("expected a closing brace", "expected_a_closing_brace"),
    ("expected an opening paren", "expected_an_opening_paren"), ("expected a closing paren", "expected_a_closing_paren"),
    ("expected a range operator", "expected_a_range_operator"), ("expected a character", "expected_a_character"),
    ("invalid escape", "invalid_escape"), ("unclosed string", "unclosed_string"),
    ("expected a string literal", "expected_a_string_literal"), ("unexpected token", "unexpected_token"),
    ("unexpected operator", "unexpected_operator"), ("unexpected ", "unexpected"),
    ("expected a number or a comma", "expected_a_number_or_a_comma"), ("the start of a range", "range_order"),
    ("number too large", "number_too_large"), ("number cannot overflow u32", "number_overflow"), ("incomplete escape sequence", "unescape_incomplete"),
    ("unknown escape sequence", "unescape_unknown"), ("expected an opening brace, found", "unescape_brace"),
    ("unclosed Unicode", "unescape_unclosed"), ("expected two to six", "unescape_digits"),
    ("invalid hexadecimal", "unescape_hex"), ("escape sequence is not a Unicode", "unescape_range"),
]


def slug(msg: str) -> str:
    """the message of a PestGrammarSyntaxError as the Lean model's `EK.slug` (longest matching prefix)"""
    best = None
    for p, s in SLUGS:
        if msg.startswith(p) and (best is None or len(p) > len(best[0])):
            best = (p, s)
    return best[1] if best else "other:" + msg[:40].replace(" ", "_")


enc = FM.enc_str


def cps(t: str) -> list[int]:
    return [ord(c) for c in t]


def uncps(c) -> str:
    return "".join(chr(x) for x in c)


def enc_lines(ls) -> str:
    return ",".join(enc(x) for x in ls) if ls else "~"


def ser_front(e, X, BuiltInRule) -> str:  # noqa: PLR0911, PLR0912
    """an expression tree as the front end built it, in the format of harness/pyside.ser_expr, except
    that a built-in rule object standing for a reference is printed `ID <name> -` (DESIGN C10)"""
    def r(x):
        return ser_front(x, X, BuiltInRule)

    if isinstance(e, BuiltInRule):
        return f"ID {e.name} -"
    t = type(e)
    if t is X.String:
        return "S " + enc(e.value)
    if t is X.CIString:
        return "CI " + enc(e.value)
    if t is X.Range:
        return f"RG {ord(e.start)} {ord(e.stop)}"
    if t is X.Identifier:
        return f"ID {e.value} {e.tag if e.tag is not None else '-'}"
    if t is X.Sequence:
        return f"SEQ {len(e.expressions)} " + " ".join(r(x) for x in e.expressions)
    if t is X.Choice:
        return f"CH {len(e.expressions)} " + " ".join(r(x) for x in e.expressions)
    one = {X.Optional: "OPT", X.Repeat: "REP", X.RepeatOnce: "REP1", X.PositivePredicate: "AND",
           X.NegativePredicate: "NOT", X.Push: "PUSH"}
    if t in one:
        return one[t] + " " + r(e.expression)
    if t is X.RepeatExact:
        return f"REPX {e.number} " + r(e.expression)
    if t is X.RepeatMin:
        return f"REPMIN {e.number} " + r(e.expression)
    if t is X.RepeatMax:
        return f"REPMAX {e.number} " + r(e.expression)
    if t is X.RepeatMinMax:
        return f"REPMM {e.min} {e.max} " + r(e.expression)
    if t is X.Group:
        return f"GRP {e.tag if e.tag is not None else '-'} " + r(e.expression)
    if t is X.PushLiteral:
        return "PUSHL " + enc(e.value)
    simple = {X.Peek: "PEEK", X.Pop: "POP", X.Drop: "DROP", X.PeekAll: "PEEKALL", X.PopAll: "POPALL"}
    if t in simple:
        return simple[t]
    if t is X.PeekSlice:
        return f"SLICE {'-' if e.start is None else e.start} {'-' if e.stop is None else e.stop}"
    return "UNSUPPORTED:" + t.__name__


class harness_recursion:
    """the harness's own tree walks (serialisation, denote) are recursive too; they run under a high limit,
    the front end never does"""

    def __enter__(self):
        sys.setrecursionlimit(200000)

    def __exit__(self, *a):
        sys.setrecursionlimit(RECURSION_LIMIT)


class Impl:
    """the real front end, with everything the checks look at"""

    def __init__(self):
        (self.Parser, self.X, self.gparse, self.GErr, self.BuiltInRule, self.GrammarRule) = _imports()
        self.builtin_names = list(self.Parser.BUILTIN)
        self.builtins_arg = ",".join(self.builtin_names)
        self.builtin_set = set(self.builtin_names)

    def load(self, text: str, optimized: bool):
        """("ok", parser) | ("err", exception) | ("exc", type name, message)"""
        signal.signal(signal.SIGALRM, _on_alarm)
        signal.alarm(LOAD_TIMEOUT_S)
        try:
            p = self.Parser.from_grammar(text) if optimized else self.Parser.from_grammar(text, optimizer=None)
            return ("ok", p)
        except self.GErr as e:
            return ("err", e)
        except RecursionError as e:
            return ("exc", "RecursionError", str(e)[:80])
        except LoadTimeout:
            return ("exc", "Timeout", f"no result within {LOAD_TIMEOUT_S} s")
        except Exception as e:  # noqa: BLE001
            return ("exc", type(e).__name__, str(e)[:120])
        finally:
            signal.alarm(0)

    def table(self, parser):
        """(grammar docs, {name: (modifier, docs, serialised expression)}) of the grammar rules"""
        rules = {}
        with harness_recursion():
            for n, r in parser.rules.items():
                if isinstance(r, self.GrammarRule):
                    rules[n] = (r.modifier, list(r.doc or []), ser_front(r.expression, self.X, self.BuiltInRule))
        return list(parser.doc or []), rules

    def f_answer(self, text: str) -> str:
        """the answer the Lean `F` request must give: pest.grammar.parse + Parser(rules, doc, optimizer=None)"""
        try:
            rules, doc = self.gparse(text, self.Parser.BUILTIN)
            self.Parser(rules, doc, optimizer=None)
        except self.GErr as e:
            tok = getattr(e, "token", None)
            return f"err {slug(str(e.args[0]) if e.args else '')} {tok.start if tok is not None else '?'}"
        except RecursionError:
            return "exc RecursionError"
        except Exception as e:  # noqa: BLE001
            return "exc " + type(e).__name__
        with harness_recursion():
            rs = [f"R {n} {r.modifier} g {ser_front(r.expression, self.X, self.BuiltInRule)}" for n, r in rules.items()]
        docs = [f"{n}:{enc_lines(r.doc)}" for n, r in rules.items() if r.doc]
        return f"ok {len(rs)}" + "".join(" " + x for x in rs) + "|" + enc_lines(doc) + "|" + (";".join(docs) if docs else "~")

    def f_request(self, text: str) -> str:
        return f"F {enc(text)} {self.builtins_arg}"


_IMPL: Impl | None = None


def impl() -> Impl:
    global _IMPL  # noqa: PLW0603
    if _IMPL is None:
        _IMPL = Impl()
    if sys.getrecursionlimit() != RECURSION_LIMIT:
        sys.setrecursionlimit(RECURSION_LIMIT)
    return _IMPL


# ---------------------------------------------------------------- C11: one text

def ref_lines(text: str) -> list[str]:
    """the lines of a text for the purpose of "line:column exists": str.splitlines boundaries, plus
    the empty line at the end of a text that is empty or ends with a line boundary"""
    lines = text.splitlines(keepends=True)
    if not lines or lines[-1] != text.splitlines()[-1]:
        lines.append("")
    return lines


def nest_depth(text: str) -> int:
    """how much recursion the text can ask of the front end (scanner: one level per open bracket; grammar
    parser: one level per open bracket, per prefix operator of a run, and per operand of a ~ / | chain — the
    operators are right-recursive; optimizer: the depth of the tree, which a run of postfix operators also
    builds): deepest bracket nesting + longest run of prefix operators, or the number of infix operators, or
    the longest run of postfix operators, whichever is largest"""
    d = best = run = best_run = post = best_post = 0
    for c in text:
        if c in "([{":
            d += 1
            best = max(best, d)
        elif c in ")]}":
            d = max(d - 1, 0)
        if c in "!&":
            run += 1
            best_run = max(best_run, run)
        elif not c.isspace():
            run = 0
        if c in "*+?}":
            post += 1
            best_post = max(best_post, post)
        elif not (c.isspace() or c.isdigit() or c in "{,"):
            post = 0
    return max(best + best_run, text.count("~") + text.count("|"), best_post)


_BOUND_RE = re.compile(r"\{[\s\d,/*]*?(\d{6,})")


def max_bound(text: str) -> int:
    """the largest number of six or more digits written after a "{" (a repetition bound)"""
    return max((int(m) for m in _BOUND_RE.findall(text) if len(m) < 4000), default=0)


def bound_product(text: str) -> int:
    """product of the numbers written in the text (an upper bound of how often stacked repetition bounds e{a}{b,c}{d,} make the
    unroll pass copy the innermost operand), capped"""
    p = 1
    for m in re.findall(r"[0-9]+", text):
        if len(m) < 4000:
            p *= max(1, int(m))
        if p > 10**12:
            break
    # e+ becomes e ~ e*: every stacked + doubles the operand
    return p * 2 ** min(40, text.count("+"))


def check_total(text: str, optimized: bool):
    """None if from_grammar(text) behaves as C11 demands, else a dict describing how it does not"""
    im = impl()
    r = im.load(text, optimized)
    if r[0] == "ok":
        return None
    if r[0] == "exc":
        return {"class": "exception:" + r[1], "observed": f"{r[1]}: {r[2]}",
                "expected": "a Parser or a PestGrammarError"}
    e = r[1]
    try:
        rendered = str(e)
    except Exception as e2:  # noqa: BLE001
        return {"class": "str-raises:" + type(e2).__name__, "observed": f"str(error) raised {type(e2).__name__}: {str(e2)[:80]}",
                "expected": "the message renders"}
    tok = getattr(e, "token", None)
    if tok is None:
        return {"class": "no-position", "observed": "PestGrammarError without a token: " + rendered[:80],
                "expected": "an error that points at a line and column"}
    if not (0 <= tok.start <= len(text)):
        return {"class": "position-outside", "observed": f"error token starts at {tok.start}, len(text) = {len(text)}",
                "expected": "0 <= start <= len(text)"}
    try:
        lineno, col = e._error_context(tok.grammar, tok.start)[:2]  # noqa: SLF001
    except Exception as e2:  # noqa: BLE001
        return {"class": "context-raises:" + type(e2).__name__, "observed": f"_error_context raised {type(e2).__name__}",
                "expected": "a line and a column"}
    lines = ref_lines(text)
    # the column is inside the line (line break included); only the end of the text is one past its last line
    ok = 1 <= lineno <= len(lines) and 0 <= col <= len(lines[lineno - 1]) and \
        (col < len(lines[lineno - 1]) or lineno == len(lines)) and \
        sum(len(x) for x in lines[: lineno - 1]) + col == tok.start
    if not ok:
        return {"class": "line-col", "observed": f"{lineno}:{col} for a token starting at offset {tok.start}",
                "expected": "the line and column of that offset, inside the text"}
    if f"{lineno}:{col}" not in rendered:
        return {"class": "render", "observed": rendered[:120], "expected": f"a message showing {lineno}:{col}"}
    return None


# ---------------------------------------------------------------- known findings

def _impl_kind(r) -> str:
    return r[0] if r[0] != "exc" else "exc:" + r[1]


KNOWN = [
    {
        "key": "deep-nesting-rejected",
        "property": "C10",
        "what": "key=deep-nesting-rejected a syntactically valid grammar whose expressions nest more deeply than Python's recursion "
                "limit allows (under the default limit of 1000: about 330 parentheses, 990 prefix operators, a chain of 500 "
                "operands of ~ or |) is rejected with PestGrammarSyntaxError \"expression nested too deeply\" (a RecursionError "
                "before the repair f91a801); the scanner, the grammar parser and the optimizer recurse on the depth of the expression",
        "witness": "a = { " + "(" * 1200 + '"x"' + ")" * 1200 + " }",
    },
    {
        "key": "huge-repetition-bound",
        "property": "C11",
        "what": "key=huge-repetition-bound with the default optimizer the unroll pass copies the operand of e{n} n times (stacked "
                "bounds e{a}{b} multiply, every stacked + doubles), so a bound or a product of bounds of 10**8 or more (up to the u32 limit) exhausts memory "
                "(MemoryError escapes from Parser.from_grammar) or does not finish in reasonable time; from about 10**5 copies on "
                "loading takes longer than the 20 s the check waits for one text",
        "witness": 'a = { "x"{4000000000} }',
        "optimized": True,
        "match": lambda text, bad: bad["class"] in ("exception:MemoryError", "exception:Timeout") and bad.get("optimizer", "default") == "default"
        and (max_bound(text) >= 100000 or bound_product(text) >= 100000),
    },
    {
        "key": "block-comment-peg-fallback",
        "property": "C10",
        "what": "key=block-comment-peg-fallback pest's block_comment rule is a PEG: when a nested \"/*\" never closes it is "
                "re-read as two ordinary characters, so \"/* /*/\" is a complete comment; RE_BLOCK_COMMENT nests like Rust "
                "does and rejects the text",
        "witness": '/* /*/ a = { "x" }',
    },
    {
        "key": "reversed-range-rejected",
        "property": "C10",
        "what": "key=reversed-range-rejected a character range whose start is greater than its end ('b'..'a') is valid pest "
                "syntax (it matches nothing); the front end rejects it with PestGrammarSyntaxError because Range cannot "
                "compile the class",
        "witness": "a = { 'b'..'a' }",
    },
]


def _open_keys(prop: str) -> set:
    """keys that known_findings.txt lists as open (`finding:` lines) for this property; the file is only ever read"""
    fp = os.path.join(os.path.dirname(os.path.dirname(os.path.abspath(__file__))), "known_findings.txt")
    keys = set()
    if os.path.exists(fp):
        with open(fp, encoding="utf-8") as f:
            for ln in f:
                m = re.match(r"finding:\s+property=(\S+)\s+key=(\S+)", ln)
                if m and m.group(1) == prop:
                    keys.add(m.group(2))
    return keys


def known_for(prop: str):
    """the findings of the table that the committed file lists as open: a finding the file does not list suppresses nothing"""
    keys = _open_keys(prop)
    return [k for k in KNOWN if k["property"] == prop and k["key"] in keys]


# ---------------------------------------------------------------- the oracle

_G_LINE = None
_GB_LINE = None


def g_line(balanced: bool = False) -> str:
    """the `G` request loading the transcribed meta-grammar; `balanced`: the variant in which a "/*" inside a
    block comment always opens a nested comment (what RE_BLOCK_COMMENT does), used to classify the
    block-comment-peg-fallback finding"""
    global _G_LINE, _GB_LINE  # noqa: PLW0603
    if _G_LINE is None:
        _G_LINE = FM.meta_g_line()
        rs = FM.meta_rules_ser()
        any_ = "RULE ANY 2 1 ANY"
        old = f"R block_comment 2 g SEQ 3 S 47.42 REP GRP - CH 2 ID block_comment - SEQ 2 NOT S 42.47 {any_} S 42.47"
        new = f"R block_comment 2 g SEQ 3 S 47.42 REP GRP - CH 2 ID block_comment - SEQ 3 NOT S 42.47 NOT S 47.42 {any_} S 42.47"
        assert old in rs
        rs = [new if x == old else x for x in rs]
        _GB_LINE = f"G {len(rs)} " + " ".join(rs)
    return _GB_LINE if balanced else _G_LINE


def ask_oracle(texts: list[str], balanced: bool = False) -> list[str]:
    """`ok <pairs>` | `fail` | `oof` for each text"""
    if not texts:
        return []
    out = run_driver([g_line(balanced)] + [FM.oracle_request(t) for t in texts], shards=1)
    return out[1:]


INVALID_SAMPLES = ['a = { "x" ', "a = {}", "a = { b ~ }", "= { a }", 'a { "x" }', "a = { PUSHX }", "a = { 'ab'..'c' }",
                   'a = { "\\q" }', "a = { b{} }", "a = { #t b }", "a = { PEEK[-0..] }", 'a = { "x" }\n//! late',
                   "a = { (b }", "a = { b | }", "a = { b }\r", "/* a = { b }"]
VALID_SAMPLES = ["", " \n", "// c", "/* a /* b */ c */", 'a = { "x" }', "a={&!b*?}", "a = { PEEK [ -1 .. 2 ] }",
                 "/// d\na = _{ 'a'..'z' | ^\"x\" ~ PUSH(b)+ }", "a = { #t = (b | c){2, 3} }///", "POPCORN = { '\\n'..'\\u{10FFFF}' }"]


def check_oracle() -> list[str]:
    """problems with the oracle itself (it must accept every bundled grammar and the valid samples, and
    reject the invalid samples)"""
    problems = []
    files = bundled()
    answers = ask_oracle(list(files.values()) + VALID_SAMPLES + INVALID_SAMPLES)
    names = list(files) + [f"valid sample {i}" for i in range(len(VALID_SAMPLES))]
    for n, a in zip(names, answers):
        if not a.startswith("ok "):
            problems.append(f"the meta-grammar oracle does not accept {n}: {a[:40]}")
    for t, a in zip(INVALID_SAMPLES, answers[len(names):]):
        if a != "fail":
            problems.append(f"the meta-grammar oracle does not reject {t!r}: {a[:40]}")
    return problems


def check_transcription() -> str | None:
    """front_meta.META against the tree the real front end builds from tests/grammars/meta.pest"""
    im = impl()
    r = im.load((REPO / "tests/grammars/meta.pest").read_text(), False)
    if r[0] != "ok":
        return "the front end does not load tests/grammars/meta.pest: " + _impl_kind(r)
    _, table = im.table(r[1])
    mine = {}
    for item in FM.meta_rules_ser()[1:]:
        _, name, mod, _, expr = item.split(" ", 4)
        mine[name] = (int(mod), expr.replace("RULE ANY 2 1 ANY", "ID ANY -").replace("RULE SOI 2 1 SOI", "ID SOI -"))
    theirs = {n: (m, e) for n, (m, _, e) in table.items()}
    if mine != theirs:
        diff = [n for n in mine if mine.get(n) != theirs.get(n)] + [n for n in theirs if n not in mine]
        return "front_meta.META differs from the front end's reading of tests/grammars/meta.pest at: " + ", ".join(diff[:6])
    return None


# ---------------------------------------------------------------- texts

def bundled() -> dict[str, str]:
    files = sorted((REPO / "tests" / "grammars").glob("*.pest")) + sorted((REPO / "examples").glob("*/*.pest"))
    return {str(f.relative_to(REPO)): f.read_text() for f in files}


_TOKEN_RE = re.compile(r'"(?:\\.|[^"\\])*"|\'(?:\\.|[^\'\\])*\'|//[^\n]*|/\*.*?\*/|[A-Za-z_][A-Za-z_0-9]*|\d+|\.\.|\s+|.', re.S)
TOKEN_POOL = ["a", "=", "{", "}", '"x"', "'a'", "..", "~", "|", "(", ")", "*", "+", "?", "!", "&", "#t", "=", "PUSH",
              "PEEK", "[", "]", "1", "-1", ",", "^", "/*", "*/", "//", "\n", " ", "_", "@", "$", "///", "//!", "POP",
              '"\\n"', '"\\x4"', "\\", '"', "'", "b", "PUSH_LITERAL", "{1,2}", "\r", "\t", "\u00e9", "PEEK_ALL", "DROP",
              "'\\''", "'\\u{41}'", '"\\u{110000}"', "{,3}", "{2,}", "-0", "007", "POPCORN", "ANY", "EOI", "/*/"]


def char_mutants(rng: random.Random, t: str, n: int) -> list[str]:
    out = []
    for _ in range(n):
        if not t:
            break
        i = rng.randrange(len(t) + 1)
        k = rng.random()
        if k < 0.33 and i < len(t):
            out.append(t[:i] + t[i + 1 :])
        elif k < 0.66:
            out.append(t[:i] + rng.choice(ALPHABET) + t[i:])
        elif i < len(t):
            out.append(t[:i] + rng.choice(ALPHABET) + t[i + 1 :])
    return out


# characters that Python's str predicates and conversions treat like digits, letters, blanks or line breaks although pest's
# grammar does not: isdigit()/int() digits, isalpha()/isidentifier() letters, isspace()/splitlines() separators
EXOTIC_DIGITS = "\u00b2\u2083\u2460\u0663\uff13\u2167\u0be7"
EXOTIC_LETTERS = "\u00e1\u00c9\u00df\u0130\u212a\uff41\u03a9\u4e2d"
EXOTIC_SPACES = "\u00a0\u2028\u2029\u3000\u200b\x0b\x0c\x1c\x1d\x85\r\x00"


def exotic_mutants(rng: random.Random, t: str, n: int) -> list[str]:
    """a digit replaced by a digit-like, an identifier letter by a non-ASCII letter, a blank by a blank-like; or one of them
    inserted anywhere"""
    out = []
    if not t:
        return out
    digs = [i for i, c in enumerate(t) if c in "0123456789"]
    lets = [i for i, c in enumerate(t) if c.isascii() and (c.isalpha() or c == "_")]
    blks = [i for i, c in enumerate(t) if c in " \t\n"]
    for _ in range(n):
        k = rng.random()
        if k < 0.3 and digs:
            i = rng.choice(digs)
            out.append(t[:i] + rng.choice(EXOTIC_DIGITS) + t[i + 1 :])
        elif k < 0.5 and lets:
            i = rng.choice(lets)
            out.append(t[:i] + rng.choice(EXOTIC_LETTERS) + t[i + 1 :])
        elif k < 0.7 and blks:
            i = rng.choice(blks)
            out.append(t[:i] + rng.choice(EXOTIC_SPACES) + t[i + 1 :])
        else:
            i = rng.randrange(len(t) + 1)
            out.append(t[:i] + rng.choice(EXOTIC_DIGITS + EXOTIC_LETTERS + EXOTIC_SPACES) + t[i:])
    return out


def all_char_mutants(t: str, alphabet: str = ALPHABET):
    for i in range(len(t)):
        yield t[:i] + t[i + 1 :]
    for i in range(len(t) + 1):
        for c in alphabet:
            yield t[:i] + c + t[i:]
    for i in range(len(t)):
        for c in alphabet:
            if c != t[i]:
                yield t[:i] + c + t[i + 1 :]


def token_mutants(rng: random.Random, t: str, n: int) -> list[str]:
    toks = _TOKEN_RE.findall(t)
    out = []
    for _ in range(n):
        if not toks:
            break
        i = rng.randrange(len(toks))
        k = rng.random()
        u = list(toks)
        if k < 0.3:
            del u[i]
        elif k < 0.5:
            u.insert(i, toks[i])
        elif k < 0.7 and i + 1 < len(u):
            u[i], u[i + 1] = u[i + 1], u[i]
        elif k < 0.85:
            u[i] = rng.choice(TOKEN_POOL)
        else:
            u.insert(i, rng.choice(TOKEN_POOL))
        out.append("".join(u))
    return out


def soups(rng: random.Random, n: int) -> list[str]:
    out = []
    for _ in range(n):
        k = rng.random()
        if k < 0.25:
            s = "".join(rng.choice(ALPHABET) for _ in range(rng.randrange(0, 14)))
        elif k < 0.5:
            s = "".join(rng.choice(TOKEN_POOL) for _ in range(rng.randrange(0, 12)))
        elif k < 0.75:
            s = "a = { " + "".join(rng.choice(ALPHABET) for _ in range(rng.randrange(0, 12))) + " }"
        else:
            s = "r=" + rng.choice(["", "_", "@", "$", "!"]) + "{" + " ".join(rng.choice(TOKEN_POOL) for _ in range(rng.randrange(0, 10))) + "}"
        out.append(s)
    return out


def exotic_probe_texts() -> list[str]:
    base = ['a = { "x"{2} }', 'a = { "x"{1,3} }', 'a = { "x"{,2} }', 'a = { "x"{2,} }', 'a = { PEEK[1..2] }', 'a = { PEEK[-1..] }',
            "a = { '0'..'9' }", 'a1 = { b_2 }', 'a = { "\\x41" }', 'a = { "\\u{41}" }', '/// d 1\na = { b }']
    out = []
    # letters whose upper / lower / folded forms have another length or leave the BMP plane's usual pairs, at the head and in
    # the middle of literals inside choices the optimizer squashes (its order and class computations call ord(), upper(), lower())
    odd = "\u00df\u0149\u01f0\ufb01\u0130\u01c5\u0390\u017f\u212a\u212b\u00b5\u1e9e\U00010400"
    shapes = ["a = {{ 'a'..'z' | ^\"{L}x\" }}", "a = {{ ASCII_DIGIT | ^\"{L}x\" }}", "a = {{ \"q\" | ^\"{L}x\" | 'a'..'c' }}", "a = {{ ^\"{L}x\" | 'a'..'z' }}",
              "a = {{ ^\"{L}\" | \"b\" }}", "a = {{ \"{L}\" | ^\"x{L}\" | 'a'..'b' }}", "WHITESPACE = _{{ \" \" | ^\"{L}x\" }}\na = {{ \"b\" ~ \"c\" }}",
              "a = {{ '{L}'..'{L}' | ^\"{L}{L}\" }}", "a = {{ (\"b\" | ^\"{L}x\")* }}", "a = {{ !(\"b\" | ^\"{L}\") ~ ANY }}"]
    for sh in shapes:
        out += [sh.format(L=ch) for ch in odd]
    for t in base:
        for i, c in enumerate(t):
            if c in "0123456789":
                out += [t[:i] + x + t[i + 1 :] for x in EXOTIC_DIGITS]
            elif c == " ":
                out += [t[:i] + x + t[i + 1 :] for x in EXOTIC_SPACES]
            elif c.isalpha() and c.isascii():
                out += [t[:i] + x + t[i + 1 :] for x in EXOTIC_LETTERS[:4]]
    return out


def special_texts() -> list[str]:
    """empty / blank / comment-only texts, texts ending inside a string, escape, comment, rule"""
    base = 'a = { "x\\n" ~ \'a\'..\'z\' | ^"y" ~ PUSH(b)* ~ PEEK[1..2] ~ #t = (c){2,3} } /* c */ // d\n/// doc\nb = _{ a }'
    out = ["", " ", "\n", "\t", "\r", "\r\n", " \n\t ", "//", "// c", "// c\n", "/**/", "/* c */", "/* /* */ */", "/*", "/* /* */",
           "///", "/// d", "/// d\n", "//!", "//! d", "//! d\n//! e", "//! d\n/// e\n", "a", "a=", "a={", 'a={"', 'a={"\\', 'a={"\\x',
           'a={"\\x4', 'a={"\\u', 'a={"\\u{', 'a={"\\u{41', "a={'", "a={'a", "a={'a'", "a={'a'.", "a={'a'..", "a={'a'..'", "a={'\\", "a={^",
           'a={^"', "a={PUSH", "a={PUSH(", "a={PUSH_LITERAL", 'a={PUSH_LITERAL("x"', "a={PEEK[", "a={PEEK[1", "a={PEEK[1..", "a={#", "a={#t",
           "a={#t=", "a={b{", "a={b{1", "a={b{1,", "a={(", "a={(b", "a={!", "a={&", "a={b~", "a={b|", "a={|", "a={b}", "a={b}/", "a={b}/*",
           'a = { "\\u{110000}" }', 'a = { "\\u{D800}" }', "a = { '\\u{DFFF}'..'\\u{E000}' }", "a = { 'b'..'a' }", "a = { b }",
           'a = { "x" } a = { "y" }', 'ANY = { "x" }', "a = { ANY ~ EOI ~ SOI ~ #t = ASCII_DIGIT }", 'a = { "x"{' + "1" * 4301 + "} }",
           "a = { PEEK[-" + "0" * 4300 + "1..] }", "a = { PEEK[-" + "0" * 4400 + "1.." + "0" * 4400 + "] }",
           'a = { "x"{' + "0" * 4400 + "1} }", 'a = { "x"{' + "0" * 4400 + "} }", 'a = { "x"{' + "0" * 4400 + "2," + "0" * 4400 + "3} }",
           "a = { PEEK[" + "9" * 4300 + "..] }", "a = { PEEK[" + "9" * 4301 + "..] }", "a = { PEEK[..-" + "0" * 50 + "9" * 4301 + "] }",
           "/// doc\na = { b }", "///doc\na = { b }", "///  doc\na = { b }", "///\tdoc\na = { b }", "///\na = { b }", "/// \na = { b }",
           "//! d\n//!d\n//!  d\n//!\t\n//!\na = { b }\n/// t", "/// \r\na = { b }", "///", "/// ", "///  ",
           'a = { "x"{' + "9" * 400 + "} }", "\ufeffa = { b }", "a = { b }\x00", "a = { \x0c b }",
           "a = { b }\u2028", "a\u00e9 = { b }", "a = { \u00e9 }", 'a = { "\ud800" }', "a = { '\ud800'..'\udfff' }"]
    out += [base[:i] for i in range(len(base) + 1)]
    return out


def deep_texts() -> list[str]:
    out = []
    for n in (30, 50, 200, 400, 1200):
        out.append("a = { " + "(" * n + '"x"' + ")" * n + " }")
        out.append("a = { " + "!" * (3 * n) + "b }")
        out.append("a = { " + "PUSH(" * n + "b" + ")" * n + " }")
        out.append("a = { b" + "*" * (3 * n) + " }")
        out.append("a = { " + "(" * n)
        out.append("/*" * n + "*/" * n + " a = { b }")
        out.append("/*" * n + " a = { b }")                         # nested block comments, none of them closed
        out.append("a = { b }\n" + "/* " * n + "\n")                # the same with blanks between the openers, after a rule
        out.append("a = { b " + "/* x " * n + "}")
        out.append("/*" * n + "*/" * (n // 2) + " a = { b }")       # half of them closed
        out.append("a = { " + " ~ ".join(["b"] * (3 * n)) + " }")
    return out


FEATS = [set(), {"bounded"}, {"ws", "cm"}, {"mods", "ws", "cm", "bounded"}, {"stack", "ws", "mods"}, {"ci", "builtin"}, {"tags", "ws"},
         {"bounded", "ws", "cm", "mods", "stack", "ci", "builtin", "tags", "skipish"}]


def printed_asts(rng: random.Random, n: int) -> list[str]:
    out = []
    for _ in range(n):
        feats = set(rng.choice(FEATS))
        try:
            rules = GG.gen_grammar(rng, feats)
        except Exception:  # noqa: BLE001
            continue
        out.append(GG.show_grammar(rules))
        out.append(GG.show_grammar_min(rules))
    return out


RG_SHAPES = [
    "{X}", "{X} | {Y}", "\"x\" | {X}", "(!{X} ~ ANY)*", "(!({X} | \"y\") ~ ANY)*", "(!{X} ~ {Y})*", "{X} ~ {Y}", "{X}*", "{X}?", "{X}+",
    "{X}{{2}}", "{X}{{1,2}}", "\"x\"", "'a'..'c' | {X}", "PUSH({X})", "!{X} ~ ANY", "&{X} ~ \"x\"", "#t = {X}", "({X})", "^\"k\" | {X}",
    "(\"a\" | {X}) | \"b\"", "({X} | \"a\")*", "{X} ~ ({Y} | \"z\")?", "\"a\" | \"ab\" | {X}", "PEEK ~ {X}", "({X} ~ \"x\") | {Y}",
]


def rule_graphs(rng: random.Random, n: int, exhaustive: bool = False) -> list[str]:
    """small grammars whose rules refer to each other in every way - also cyclically, left-recursively, to themselves, to
    built-ins and to undefined names - with bodies in the shapes the optimizer passes look for: loading must still give a
    Parser or a PestGrammarError"""
    mods = ["", "", "_", "_", "@", "$", "!"]
    out = []
    if exhaustive:
        # two rules a, b: every pair of shapes, references drawn from {a, b}, both silent or both normal
        for sa in RG_SHAPES:
            for sb in RG_SHAPES:
                for (xa, ya, xb, yb) in (("b", "a", "a", "b"), ("a", "b", "b", "a"), ("b", "b", "a", "a")):
                    for m in ("", "_"):
                        out.append(f"a = {m}{{ {sa.format(X=xa, Y=ya)} }}\nb = {m}{{ {sb.format(X=xb, Y=yb)} }}")
    for _ in range(n):
        k = rng.choice([1, 2, 2, 3, 3, 4])
        names = ["a", "b", "c", "d"][:k]
        if rng.random() < 0.15:
            names[rng.randrange(k)] = rng.choice(["WHITESPACE", "COMMENT", "SKIP"])
        pool = names * 4 + ["ANY", "ASCII_DIGIT", "EOI", "SOI", "NEWLINE", "undefined_rule"]
        lines = []
        for nm in names:
            sh = rng.choice(RG_SHAPES)
            lines.append(f"{nm} = {rng.choice(mods)}{{ {sh.format(X=rng.choice(pool), Y=rng.choice(pool))} }}")
        out.append("\n".join(lines))
    return out


def sentences(rng: random.Random, n: int, maxlen: int = 400) -> list[str]:
    out = []
    for i in range(n):
        g = FM.SentenceGen(rng, wild=rng.choice([0.0, 0.05, 0.15, 0.3]), trivia=rng.choice([0.1, 0.5, 0.9]))
        s = g.gen()
        if len(s) <= maxlen:
            out.append(s)
    return out


def build_texts(prop: str, tier: str, sd: int) -> tuple[list[str], dict]:
    """the seeded list of texts of one run and how many came from each source"""
    rng = random.Random(1000003 * sd + (10 if prop == "C10" else 11))
    thorough = tier == "thorough"
    files = bundled()
    src: dict[str, list[str]] = collections.OrderedDict()
    src["bundled grammars"] = list(files.values())
    src["special texts (empty, blank, comment-only, every prefix of a grammar using every construct)"] = special_texts()
    src["digit-like, letter-like and blank-like characters in every digit / letter / blank slot of small grammars"] = exotic_probe_texts()
    sent = sentences(rng, (20000 if prop == "C10" else 6000) if thorough else 2000)
    src["sentences derived from the meta-grammar (random walk, trivia at every legal place)"] = sent
    pa = printed_asts(rng, (5000 if prop == "C10" else 1500) if thorough else 400)
    src["printed random ASTs (gen_grammar.show_grammar / show_grammar_min)"] = pa
    muts = []
    for s in sent + pa:
        muts += char_mutants(rng, s, 4 if thorough else 3)
        muts += token_mutants(rng, s, 3 if thorough else 2)
        muts += exotic_mutants(rng, s, 3 if thorough else 2)
    src["single-character and single-token mutations of the sentences and printed ASTs"] = muts
    small = [t for t in files.values() if len(t) < 3000] if not thorough else list(files.values())
    bm = []
    for t in files.values():
        bm += token_mutants(rng, t, 400 if thorough else 60)
    if prop == "C11":
        if thorough:
            for t in files.values():
                bm += [t[:i] for i in range(len(t))]
                bm += list(all_char_mutants(t)) if len(t) < 1200 else char_mutants(rng, t, 15000)
        else:
            for t in files.values():
                bm += [t[: rng.randrange(len(t) + 1)] for _ in range(150)]
                bm += char_mutants(rng, t, 250)
    else:
        for t in small:
            bm += char_mutants(rng, t, 8000 if thorough else 150)
            bm += [t[: rng.randrange(len(t) + 1)] for _ in range(500 if thorough else 30)]
    src["truncations, single-character and single-token mutations of the bundled grammars"] = bm
    src["character and token soups over the grammar alphabet"] = soups(rng, (200000 if prop == "C10" else 60000) if thorough else 12000)
    if prop == "C11":
        src["deep nesting (parentheses, prefix and postfix chains, PUSH, comments, long sequences)"] = deep_texts()
        src["rule graphs (cyclic / left-recursive / self / built-in / undefined references in the shapes the optimizer rewrites)"] = \
            rule_graphs(rng, 20000 if thorough else 3000, exhaustive=True)
    texts, seen, counts = [], set(), {}
    for name, ts in src.items():
        k = 0
        for t in ts:
            if t not in seen:
                seen.add(t)
                texts.append(t)
                k += 1
        counts[name] = k
    return texts, counts


# ---------------------------------------------------------------- workers

def _limit():
    sys.setrecursionlimit(RECURSION_LIMIT)
    try:
        soft, hard = resource.getrlimit(resource.RLIMIT_AS)
        if soft == resource.RLIM_INFINITY or soft > MEMORY_LIMIT:
            resource.setrlimit(resource.RLIMIT_AS, (MEMORY_LIMIT, hard))
    except (ValueError, OSError):
        pass


def _corr_f(texts: list[str], contexts: bool = False):
    """(number compared, mismatches) of the implementation against the Lean model: the `F` request (accept /
    rule table / error kind and start) and, with `contexts`, `GC` (the line, column and source line
    _error_context reports for the error token)"""
    im = impl()
    big = [t for t in texts if len(t) <= 12000]
    reqs, exp = [], []
    for t in big:
        i = im.f_answer(t)
        if i == "exc RecursionError":
            continue
        reqs.append(im.f_request(t))
        exp.append((t, i))
        if contexts and i.startswith("err ") and i.split()[2].isdigit():
            start = int(i.split()[2])
            try:
                ctx = im.GErr("x")._error_context(t, start)  # noqa: SLF001
                exp.append((t, f"{ctx[0]} {ctx[1]} {enc(ctx[3])}"))
            except Exception as e:  # noqa: BLE001
                exp.append((t, "exc " + type(e).__name__))
            reqs.append(f"GC {enc(t)} {start}")
    answers = run_driver(reqs, shards=1)
    mism = []
    for (t, i), a, r in zip(exp, answers, reqs):
        if i != a:
            mism.append({"text": cps(t), "request": r.split(" ", 1)[0], "impl": i[:400], "model": a[:400]})
    return len(reqs), mism


def worker_c11(texts: list[str]):
    _limit()
    bads = []
    n = 0
    nerr = 0
    for t in texts:
        for optimized in (False, True):
            n += 1
            bad = check_total(t, optimized)
            if bad:
                bads.append({"text": cps(t), "optimizer": "default" if optimized else "none", **bad})
        if impl().load(t, False)[0] == "err":
            nerr += 1
    ncorr, mism = _corr_f(texts, contexts=True)
    return {"evals": n, "errors": nerr, "bads": bads[:200], "nbad": len(bads), "ncorr": ncorr, "corr": mism[:20], "ncorr_bad": len(mism)}


def compare_structure(text: str, pairs: str, parser):
    """None if the rules the front end built are what the text denotes; else (class, expected, observed).
    Doc lines are pest's inner_doc: the optional blank after "///" / "//!" belongs to the marker (the former
    finding doc-comment-keeps-leading-blank, fixed by 77be14c, is now an ordinary "docs" violation)."""
    im = impl()
    try:
        with harness_recursion():
            gdocs, exp = FM.denote(text, pairs, im.builtin_set)
    except FM.SpecError as e:
        return ("accepts-no-code-point", str(e), "accepted")
    got_docs, got = im.table(parser)
    # dictionary order of the grammar rules, apart from the slots of built-ins a grammar rule redefines
    order_e = [n for n in exp if n not in im.builtin_set]
    order_g = [n for n in got if n not in im.builtin_set]
    if order_e != order_g or set(exp) != set(got):
        return ("rule-names", str(list(exp))[:300], str(list(got))[:300])
    for n in exp:
        if (exp[n][0], exp[n][2]) != (got[n][0], got[n][2]):
            return ("structure", f"{n}: modifier {exp[n][0]} {exp[n][2]}"[:700], f"{n}: modifier {got[n][0]} {got[n][2]}"[:700])
    e_docs = (gdocs, {n: v[1] for n, v in exp.items()})
    g_docs = (got_docs, {n: v[1] for n, v in got.items()})
    if e_docs == g_docs:
        return None
    return ("docs", str(e_docs)[:400], str(g_docs)[:400])


def has_reversed_range(text: str, pairs: str) -> bool:
    with harness_recursion():
        stack = list(FM.parse_pairs(pairs))
    while stack:
        q = stack.pop()
        if q[0] == "range":
            try:
                a, b = (FM.spec_unescape(text[c[3][1][1] : c[3][1][2]]) for c in (q[3][0], q[3][2]))
                if a > b:
                    return True
            except FM.SpecError:
                pass
        stack.extend(q[3])
    return False


def has_overflowing_number(text: str, pairs: str) -> bool:
    """a repetition bound above u32 or a slice index outside i32: pest's own reader of the parse tree rejects
    them ("number cannot overflow u32", "integer cannot overflow i32")"""
    with harness_recursion():
        stack = list(FM.parse_pairs(pairs))
    while stack:
        q = stack.pop()
        if q[0] in ("number", "integer"):
            digits = text[q[1] : q[2]].lstrip("-").lstrip("0")
            limit = 0xFFFFFFFF if q[0] == "number" else 0x80000000
            if len(digits) > 10 or int(digits or "0") > limit:
                return True
        if q[0] not in ("string", "character", "identifier"):
            stack.extend(q[3])
    return False


def has_big_escape(text: str, pairs: str) -> bool:
    try:
        with harness_recursion():
            FM.denote(text, pairs, set())
    except FM.SpecError:
        return True
    return False


def judge_c10(text: str, answer: str, answer_balanced):
    """one text against the oracle.  Returns (verdict, detail): verdict ∈ "agree", "known:<key>",
    "violation:<class>", "skip" (oracle out of fuel); `answer_balanced` is a callable giving the balanced-comment
    oracle's answer, asked only when needed."""
    im = impl()
    if answer == "oof" or answer.startswith("exc") or answer == "driver-error":
        return "skip", None
    valid = answer.startswith("ok ")
    r = im.load(text, False)
    if r[0] == "exc":
        return "violation:exception", {"expected": "accepted" if valid else "PestGrammarError", "observed": f"{r[1]}: {r[2]}"}
    if r[0] == "err" and "nested too deeply" in str(r[1].args[0] if r[1].args else "") and nest_depth(text) >= 150:
        # the recursion limit stands in for a result the front end could not compute: nothing to compare
        return ("known:deep-nesting-rejected", None) if valid else ("agree", None)
    if not valid:
        if r[0] == "ok":
            return "violation:accepts-invalid", {"expected": "rejected (pest's meta-grammar does not derive the text)", "observed": "accepted"}
        return "agree", None
    pairs = answer[3:]
    if r[0] == "err":
        s = slug(str(r[1].args[0]) if r[1].args else "")
        if s == "unescape_range" and has_big_escape(text, pairs):
            return "agree", None           # no such code point: nothing to build (pest fails too)
        if s in ("number_overflow", "number_too_large") and has_overflowing_number(text, pairs):
            return "agree", None           # pest's reader of the parse tree rejects it too
        # (since fix 6f76b47 leading zeros do not count towards int()'s digit limit: a number rejected as too
        #  large has more than 4300 significant digits, hence overflows, and was answered above; anything
        #  else falls through to rejects-valid — the former finding int-digit-limit)
        if s == "range_order" and has_reversed_range(text, pairs):
            return "known:reversed-range-rejected", None
        if answer_balanced() == "fail":
            return "known:block-comment-peg-fallback", None
        return "violation:rejects-valid:" + s, {"expected": "accepted (valid pest syntax)", "observed": f"PestGrammarSyntaxError: {r[1].args[0] if r[1].args else ''}"[:160]}
    cmp_ = compare_structure(text, pairs, r[1])
    if cmp_ is None:
        return "agree", None
    return "violation:" + cmp_[0], {"expected": cmp_[1], "observed": cmp_[2]}


def worker_c10(texts: list[str]):
    _limit()
    answers = ask_oracle(texts)
    stats = collections.Counter()
    bads = []
    bal_cache: dict[str, str] = {}

    for t, a in zip(texts, answers):
        def bal(t=t):
            if t not in bal_cache:
                bal_cache[t] = ask_oracle([t], balanced=True)[0]
            return bal_cache[t]

        try:
            verdict, detail = judge_c10(t, a, bal)
        except Exception as e:  # noqa: BLE001
            verdict, detail = "violation:harness", {"expected": "a judgement", "observed": f"{type(e).__name__}: {e}"[:200]}
        stats[verdict] += 1
        stats["valid" if a.startswith("ok ") else "invalid"] += 1
        if verdict.startswith("violation:"):
            bads.append({"text": cps(t), "class": verdict[10:], **(detail or {})})
    ncorr, mism = _corr_f(texts)
    return {"stats": dict(stats), "bads": bads[:200], "nbad": len(bads), "ncorr": ncorr, "corr": mism[:20], "ncorr_bad": len(mism)}


# ---------------------------------------------------------------- shrinking

def shrink_text(text: str, still_fails, budget_s: float = 15.0) -> str:
    """greedy deletion of chunks, then of single characters, while `still_fails(text)`"""
    t0 = time.time()
    cur = text
    size = max(len(cur) // 2, 1)
    while size >= 1 and time.time() - t0 < budget_s:
        i = 0
        changed = False
        while i < len(cur) and time.time() - t0 < budget_s:
            cand = cur[:i] + cur[i + size :]
            if cand != cur and still_fails(cand):
                cur = cand
                changed = True
            else:
                i += size
        if not changed or size == 1:
            size //= 2
    return cur


def c11_fails_like(cls: str, optimized: bool):
    def f(t):
        bad = check_total(t, optimized)
        return bool(bad) and bad["class"] == cls
    return f


def c10_fails_like(cls: str):
    def f(t):
        a = ask_oracle([t])[0]
        v, _ = judge_c10(t, a, lambda: ask_oracle([t], balanced=True)[0])
        return v == "violation:" + cls
    return f


# ---------------------------------------------------------------- replay

def replay(out: Outcome, payload: dict) -> None:
    _limit()
    text = uncps(payload["text"])
    out.coverage = {"explanation": "replay of one recorded grammar text", "evaluations": 1, "distinct_nontrivial": 2,
                    "samples": [payload.get("text_repr", "")[:200]]}
    kind = payload.get("kind")
    if kind == "totality" and payload.get("class") == "exception:NoReturn":
        if not returns_within(text, payload.get("optimizer") == "default"):
            out.violation({**{k: payload[k] for k in ("kind", "text", "text_repr", "optimizer", "class", "observed", "expected") if k in payload},
                           "command": f"./check {out.prop} --replay <this file>"})
    elif kind == "totality-depth":
        again = [x for x in depth_sweep(payload["depth_shape"], payload.get("optimizer") == "default")["bads"]
                 if not any(k["match"](uncps(x["text"]), x) for k in known_for("C11") if "match" in k)]
        if again:
            x = again[0]
            out.violation({"kind": "totality-depth", "depth_shape": x["depth_shape"], "depth": x["depth"], "text": x["text"],
                           "text_repr": repr(uncps(x["text"]))[:200], "optimizer": x["optimizer"], "class": x["class"],
                           "observed": x["observed"], "expected": x["expected"], "command": f"./check {out.prop} --replay <this file>"})
    elif kind == "totality":
        bad = check_total(text, payload.get("optimizer") == "default")
        if bad and not any(k["match"](text, bad) for k in known_for("C11") if "match" in k):
            out.violation({**{k: payload[k] for k in ("kind", "text", "text_repr", "optimizer") if k in payload}, **bad,
                           "command": f"./check {out.prop} --replay <this file>"})
    elif kind == "correspondence":
        n, mism = _corr_f([text], contexts=True)
        if mism:
            c = mism[0]
            out.unproved({"kind": "correspondence", "text": payload["text"], "text_repr": payload.get("text_repr", ""),
                          "broken": f"correspondence {c['request']} " + enc(text)[:300], "model_answer": c["model"], "code_answer": c["impl"]})
    elif kind == "syntax":
        a = ask_oracle([text])[0]
        v, detail = judge_c10(text, a, lambda: ask_oracle([text], balanced=True)[0])
        if v.startswith("violation:"):
            out.violation({**{k: payload[k] for k in ("kind", "text", "text_repr") if k in payload}, "class": v[10:], **(detail or {}),
                           "command": f"./check {out.prop} --replay <this file>"})


# ---------------------------------------------------------------- main

def _chunks(texts: list[str], n: int) -> list[list[str]]:
    # interleave so that every chunk gets the same mix of short and long texts
    n = max(1, min(n, len(texts)))
    return [texts[i::n] for i in range(n)]


def replay_known(out: Outcome, prop: str) -> None:
    """replay the witness of every open finding of this property on the real code; print KNOWN-FINDING for
    those that still fail"""
    _limit()
    for k in known_for(prop):
        w = k["witness"]
        if prop == "C11":
            optimized = k.get("optimized", False)
            bad = check_total(w, optimized)
            still = bool(bad) and k["match"](w, {**bad, "optimizer": "default" if optimized else "none"})
        else:
            a = ask_oracle([w])[0]
            v, _ = judge_c10(w, a, lambda w=w: ask_oracle([w], balanced=True)[0])
            still = v == "known:" + k["key"]
        if still:
            out.known.append(k["what"])


def _child(fn, job, conn):
    try:
        conn.send(("ok", fn(job)))
    except BaseException as e:  # noqa: BLE001
        conn.send(("exc", f"{type(e).__name__}: {e}"[:300]))
    finally:
        conn.close()


def _probe_child(text: str, optimized: bool, conn) -> None:
    _limit()
    im = impl()
    r = im.load(text, optimized)
    conn.send(r[0] if r[0] != "exc" else "exc:" + r[1])
    conn.close()


def returns_within(text: str, optimized: bool, limit_s: float = 25.0) -> bool:
    """does Parser.from_grammar(text) come back at all?  Run in a child process that is killed after `limit_s`: a loop inside
    a C extension (a regular expression that backtracks exponentially) cannot be interrupted by a signal handler"""
    ctx = mp.get_context("fork")
    a, b = ctx.Pipe(duplex=False)
    pr = ctx.Process(target=_probe_child, args=(text, optimized, b), daemon=True)
    pr.start()
    b.close()
    ok = a.poll(limit_s)
    if not ok:
        pr.kill()
    pr.join()
    return bool(ok)


# ---- nesting depth swept across the interpreter's recursion budget (C11)
# Where loading stops succeeding depends on the shape, on the optimizer and on how deep the caller's own stack is; an exception
# that escapes only when the overflow happens inside one particular frame shows at one or two depths only.  So the first depth
# that does not load is located by bisection and every depth around it is loaded.
DEPTH_SHAPES = {
    "postfix ?": lambda n: 'a = { "x"' + "?" * n + " }",
    "postfix *": lambda n: "a = { b" + "*" * n + ' }\nb = { "x" }',
    "postfix +": lambda n: 'a = { "x"' + "+" * n + " }",
    "postfix {1}": lambda n: 'a = { "x"' + "{1}" * n + " }",
    "postfix {,2} and ?": lambda n: 'a = { "x"' + "{,2}?" * (n // 2) + "?" * (n % 2) + " }",
    "prefix !": lambda n: "a = { " + "!" * n + '"x" }',
    "prefix &": lambda n: "a = { " + "&" * n + "b }\nb = _{ ANY }",
    "prefix and postfix": lambda n: "a = { " + "!" * (n // 2) + '"x"' + "?" * (n - n // 2) + " }",
    "parentheses": lambda n: "a = { " + "(" * n + '"x"' + ")" * n + " }",
    "PUSH": lambda n: "a = { " + "PUSH(" * n + '"x"' + ")" * n + " }",
    "nested sequences": lambda n: "a = { " + '("x" ~ ' * n + '"y"' + ")" * n + " }",
    "nested choices": lambda n: "a = { " + '("x" | ' * n + '"y"' + ")" * n + " }",
    "nested literal choices under @": lambda n: "a = @{ " + '("x" | "y" ~ ' * n + '"z"' + ")" * n + " }",
    "tagged groups": lambda n: "a = { " + "#t = (" * n + "b" + ")" * n + ' }\nb = { "x" }',
    "silent rule chain": lambda n: "\n".join(f"r{i} = _{{ r{i + 1} }}" for i in range(n)) + f'\nr{n} = {{ "x" }}',
    "skip shape": lambda n: "a = @{ " + "(" * n + '!"x" ~ ANY' + ")" * n + "* }",
}
DEPTH_MAX = 2600
DEPTH_WINDOW = 24


def depth_sweep(shape: str, optimized: bool, window: int = DEPTH_WINDOW) -> dict:
    """{"first": n0, "loads": k, "bads": [...]}: n0 = the first depth whose text does not load; every depth within DEPTH_WINDOW
    of it is checked for totality"""
    mk = DEPTH_SHAPES[shape]
    im = impl()
    loads = 0

    def loads_ok(n):
        nonlocal loads
        loads += 1
        return im.load(mk(n), optimized)[0] == "ok"

    lo, hi = 1, DEPTH_MAX
    if not loads_ok(lo):
        lo = hi = 1
    elif loads_ok(hi):
        lo = hi
    else:
        while hi - lo > 1:
            mid = (lo + hi) // 2
            if loads_ok(mid):
                lo = mid
            else:
                hi = mid
    bads = []
    for n in range(max(1, hi - window), hi + window + 1):
        loads += 1
        bad = check_total(mk(n), optimized)
        if bad:
            bads.append({"text": cps(mk(n)), "optimizer": "default" if optimized else "none", "depth_shape": shape, "depth": n, **bad})
    return {"first": hi, "loads": loads, "bads": bads}


def _depth_job(job):
    shape, optimized, window = job
    _limit()
    return (shape, optimized), depth_sweep(shape, optimized, window)


def _probe_job(job):
    text, optimized = job
    _limit()
    r = impl().load(text, optimized)
    return job, (r[0] if r[0] != "exc" else "exc:" + r[1])


def run_chunks(fn, jobs: list, per_chunk_s: float):
    """fn over jobs in at most NCPU child processes, each with a deadline after which it is killed.  Yields ("ok", result) for
    a finished chunk and ("hung", job) for a killed one."""
    ctx = mp.get_context("fork")
    pending = list(jobs)
    running: list = []
    while pending or running:
        while pending and len(running) < NCPU:
            job = pending.pop()
            a, b = ctx.Pipe(duplex=False)
            pr = ctx.Process(target=_child, args=(fn, job, b), daemon=True)   # never outlives the check
            pr.start()
            b.close()
            running.append((pr, a, job, time.time()))
        time.sleep(0.05)
        still = []
        for pr, a, job, t0 in running:
            if a.poll(0):
                try:
                    kind, res = a.recv()
                except EOFError:
                    kind, res = "exc", "worker died"
                pr.join()
                if kind == "ok":
                    yield "ok", res
                else:
                    yield "died", (job, res)
            elif not pr.is_alive():
                pr.join()
                yield "died", (job, "worker died without an answer")
            elif time.time() - t0 > per_chunk_s:
                pr.kill()
                pr.join()
                yield "hung", job
            else:
                still.append((pr, a, job, t0))
        running = still


def run(out: Outcome) -> None:
    prop = out.prop
    info = proof_stage(out, prop, THEOREMS[prop])      # before _limit(): lake/lean need their address space
    _limit()
    impl()
    if not info.get("driver_ok") and not os.environ.get("PEST_DRIVER"):
        out.infra_error = "Lean driver does not build: " + "; ".join(info.get("broken", []))[:400]
        out.coverage = {"explanation": "driver build failed", "evaluations": 1, "distinct_nontrivial": 2}
        return
    if prop == "C10":
        problems = check_oracle()
        if problems:
            out.infra_error = "the meta-grammar oracle is not usable: " + "; ".join(problems)[:600]
            out.coverage = {"explanation": "oracle self-check failed", "evaluations": 1, "distinct_nontrivial": 2}
            return
    texts, counts = build_texts(prop, out.tier, seed())
    jobs = _chunks(texts, NCPU * 4)
    fn = worker_c11 if prop == "C11" else worker_c10
    bads, corr = [], []
    stats = collections.Counter()
    evals = nerr = ncorr = ncorr_bad = nbad = 0
    pre_bads = []
    depth_first: dict[str, int] = {}
    if prop == "C11":
        # the texts built to strain the front end (deep nesting, unclosed nested comments) are loaded first, one killable process
        # each: the ones that do not come back are failures at once and are kept out of the chunks
        risky = set(deep_texts())
        probe_jobs = [(t, o) for t in texts if t in risky for o in (False, True)]
        for kind, res in run_chunks(_probe_job, probe_jobs, 25.0):
            if kind == "hung":
                t, o = res
                pre_bads.append({"text": cps(t), "class": "exception:NoReturn", "optimizer": "default" if o else "none",
                                 "observed": "Parser.from_grammar did not return within 25 s (the process had to be killed)",
                                 "expected": "a Parser or a PestGrammarError"})
            elif kind == "ok" and res[1] == "exc:Timeout":
                t, o = res[0]
                pre_bads.append({"text": cps(t), "class": "exception:Timeout", "optimizer": "default" if o else "none",
                                 "observed": f"Timeout: no result within {LOAD_TIMEOUT_S} s", "expected": "a Parser or a PestGrammarError"})
        # (stacked + or {,2} under the optimizer is the open finding huge-repetition-bound: e+ -> e ~ e* doubles the operand at every level)
        dwin = 3 * DEPTH_WINDOW if out.tier == "thorough" else DEPTH_WINDOW
        for kind, res in run_chunks(_depth_job, [(sh, o, dwin) for sh in DEPTH_SHAPES for o in (False, True)
                                                 if not (o and sh in ("postfix +", "postfix {,2} and ?"))], 300.0):
            if kind == "ok":
                (sh, o), r = res
                stats["depth_sweep_loads"] += r["loads"]
                depth_first[f"{sh} / {'default' if o else 'none'}"] = r["first"]
                pre_bads += r["bads"][:4]
            elif kind == "hung":
                sh, o = res[0], res[1]
                pre_bads.append({"text": cps(DEPTH_SHAPES[sh](DEPTH_MAX)), "class": "exception:NoReturn", "optimizer": "default" if o else "none",
                                 "observed": f"the depth sweep of shape {sh!r} did not finish within 300 s",
                                 "expected": "a Parser or a PestGrammarError"})
        hanging = {uncps(b["text"]) for b in pre_bads if b["class"] in ("exception:NoReturn", "exception:Timeout")}
        texts = [t for t in texts if t not in hanging]
        jobs = _chunks(texts, NCPU * 4)
        bads += pre_bads
        nbad += len(pre_bads)

    def results():
        """chunks in killable child processes; a chunk that does not come back is taken apart: every text of it is loaded in
        its own killable process, the ones that do not return become failures, the rest is run again as a chunk"""
        limit = 900.0 if out.tier == "thorough" else 150.0
        redo = []
        for kind, res in run_chunks(fn, jobs, limit):
            if kind == "ok":
                yield res
            elif kind == "hung":
                hung_texts = []
                for t in res:
                    for optimized in ((False, True) if prop == "C11" else (False,)):
                        if not returns_within(t, optimized):
                            hung_texts.append(t)
                            yield {"bads": [{"text": cps(t), "class": "exception:NoReturn", "optimizer": "default" if optimized else "none",
                                             "observed": "Parser.from_grammar did not return within 25 s (the process had to be killed)",
                                             "expected": "a Parser or a PestGrammarError"}],
                                   "nbad": 1, "corr": [], "ncorr": 0, "ncorr_bad": 0, "evals": 1, "errors": 0, "stats": {}}
                            break
                rest = [t for t in res if t not in hung_texts]
                if rest and hung_texts:
                    redo.append(rest)
                elif rest:
                    # every text of it loads, only slowly: taken again in four parts
                    q = max(1, len(rest) // 4)
                    redo += [rest[i : i + q] for i in range(0, len(rest), q)]
            else:
                raise RuntimeError(f"a worker failed: {res[1]}")
        for kind, res in run_chunks(fn, redo, limit * 2):
            if kind == "ok":
                yield res
            elif kind == "hung":
                stats["texts_left_unfinished"] += len(res)

    if True:
        for r in results():
            bads += r["bads"]
            nbad += r["nbad"]
            corr += r["corr"]
            ncorr += r["ncorr"]
            ncorr_bad += r["ncorr_bad"]
            if prop == "C11":
                evals += r["evals"]
                nerr += r["errors"]
            else:
                stats.update(r["stats"])
    replay_known(out, prop)

    # ---- verdict (DESIGN §5): concrete failures first, one per class, shortest witness, shrunk
    by_class: dict[tuple, dict] = {}
    known_hits = collections.Counter()
    for b in sorted(bads, key=lambda b: len(b["text"])):
        text = uncps(b["text"])
        if prop == "C11":
            hit = next((k for k in known_for("C11") if k["match"](text, b)), None)
            if hit:
                known_hits[hit["key"]] += 1
                continue
            key = (b["class"], b["optimizer"])
        else:
            key = (b["class"],)
        by_class.setdefault(key, b)
    reported = 0
    not_reproduced: list[dict] = []
    for key, b in sorted(by_class.items(), key=lambda kv: len(kv[1]["text"])):
        if reported >= 12:
            break
        text = uncps(b["text"])
        if prop == "C11" and b["class"] == "exception:NoReturn":
            optimized = b["optimizer"] == "default"
            if returns_within(text, optimized):
                not_reproduced.append({"class": b["class"], "optimizer": b["optimizer"], "text_repr": repr(text)[:200]})
                continue
            small = text
            for _ in range(12):                          # shorten from the end while it still does not return (each try is 25 s at most)
                cand = small[: max(1, len(small) * 2 // 3)]
                if len(cand) < len(small) and not returns_within(cand, optimized, 10.0):
                    small = cand
                else:
                    break
            out.violation({"kind": "totality", "text": cps(small), "text_repr": repr(small)[:400], "optimizer": b["optimizer"],
                           "class": b["class"], "observed": b["observed"], "expected": b["expected"], "seed": seed(),
                           "what": "Parser.from_grammar must terminate", "command": "./check C11 --replay <this file>"})
            reported += 1
            continue
        if prop == "C11" and b.get("depth_shape"):
            # where the failure lies depends on the depth of the caller's stack: the sweep is repeated here, not the one text
            again = [x for x in depth_sweep(b["depth_shape"], b["optimizer"] == "default")["bads"] if x["class"] == b["class"]]
            if not again:
                not_reproduced.append({"class": b["class"], "optimizer": b["optimizer"], "depth_shape": b["depth_shape"], "depth": b["depth"]})
                continue
            x = again[0]
            out.violation({"kind": "totality-depth", "depth_shape": x["depth_shape"], "depth": x["depth"], "text": x["text"],
                           "text_repr": repr(uncps(x["text"]))[:200], "optimizer": x["optimizer"], "class": x["class"],
                           "observed": x["observed"], "expected": x["expected"], "seed": seed(),
                           "what": "Parser.from_grammar must return a Parser or raise a PestGrammarError at every nesting depth; the depth "
                                   "at which this one escapes moves with the caller's stack depth, so the replay sweeps the depths around "
                                   "the first one that no longer loads",
                           "command": "./check C11 --replay <this file>"})
            reported += 1
            continue
        if prop == "C11":
            optimized = b["optimizer"] == "default"
            small = shrink_text(text, c11_fails_like(b["class"], optimized))
            bad = check_total(small, optimized)
            if not bad:                      # e.g. a RecursionError that depends on the caller's own stack depth
                small = text
                bad = check_total(small, optimized)
            if not bad:
                not_reproduced.append({"class": b["class"], "optimizer": b["optimizer"], "text_repr": repr(text)[:200]})
                continue
            out.violation({"kind": "totality", "text": cps(small), "text_repr": repr(small)[:400], "optimizer": b["optimizer"], **bad,
                           "shrunk_from": b["text"] if len(b["text"]) < 600 else b["text"][:600], "seed": seed(),
                           "what": "Parser.from_grammar must return a Parser or raise a PestGrammarError whose message renders and "
                                   "points at an existing line:column",
                           "command": "./check C11 --replay <this file>"})
        else:
            small = shrink_text(text, c10_fails_like(b["class"]), budget_s=10.0)
            a = ask_oracle([small])[0]
            v, detail = judge_c10(small, a, lambda small=small: ask_oracle([small], balanced=True)[0])
            if not v.startswith("violation:"):
                small = text
                a = ask_oracle([small])[0]
                v, detail = judge_c10(small, a, lambda small=small: ask_oracle([small], balanced=True)[0])
            if not v.startswith("violation:"):
                not_reproduced.append({"class": b["class"], "text_repr": repr(text)[:200]})
                continue
            out.violation({"kind": "syntax", "text": cps(small), "text_repr": repr(small)[:400], "class": v[10:], **(detail or {}),
                           "oracle": "valid pest syntax" if a.startswith("ok ") else "not derivable from pest's meta-grammar",
                           "shrunk_from": b["text"] if len(b["text"]) < 600 else b["text"][:600], "seed": seed(),
                           "what": "the front end must accept exactly the texts pest's meta-grammar derives and build the rules they denote",
                           "command": "./check C10 --replay <this file>"})
        reported += 1
    transcription = check_transcription() if prop == "C10" else None
    if reported == 0:
        corr.sort(key=lambda c: len(c["text"]))
        if corr:
            c = corr[0]
            out.unproved({"kind": "correspondence", "text": c["text"],
                          "broken": f"correspondence {c.get('request', 'F')} " + enc(uncps(c["text"]))[:300], "text_repr": repr(uncps(c["text"]))[:300],
                          "model_answer": c["model"], "code_answer": c["impl"], "more": [repr(uncps(x["text"]))[:120] for x in corr[1:5]],
                          "searched": {"cases": len(texts), "note": "the direct search found no failing text on the implementation"}})
        elif transcription:
            out.unproved({"broken": "table " + transcription,
                          "searched": {"cases": len(texts), "note": "implementation, oracle and model agree on every explored text"}})
        elif info["broken"]:
            out.unproved({"broken": "theorem " + "; ".join(info["broken"])[:1500],
                          "searched": {"cases": len(texts), "note": "implementation, oracle and model agree on every explored text"}})

    im = impl()
    samples = []
    for t in ["a = { b* ~ #t = (c | 'a'..'z')? }", 'a = { "x" ', ""]:
        samples.append({"text": t, "impl": im.f_answer(t)[:160]})
    cov = proof_coverage(info, prop)
    if prop == "C11":
        out.coverage = {
            **cov,
            "evaluations": evals,
            "distinct_nontrivial": nerr,
            "texts": len(texts),
            "rule": "every text is loaded with optimizer=None and with the default optimizer; any exception other than a PestGrammarError, "
                    "a message that does not render, or a line:column that is not the error token's offset inside the text is a failure. "
                    "Non-trivial = a text the front end rejects (an error is raised, rendered and located).  Texts: "
                    + "; ".join(f"{v} {k}" for k, v in counts.items()),
            "sources": counts,
            "failures_found": nbad,
            "attributed_to_known_findings": dict(known_hits),
            "not_reproduced_on_recheck": not_reproduced,
            "correspondence_requests": ncorr,
            "correspondence_mismatches": ncorr_bad,
            "depth_sweep": {"loads": stats.get("depth_sweep_loads", 0), "window": 3 * DEPTH_WINDOW if out.tier == "thorough" else DEPTH_WINDOW,
                            "first_depth_that_does_not_load": depth_first},
            "samples": samples,
        }
        out.assumptions = [
            "CPython's default recursion limit (1000) and default int string-conversion limit (4300 digits, which since fix 6f76b47 "
            "only a slice index with more than 4300 significant digits can reach) are in force",
            "'a line and column that exist' = the 1-based line / 0-based column PestGrammarError._error_context reports are those of the "
            "error token's offset, with str.splitlines line boundaries, the end of a text that is empty or ends with a line boundary "
            "being column 0 of a new last line",
            "termination is observed as 'returns within the run'; the unbounded claim is the Lean theorem front_total about the model",
        ]
    else:
        valid = stats.get("valid", 0)
        out.coverage = {
            **cov,
            "evaluations": sum(v for k, v in stats.items() if k in ("valid", "invalid")),
            "distinct_nontrivial": valid,
            "texts": len(texts),
            "rule": "every text is judged by pest's meta-grammar run by the Lean specification of PEG semantics (accept/reject), and, when "
                    "accepted, its pest parse tree is read by denote() and compared with the rules the front end built; every text is also "
                    "sent to the Lean mirror of the front end (exact rule table).  Non-trivial = a text that is valid pest syntax.  Texts: "
                    + "; ".join(f"{v} {k}" for k, v in counts.items()),
            "sources": counts,
            "verdicts": dict(stats),
            "failures_found": nbad,
            "not_reproduced_on_recheck": not_reproduced,
            "correspondence_requests": ncorr,
            "correspondence_mismatches": ncorr_bad,
            "samples": samples,
        }
        out.assumptions = [
            "syntactic validity is derivability from tests/grammars/meta.pest (transcribed in harness/front_meta.py and compared on every "
            "run with the tree the front end builds from that file) under the PEG semantics of lean/PestModel/Spec.lean",
            "a \\u{...} escape above U+10FFFF denotes no code point: the expected outcome is a PestGrammarSyntaxError",
            "python-pest's spelling of the structure is not part of the comparison: parentheses are Group nodes, right-nested ~ and | chains "
            "are n-ary nodes, PEEK/POP/DROP/PEEK_ALL/POP_ALL are dedicated nodes, a reference to a built-in rule other than EOI is compared by "
            "name, a tag is compared where the tree can hold one (on an identifier of a grammar rule or a group, in a term without prefix "
            "operator), a rule name defined twice denotes its last definition at the position of the first",
        ]
