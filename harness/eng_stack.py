"""C09 — Stack / SnapshottingInt / ParserState.checkpoint histories.

Three opinions on every history:
  impl   the real classes from /repo/src (pest.stack.Stack, pest.checkpoint_int.SnapshottingInt,
         pest.state.ParserState)
  ref    a full-copy reference written here (the property's own wording)
  model  the Lean model (proved equal to the Lean full-copy reference for *all* histories)
impl vs ref is the direct failing-input search; impl vs model is the correspondence check.
"""

from __future__ import annotations

import itertools
import multiprocessing as mp
import random

from common import NCPU, Outcome, proof_coverage, proof_stage, run_driver, seed, use_repo

THEOREMS = [
    "Pest.C09.stack_refines",
    "Pest.C09.trace_refines",
    "Pest.C09.reachable_inv",
    "Pest.C09.asserts_never_fail",
    "Pest.C09.restore_snapshot",
    "Pest.C09.dropSnap_invisible",
    "Pest.C09.dropSnap_outer_restorable",
    "Pest.C09.restore_without_snapshot",
    "Pest.C09.rstack_restore_matching",
    "Pest.C09.restore_matching",
    "Pest.C09.snapint_refines",
    "Pest.C09.snapint_history",
    "Pest.C09.pstate_refines",
    "Pest.DStack.inv_apply",
    "Pest.DStack.abs_apply",
    "Pest.PState.ckInv_apply",
    "Pest.PState.absP_apply",
]

STACK_OPS = ["p", "o", "c", "s", "r", "d"]
STATE_OPS = ["P", "u", "U", "C", "R", "Q", "a", "z", "k", "K", "x"]
INT_OPS = ["a1", "a-1", "z", "s", "r", "d"]


def fmt(xs) -> str:
    return "[" + ",".join(str(x) for x in xs) + "]"


# ---------------------------------------------------------------- stack

def concretize_stack(seq) -> list[str]:
    """push gets a fresh value so that contents are distinguishable"""
    out, n = [], 0
    for o in seq:
        if o == "p":
            n += 1
            out.append(f"p{n}")
        else:
            out.append(o)
    return out


def impl_stack_trace(toks):
    """returns (trace tokens, ref-mismatch or None)"""
    from pest.stack import Stack

    s = Stack()
    ref_cur, ref_snaps = [], []
    trace = []
    bad = None
    for i, t in enumerate(toks):
        exc = None
        try:
            if t[0] == "p":
                s.push(int(t[1:]))
            elif t == "o":
                s.pop()
            elif t == "c":
                s.clear()
            elif t == "s":
                s.snapshot()
            elif t == "r":
                s.restore()
            elif t == "d":
                s.drop_snapshot()
        except IndexError:
            exc = "IndexError"
        except AssertionError:
            exc = "AssertionError"
        except Exception as e:  # noqa: BLE001
            exc = type(e).__name__
        # reference
        rexc = None
        if t[0] == "p":
            ref_cur = ref_cur + [int(t[1:])]
        elif t == "o":
            if ref_cur:
                ref_cur = ref_cur[:-1]
            else:
                rexc = "IndexError"
        elif t == "c":
            ref_cur = []
        elif t == "s":
            ref_snaps = ref_snaps + [ref_cur]
        elif t == "r":
            if ref_snaps:
                ref_cur, ref_snaps = ref_snaps[-1], ref_snaps[:-1]
            else:
                ref_cur = []
        elif t == "d":
            ref_snaps = ref_snaps[:-1]
        vis = list(s)
        trace.append(exc if exc else fmt(vis))
        if bad is None:
            ok = exc == rexc and vis == ref_cur and len(s) == len(ref_cur)
            if ok:
                try:
                    pk = s.peek()
                    ok = bool(ref_cur) and pk == ref_cur[-1]
                except IndexError:
                    ok = not ref_cur
                ok = ok and s.empty() == (not ref_cur)
            if not ok:
                bad = {"step": i, "op": t, "impl": exc or vis, "reference": rexc or ref_cur}
        if exc and exc != "IndexError":
            break
    return trace, bad


def _stack_shard(args):
    prefix, depth = args
    use_repo()
    lines, traces, bads = [], [], []
    for rest in itertools.product(STACK_OPS, repeat=depth - len(prefix)):
        toks = concretize_stack(prefix + rest)
        tr, bad = impl_stack_trace(toks)
        lines.append("S " + " ".join(toks))
        traces.append(" ".join(tr))
        if bad and len(bads) < 5:
            bads.append((toks, bad))
    outs = run_driver(lines, shards=1)
    mism = []
    for ln, a, b in zip(lines, traces, outs):
        if a != b and len(mism) < 5:
            mism.append((ln, a, b))
    nontrivial = sum(1 for ln in lines if (" s" in ln and (" r" in ln or " d" in ln)))
    return len(lines), nontrivial, bads, mism, sum(1 for a, b in zip(traces, outs) if a != b)


def random_stack_hist(rng: random.Random, n: int) -> list[str]:
    w = rng.choice([(4, 3, 1, 3, 2, 2), (3, 3, 1, 2, 1, 3), (2, 4, 2, 3, 3, 1), (5, 2, 0, 3, 3, 3)])
    return concretize_stack(rng.choices(STACK_OPS, weights=w, k=n))


# ---------------------------------------------------------------- SnapshottingInt

def impl_int_trace(toks):
    from pest.checkpoint_int import SnapshottingInt

    s = SnapshottingInt()
    cur, saved = 0, []
    trace, bad = [], None
    for i, t in enumerate(toks):
        if t[0] == "a":
            k = int(t[1:])
            s = s + k if k >= 0 else s - (-k)
            cur += k
        elif t == "z":
            s.zero()
            cur = 0
        elif t == "s":
            s.snapshot()
            saved = saved + [cur]
        elif t == "r":
            s.restore()
            if saved:
                cur, saved = saved[-1], saved[:-1]
            else:
                cur = 0
        elif t == "d":
            s.drop()
            saved = saved[:-1]
        trace.append(str(int(s)))
        if bad is None and (int(s) != cur or (s > 0) != (cur > 0)):
            bad = {"step": i, "op": t, "impl": int(s), "reference": cur}
    return trace, bad


# ---------------------------------------------------------------- ParserState

def concretize_state(seq, rng: random.Random | None = None) -> list[str]:
    out, n = [], 0
    for o in seq:
        n += 1
        if o == "P":
            out.append(f"P{n}")
        elif o == "u":
            out.append(f"u{96 + (n % 26) + 1}")
        elif o == "R":
            out.append("R" + "abcdefgh"[n % 8])
        elif o == "a":
            out.append("a1")
        else:
            out.append(o)
    return out


def impl_state_trace(toks):
    from pest.state import ParserState, RuleFrame

    st = ParserState("", 0)
    cur = {"pos": 0, "u": [], "r": [], "a": 0}
    snaps: list[dict] = []
    trace, bad = [], None

    def vis():
        return (st.pos, list(st.user_stack), [f.name for f in st.rule_stack], int(st.atomic_depth))

    for i, t in enumerate(toks):
        exc = None
        try:
            if t[0] == "P":
                st.pos = int(t[1:])
            elif t[0] == "u":
                st.push(chr(int(t[1:])))
            elif t == "U":
                st.user_stack.pop()
            elif t == "C":
                st.user_stack.clear()
            elif t[0] == "R":
                st.rule_stack.push(RuleFrame(t[1:], 0))
            elif t == "Q":
                st.rule_stack.pop()
            elif t[0] == "a":
                st.atomic_depth += int(t[1:])
            elif t == "z":
                st.atomic_depth.zero()
            elif t == "k":
                st.checkpoint()
            elif t == "K":
                st.ok()
            elif t == "x":
                st.restore()
        except IndexError:
            exc = "IndexError"
        except AssertionError:
            exc = "AssertionError"
        except Exception as e:  # noqa: BLE001
            exc = type(e).__name__
        # reference: full copies
        rexc = None
        if t[0] == "P":
            cur = {**cur, "pos": int(t[1:])}
        elif t[0] == "u":
            cur = {**cur, "u": cur["u"] + [chr(int(t[1:]))]}
        elif t == "U":
            if cur["u"]:
                cur = {**cur, "u": cur["u"][:-1]}
            else:
                rexc = "IndexError"
        elif t == "C":
            cur = {**cur, "u": []}
        elif t[0] == "R":
            cur = {**cur, "r": cur["r"] + [t[1:]]}
        elif t == "Q":
            if cur["r"]:
                cur = {**cur, "r": cur["r"][:-1]}
            else:
                rexc = "IndexError"
        elif t[0] == "a":
            cur = {**cur, "a": cur["a"] + int(t[1:])}
        elif t == "z":
            cur = {**cur, "a": 0}
        elif t == "k":
            snaps = snaps + [cur]
        elif t == "K":
            if snaps:
                snaps = snaps[:-1]
            else:
                rexc = "IndexError"
        elif t == "x":
            if snaps:
                cur, snaps = snaps[-1], snaps[:-1]
            else:
                # restore without a checkpoint: stacks emptied, counter zeroed, then IndexError
                cur = {**cur, "u": [], "r": [], "a": 0}
                rexc = "IndexError"
        v = vis()
        shown = f"{v[0]}|{fmt('.'.join(str(ord(ch)) for ch in s) for s in v[1])}|{fmt(v[2])}|{v[3]}"
        if exc == "IndexError" and t in ("K", "x"):
            trace.append("IndexError:" + shown)
        elif exc:
            trace.append(exc)
        else:
            trace.append(shown)
        if bad is None and (exc != rexc or v != (cur["pos"], cur["u"], cur["r"], cur["a"])):
            bad = {"step": i, "op": t, "impl": exc or list(v), "reference": rexc or cur}
        if exc and exc != "IndexError":
            break
    return trace, bad


def _state_shard(args):
    prefix, depth = args
    use_repo()
    lines, traces, bads = [], [], []
    for rest in itertools.product(STATE_OPS, repeat=depth - len(prefix)):
        toks = concretize_state(prefix + rest)
        tr, bad = impl_state_trace(toks)
        lines.append("PS " + " ".join(toks))
        traces.append(" ".join(tr))
        if bad and len(bads) < 5:
            bads.append((toks, bad))
    outs = run_driver(lines, shards=1)
    mism = [(ln, a, b) for ln, a, b in zip(lines, traces, outs) if a != b][:5]
    nontrivial = sum(1 for ln in lines if (" k" in ln and (" x" in ln or " K" in ln)))
    return len(lines), nontrivial, bads, mism, sum(1 for a, b in zip(traces, outs) if a != b)


def random_state_hist(rng: random.Random, n: int) -> list[str]:
    w = rng.choice([(2, 3, 3, 1, 2, 2, 2, 1, 4, 2, 3), (1, 4, 4, 1, 1, 1, 1, 1, 3, 3, 2)])
    return concretize_state(rng.choices(STATE_OPS, weights=w, k=n))


# ---------------------------------------------------------------- shrinking

def shrink(toks, fails):
    """greedy delta-debugging on the op list"""
    cur = list(toks)
    changed = True
    while changed:
        changed = False
        for i in range(len(cur)):
            cand = cur[:i] + cur[i + 1 :]
            if cand and fails(cand):
                cur = cand
                changed = True
                break
    return cur


# ---------------------------------------------------------------- main

def replay(out: Outcome, payload: dict) -> None:
    use_repo()
    kind, toks = payload["kind"], payload["history"]
    f = {"stack": impl_stack_trace, "int": impl_int_trace, "state": impl_state_trace}[kind]
    _, bad = f(toks)
    out.coverage = {"explanation": "replay of one history", "evaluations": 1, "distinct_nontrivial": 2,
                    "samples": [toks]}
    if bad:
        out.violation({**payload, "observed": bad})


def run(out: Outcome) -> None:
    use_repo()
    rng = random.Random(seed() * 7919 + 9)
    thorough = out.tier == "thorough"
    info = proof_stage(out, "C09", THEOREMS)
    if not info.get("driver_ok"):
        out.infra_error = "Lean driver does not build: " + "; ".join(info.get("broken", []))[:400]
        return

    concrete: list[dict] = []      # impl differs from the full-copy reference: failing history
    corr: list[dict] = []          # impl differs from the Lean model
    evals = nontriv = 0
    samples = []

    # 1. exhaustive stack histories
    sdepth = 9 if thorough else 7
    pre = 2
    with mp.Pool(NCPU) as pool:
        jobs = [(p, sdepth) for p in itertools.product(STACK_OPS, repeat=pre)]
        for n, nt, bads, mism, nm in pool.imap_unordered(_stack_shard, jobs):
            evals += n
            nontriv += nt
            for toks, bad in bads:
                concrete.append({"kind": "stack", "history": toks, "observed": bad})
            for ln, a, b in mism:
                corr.append({"kind": "stack", "request": ln, "impl": a, "model": b})
        n_stack_exh = evals
        # 2. exhaustive ParserState histories
        pdepth = 6 if thorough else 5
        jobs = [(p, pdepth) for p in itertools.product(STATE_OPS, repeat=1 if not thorough else 2)]
        for n, nt, bads, mism, nm in pool.imap_unordered(_state_shard, jobs):
            evals += n
            nontriv += nt
            for toks, bad in bads:
                concrete.append({"kind": "state", "history": toks, "observed": bad})
            for ln, a, b in mism:
                corr.append({"kind": "state", "request": ln, "impl": a, "model": b})
    n_state_exh = evals - n_stack_exh

    # 3. random long histories (stack, state, int)
    nrand = 60000 if thorough else 6000
    lines, traces = [], []
    for i in range(nrand):
        k = i % 3
        n = rng.randint(10, 200 if thorough else 80)
        if k == 0:
            toks = random_stack_hist(rng, n)
            tr, bad = impl_stack_trace(toks)
            kind, cmd = "stack", "S"
        elif k == 1:
            toks = random_state_hist(rng, n)
            tr, bad = impl_state_trace(toks)
            kind, cmd = "state", "PS"
        else:
            toks = rng.choices(INT_OPS, k=n)
            tr, bad = impl_int_trace(toks)
            kind, cmd = "int", "I"
        if bad:
            concrete.append({"kind": kind, "history": toks, "observed": bad})
        lines.append(cmd + " " + " ".join(toks))
        traces.append(" ".join(tr))
        if i < 3:
            samples.append({"request": lines[-1], "impl": traces[-1][:300]})
    outs = run_driver(lines)
    for ln, a, b in zip(lines, traces, outs):
        if a != b:
            corr.append({"kind": "random", "request": ln, "impl": a, "model": b})
    evals += nrand
    nontriv += nrand

    # exhaustive int histories (small)
    idepth = 7 if thorough else 6
    lines, traces = [], []
    for seq in itertools.product(INT_OPS, repeat=idepth):
        tr, bad = impl_int_trace(list(seq))
        if bad:
            concrete.append({"kind": "int", "history": list(seq), "observed": bad})
        lines.append("I " + " ".join(seq))
        traces.append(" ".join(tr))
    outs = run_driver(lines)
    for ln, a, b in zip(lines, traces, outs):
        if a != b:
            corr.append({"kind": "int", "request": ln, "impl": a, "model": b})
    evals += len(lines)
    nontriv += sum(1 for ln in lines if " s" in ln and (" r" in ln or " d" in ln))

    # ---- verdict (DESIGN §5)
    fns = {"stack": impl_stack_trace, "int": impl_int_trace, "state": impl_state_trace}
    seen = set()
    for c in concrete[:50]:
        f = fns[c["kind"]]
        small = shrink(c["history"], lambda t: f(t)[1] is not None)
        key = (c["kind"], tuple(small))
        if key in seen:
            continue
        seen.add(key)
        _, bad = f(small)
        out.violation({"kind": c["kind"], "history": small, "observed": bad, "shrunk_from": c["history"],
                       "seed": seed(), "command": f"./check C09 --replay <this file>",
                       "what": "implementation differs from the full-copy reference"})
        if len(seen) >= 3:
            break
    if not concrete:
        if corr:
            out.unproved({"broken": "correspondence " + corr[0]["request"], "model_answer": corr[0]["model"],
                          "code_answer": corr[0]["impl"], "more": corr[1:5],
                          "searched": {"cases": evals, "note": "implementation agreed with the full-copy reference on all of them"}})
        elif info["broken"]:
            out.unproved({"broken": "theorem " + "; ".join(info["broken"])[:1500],
                          "searched": {"cases": evals, "note": "implementation agreed with the full-copy reference and with the model"}})

    out.coverage = {
        **proof_coverage(info, "C09"),
        "evaluations": evals,
        "distinct_nontrivial": nontriv,
        "rule": f"every op sequence of length {sdepth} over push(fresh)/pop/clear/snapshot/restore/drop on Stack "
                f"({n_stack_exh} sequences, all prefixes compared step by step); every sequence of length {pdepth} over the 11 "
                f"ParserState operations ({n_state_exh}); every length-{idepth} SnapshottingInt history; {nrand} seeded random "
                "histories of length 10..200.  Non-trivial = contains a snapshot/checkpoint followed by a restore or drop.",
        "exhaustive": True,
        "samples": samples,
        "correspondence_mismatches": len(corr),
        "reference_mismatches": len(concrete),
    }
    out.assumptions = [
        "visible behaviour only: list(stack), len, peek, empty, raised exception type; ParserState: pos, user stack, rule stack names, atomic depth",
        "pop on an empty stack raises IndexError and leaves the object unchanged (modelled as such)",
    ]
