/-
  Driver.lean — line protocol between the Python harness and the executable Lean model.
  One request per line on stdin, one canonical answer per line on stdout.
  See harness/README.md (and DESIGN.md §4.2) for the request grammar.
-/
import PestModel.Stack
import PestModel.State
import PestModel.Drv.Core
import PestModel.Drv.Text
import PestModel.Drv.Pratt
import PestModel.Drv.World
import PestModel.Drv.CharSet
import PestModel.Drv.Pairs
import PestModel.Drv.Hyps
import PestModel.Drv.Front
import PestModel.Drv.Examples

open Pest

namespace Drv

def showList (xs : List String) : String := "[" ++ ",".intercalate xs ++ "]"
def showNats (xs : List Nat) : String := showList (xs.map toString)
def showStr (s : Str) : String := ".".intercalate (s.map toString)

/-! ### S — stack histories -/

def parseStackOp (t : String) : Option (StackOp Nat) :=
  if t.startsWith "p" then (t.drop 1).toNat?.map .push
  else match t with
    | "o" => some .pop | "c" => some .clear | "s" => some .snapshot
    | "r" => some .restore | "d" => some .dropSnap
    | _ => none

/-- after each op: `list(stack)` bottom first, or the exception Python raises.  The asserts
    of `Stack.restore` are evaluated on the state *before* the op, like Python does. -/
def stackStep (d : DStack Nat) (op : StackOp Nat) : DStack Nat × String :=
  match op with
  | .pop =>
    match d.pop with
    | none => (d, "IndexError")
    | some (_, d') => (d', showNats d'.items.reverse)
  | .restore =>
    if d.restoreAsserts then let d' := d.restore; (d', showNats d'.items.reverse)
    else (d.restore, "AssertionError")
  | .dropSnap =>
    if d.dropAsserts then let d' := d.dropSnap; (d', showNats d'.items.reverse)
    else (d.dropSnap, "NegativeSlice")
  | op => let d' := d.apply op; (d', showNats d'.items.reverse)

def runStack (toks : List String) : String :=
  let rec go (d : DStack Nat) (acc : List String) : List String → List String
    | [] => acc.reverse
    | t :: ts =>
      match parseStackOp t with
      | none => (("bad-op:" ++ t) :: acc).reverse
      | some op => let (d', out) := stackStep d op; go d' (out :: acc) ts
  " ".intercalate (go .empty [] toks)

/-! ### I — SnapshottingInt histories -/

def parseIntOp (t : String) : Option IntOp :=
  if t.startsWith "a" then (t.drop 1).toInt?.map .add
  else match t with
    | "z" => some .zero | "s" => some .snapshot | "r" => some .restore | "d" => some .drop
    | _ => none

def runInt (toks : List String) : String :=
  let rec go (s : SnapInt) (acc : List String) : List String → List String
    | [] => acc.reverse
    | t :: ts =>
      match parseIntOp t with
      | none => (("bad-op:" ++ t) :: acc).reverse
      | some op => let s' := s.apply op; go s' (toString s'.val :: acc) ts
  " ".intercalate (go .zero0 [] toks)

/-! ### PS — ParserState checkpoint histories -/

def parseStateOp (t : String) : Option StateOp :=
  if t.startsWith "P" then (t.drop 1).toNat?.map .setPos
  else if t.startsWith "u" then (t.drop 1).toNat?.map (fun n => .upush [n])
  else if t.startsWith "R" then some (.rpush (t.drop 1).toString)
  else if t.startsWith "a" then (t.drop 1).toInt?.map .aadd
  else match t with
    | "U" => some .upop | "C" => some .uclear | "Q" => some .rpop | "z" => some .azero
    | "k" => some .checkpoint | "K" => some .ok | "x" => some .restore
    | _ => none

def showPState (c : PState) : String :=
  s!"{c.pos}|{showList (c.ustack.items.reverse.map showStr)}|{showList c.rstack.items.reverse}|{c.adepth.val}"

def stateStep (c : PState) (op : StateOp) : PState × String :=
  match op with
  | .upop => match c.ustack.pop with
    | none => (c, "IndexError")
    | some _ => let c' := c.applyOp op; (c', showPState c')
  | .rpop => match c.rstack.pop with
    | none => (c, "IndexError")
    | some _ => let c' := c.applyOp op; (c', showPState c')
  | .ok =>
    let c' := c.applyOp op
    (c', (if c.okRaises then "IndexError:" else "") ++ showPState c')
  | .restore =>
    let c' := c.applyOp op
    if !(c.ustack.restoreAsserts && c.rstack.restoreAsserts) then (c', "AssertionError")
    else (c', (if c.restoreRaises then "IndexError:" else "") ++ showPState c')
  | op => let c' := c.applyOp op; (c', showPState c')

def runState (toks : List String) : String :=
  let rec go (c : PState) (acc : List String) : List String → List String
    | [] => acc.reverse
    | t :: ts =>
      match parseStateOp t with
      | none => (("bad-op:" ++ t) :: acc).reverse
      | some op => let (c', out) := stateStep c op; go c' (out :: acc) ts
  " ".intercalate (go (.init 0) [] toks)

def handle (sess : Session) (line : String) : Session × String :=
  let toks := (line.splitOn " ").filter (· ≠ "")
  match toks with
  | "S" :: toks => (sess, runStack toks)
  | "I" :: toks => (sess, runInt toks)
  | "PS" :: toks => (sess, runState toks)
  | [] => (sess, "")
  | cmd :: _ =>
    match handleCore sess toks with
    | some r => r
    | none =>
      match (handlePairs sess toks <|> handleHyps sess toks <|> handleText toks <|> handlePratt toks <|> handleWorld toks
              <|> handleCharSet toks <|> handleFront toks <|> handleExamples toks) with
      | some r => (sess, r)
      | none => (sess, "bad-request:" ++ cmd)

end Drv

partial def loop (hin hout : IO.FS.Stream) (sess : Drv.Session) : IO Unit := do
  let line ← hin.getLine
  if line.isEmpty then return ()
  let l := if line.endsWith "\n" then (line.dropEnd 1).toString else line
  let (sess', out) := Drv.handle sess l
  hout.putStrLn out
  loop hin hout sess'

def main : IO Unit := do
  let hin ← IO.getStdin
  let hout ← IO.getStdout
  loop hin hout {}
  hout.flush
