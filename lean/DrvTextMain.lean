import DrvText

partial def loopT (hin hout : IO.FS.Stream) : IO Unit := do
  let line ← hin.getLine
  if line.isEmpty then return ()
  let l := if line.endsWith "\n" then (line.dropEnd 1).toString else line
  let toks := (l.splitOn " ").filter (· ≠ "")
  hout.putStrLn ((Drv.handleText toks).getD ("bad-request:" ++ l))
  loopT hin hout

def main : IO Unit := do
  let hin ← IO.getStdin
  let hout ← IO.getStdout
  loopT hin hout
  hout.flush
