import DrvPratt
/-! scratch main for DrvPratt (the real entry point is Driver.lean) -/
partial def loop (hin hout : IO.FS.Stream) : IO Unit := do
  let line ← hin.getLine
  if line.isEmpty then return ()
  let l := if line.endsWith "\n" then (line.dropEnd 1).toString else line
  match Drv.handlePratt ((l.splitOn " ").filter (· ≠ "")) with
  | some r => hout.putStrLn r
  | none => hout.putStrLn "bad-request"
  loop hin hout

def main : IO Unit := do
  let hin ← IO.getStdin
  let hout ← IO.getStdout
  loop hin hout
  hout.flush
