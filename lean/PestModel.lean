import PestModel.Stack
import PestModel.State
import PestModel.Lemmas.Stack
import PestModel.Lemmas.State
import PestModel.Props.C09
