/-
  LineCol.lean — model of the text utilities of src/pest/pairs.py
  (`Position.line_col`, `Position.line_of`, `Span.lines`, `Span.__str__`) and of
  `error_context` in src/pest/exceptions.py, plus the specification they are compared to.

  A text is a list of code points.  `str.splitlines` is modelled with CPython's full set of
  line boundaries (\n \r \r\n \x0b \x0c \x1c \x1d \x1e \x85 U+2028 U+2029).  Every Python
  subscript is explicit: a function returns `none` exactly where Python would raise
  `IndexError`.  Python ints that can be negative (`index`, the column) are `Int`.

  The model mirrors the code *after* the three `fix:` commits of C14/C13
  (line_col at the end of an unterminated text, line_of, error_context after a trailing
  line break); each `def` quotes the statements it stands for.
-/
namespace Pest
namespace LineCol

abbrev Text := List Nat

/-! ### `str.splitlines` -/

/-- the code points at which `str.splitlines` ends a line -/
def isBreak (c : Nat) : Bool :=
  c == 10 || c == 11 || c == 12 || c == 13 || c == 28 || c == 29 || c == 30 ||
  c == 133 || c == 8232 || c == 8233

/-- `(body, terminator)` of every line.  The flag says that the current character is the
    `\n` of a `\r\n` whose line has already been emitted.  A non-boundary character joins
    the first line of what follows. -/
def splitRaw : Text → Bool → List (Text × Text)
  | [], _ => []
  | _ :: rest, true => splitRaw rest false
  | c :: rest, false =>
    if isBreak c then
      if c = 13 ∧ rest.head? = some 10 then ([], [13, 10]) :: splitRaw rest true
      else ([], [c]) :: splitRaw rest false
    else
      match splitRaw rest false with
      | [] => [([c], [])]
      | (b, e) :: more => (c :: b, e) :: more

/-- `text.splitlines(keepends)` -/
def splitlines (keepends : Bool) (t : Text) : List Text :=
  (splitRaw t false).map (fun be => if keepends then be.1 ++ be.2 else be.1)

/-! ### the shared loop

```python
cumulative_length = 0
for i, line in enumerate(lines):
    cumulative_length += len(line)
    if pos < cumulative_length:
        target_line_index = i
        break
```
`findLine pos lines i cum` = (the `i` at `break`, or `none` when the loop ran to its end;
`cumulative_length` on exit). -/
def findLine (pos : Int) : List Text → Nat → Nat → Option Nat × Nat
  | [], _, cum => (none, cum)
  | l :: ls, i, cum =>
    if pos < ((cum + l.length : Nat) : Int) then (some i, cum + l.length)
    else findLine pos ls (i + 1) (cum + l.length)

/-- `not lines or lines[-1] != text.splitlines()[-1]`: the text is empty or ends with a line
    boundary.  `none` = one of the two `[-1]` raises. -/
def endsOnNewLine (t : Text) (lines : List Text) : Option Bool :=
  if lines.isEmpty then some true
  else do
    let a ← lines.getLast?
    let b ← (splitlines false t).getLast?
    pure (a != b)

/-! ### `Position.line_col` -/

/-- ```python
lines = self.text.splitlines(keepends=True)
<loop, target_line_index = -1 initially>
if target_line_index == -1:
    if not lines or lines[-1] != self.text.splitlines()[-1]:
        return len(lines) + 1, 1
    target_line_index = len(lines) - 1
line_number = target_line_index + 1
column_number = self.pos - (cumulative_length - len(lines[target_line_index])) + 1
return line_number, column_number
``` -/
def pyLineCol (t : Text) (pos : Nat) : Option (Nat × Int) :=
  let lines := splitlines true t
  let (found, cum) := findLine pos lines 0 0
  let finish (target : Nat) : Option (Nat × Int) := do
    let l ← lines[target]?
    pure (target + 1, (pos : Int) - ((cum : Int) - (l.length : Int)) + 1)
  match found with
  | some i => finish i
  | none => do
    if (← endsOnNewLine t lines) then pure (lines.length + 1, 1)
    else finish (lines.length - 1)      -- reached only with `lines ≠ []`

/-! ### `Position.line_of` -/

/-- ```python
lines = self.text.splitlines(keepends=True)
line_number, _ = self.line_col()
if line_number > len(lines):
    return ""
return lines[line_number - 1]
```
(`line_number ≥ 1` by construction of `pyLineCol`, so `line_number - 1` is never negative) -/
def pyLineOf (t : Text) (pos : Nat) : Option Text := do
  let lines := splitlines true t
  let (lineNumber, _) ← pyLineCol t pos
  if lineNumber > lines.length then pure []
  else lines[lineNumber - 1]?

/-! ### `Span` -/

/-- `Span.__str__`: `self.text[self.start : self.end]` for `0 ≤ start`, `0 ≤ end` -/
def pySpanStr (t : Text) (a b : Nat) : Text := (t.take b).drop a

/-- ```python
lines = self.text.splitlines(keepends=True)
start_line_number, _ = self.start_pos().line_col()
end_line_number, _ = self.end_pos().line_col()
return lines[start_line_number - 1 : end_line_number]
```
(both slice bounds are non-negative because line numbers are `≥ 1`) -/
def pySpanLines (t : Text) (a b : Nat) : Option (List Text) := do
  let lines := splitlines true t
  let (s, _) ← pyLineCol t a
  let (e, _) ← pyLineCol t b
  pure ((lines.take e).drop (s - 1))

/-- `Pair.line_col` = `self.span().start_pos().line_col()` -/
def pyPairLineCol (t : Text) (a _b : Nat) : Option (Nat × Int) := pyLineCol t a

/-! ### `error_context` -/

/-- `str.isspace` code points (what `str.rstrip()` removes) -/
def isSpace (c : Nat) : Bool :=
  (9 ≤ c && c ≤ 13) || (28 ≤ c && c ≤ 32) || c == 133 || c == 160 || c == 5760 ||
  (8192 ≤ c && c ≤ 8202) || c == 8232 || c == 8233 || c == 8239 || c == 8287 || c == 12288

/-- `str.rstrip()` -/
def rstrip (l : Text) : Text := (l.reverse.dropWhile isSpace).reverse

/-- ```python
lines = text.splitlines(keepends=True)
if not lines or lines[-1] != text.splitlines()[-1]:
    lines.append("")
cumulative_length = 0
target_line_index = len(lines) - 1
<loop>
line_number = target_line_index + 1
column_number = index - (cumulative_length - len(lines[target_line_index])) + 1
current_line = lines[target_line_index].rstrip()
return (current_line, line_number, column_number)
```
`len(lines) - 1` is computed in `Nat`: for an empty `lines` Python's `lines[-1]` and the
model's `lines[0]?` both fail. -/
def errorContext (t : Text) (index : Int) : Option (Text × Nat × Int) := do
  let lines0 := splitlines true t
  let lines := if (← endsOnNewLine t lines0) then lines0 ++ [[]] else lines0
  let (found, cum) := findLine index lines 0 0
  let target := found.getD (lines.length - 1)
  let l ← lines[target]?
  pure (rstrip l, target + 1, index - ((cum : Int) - (l.length : Int)) + 1)

/-! ### Specification (property C14, for texts whose only line boundary is `\n`) -/

/-- no line boundary other than `\n` occurs -/
def OnlyLF (t : Text) : Prop := ∀ c ∈ t, isBreak c = true → c = 10

instance (t : Text) : Decidable (OnlyLF t) := by unfold OnlyLF; infer_instance

/-- number of line breaks before offset `p` -/
def lineIdx (t : Text) (p : Nat) : Nat := (t.take p).count 10

/-- distance of `p` from the last line break before it (from the start of the text if there
    is none): the length of the longest `\n`-free suffix of `t[:p]`;
    Python: `p - (t.rfind("\n", 0, p) + 1)` -/
def colOff (t : Text) (p : Nat) : Nat := ((t.take p).reverse.takeWhile (· != 10)).length

/-- **the property's formula**: (1 + number of line breaks before p, 1 + distance from the
    last line break) -/
def specLineCol (t : Text) (p : Nat) : Nat × Nat := (1 + lineIdx t p, 1 + colOff t p)

/-- a text up to and including its first `\n` (all of it if there is none) -/
def takeLine : Text → Text
  | [] => []
  | c :: rest => if c = 10 then [10] else c :: takeLine rest

/-- the line containing offset `p`: from just after the last line break before `p` through
    the next line break (inclusive) or the end of the text -/
def specLineOf (t : Text) (p : Nat) : Text := takeLine (t.drop (p - colOff t p))

/-- the lines of a text: maximal pieces ending with `\n`, and the unterminated rest if it
    is not empty (no empty line after a trailing `\n`) -/
def specLines : Text → List Text
  | [] => []
  | c :: rest =>
    if c = 10 then [10] :: specLines rest
    else match specLines rest with
      | [] => [[c]]
      | l :: more => (c :: l) :: more

end LineCol
end Pest
