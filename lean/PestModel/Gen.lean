/-
  Gen.lean — LG: a denotational reading of the code the generator emits.

  For every `generate()` template of src/pest/grammar/expressions/*.py, `Rule.generate`,
  `BuiltInRule.generate` (src/pest/grammar/rule.py) and `generate_parse_trivia` /
  `generate_parse_entry_point` (src/pest/grammar/codegen/generate.py) there is a Lean
  function with the control flow of the emitted Python.

  Threading.  The emitted code passes the *name* of a list (`pairs_var`) down to the child
  templates, which append to it — also before failing.  Here the current content of that
  list is the argument `ps`, threaded linearly, so the caller sees the callee's appends
  (garbage included) exactly as with the aliased Python list.  Every template assigns its
  `matched_var` on every path before anybody reads it (checked template by template; the
  correspondence run would show an `UnboundLocalError` otherwise), so the flag is a plain
  result here.
-/
import PestModel.Interp

namespace Pest

inductive RG where
  | done (matched : Bool) (c : PState) (ps : List Pair)
  | oof
  | exc (k : PyExc)
deriving Repr, Inhabited

abbrev SemG := Expr → PState → List Pair → RG

namespace LG

variable (g : Grammar) (inp : Input)

/-- `matched = False; state.fail(label)` -/
def failT (c : PState) (ps : List Pair) : RG :=
  match c.fail none false with
  | some c' => .done false c' ps
  | none => .exc .indexError

/-- the tail of the closure `parse_<name>`: leave the `with` block, pop the rule stack, then
    (silent) `if matched: pairs.extend(children)` or (non-silent) `if matched:` pop the tag and
    append the pair; `return matched` -/
def ruleExitG (name : String) (mod : Nat) (start : Nat) (matched : Bool) (c2 : PState)
    (children : List Pair) (ps : List Pair) : RG :=
  let c3 := if L1.ruleScoped name mod then { c2 with adepth := c2.adepth.restore } else c2
  match c3.rstack.pop with
  | none => .exc .indexError
  | some (_, rs) =>
    let c4 := { c3 with rstack := rs }
    if !matched then .done false c4 ps
    else if hasBit mod SILENT then .done true c4 (ps ++ children)
    else
      let (tag, c5) : Option String × PState :=
        match c4.tagStack with
        | [] => (none, c4)
        | t :: ts => (some t, { c4 with tagStack := ts })
      let children := if hasBit mod ATOMIC then visibleList children else children
      .done true c5 (ps ++ [.mk name mod start c5.pos children tag])

/-- the closure `parse_<name>` built by `generate_rule` + `Rule.generate`; the body appends to
    a fresh local list `children` -/
def ruleG (rec : SemG) (name : String) (mod : Nat) (body : Expr) (c : PState) (ps : List Pair) : RG :=
  match rec body (L1.ruleEnter name mod { c with rstack := c.rstack.push name }) [] with
  | .done matched c2 children => ruleExitG name mod c.pos matched c2 children ps
  | r => r

/-- `parse_<name>(state, pairs)`: only grammar rules and EOI have a generated function -/
def callRuleG (rec : SemG) (name : String) (c : PState) (ps : List Pair) : RG :=
  match g.lookup name with
  | none => .exc .nameError
  | some r =>
    if r.kind == .builtin && r.name != "EOI" then .exc .nameError
    else ruleG rec r.name r.mod r.body c ps

def withTagG (tag : Option String) (c : PState) (body : PState → RG) : RG :=
  match tag with
  | none => body c
  | some t =>
    match body { c with tagStack := t :: c.tagStack } with
    | .done m c' ps => .done m { c' with tagStack := c'.tagStack.tail } ps
    | r => r

/-! #### generated parse_trivia -/

/-- one guarded attempt of the generated `parse_trivia`; the rule function appends to the
    caller's list directly -/
inductive TryG where
  | matched (c : PState) (ps : List Pair)
  | no (c : PState) (ps : List Pair)
  | stop (r : RG)

def tryTriviaG (rec : SemG) (on : Bool) (name : String) (c : PState) (ps : List Pair) : TryG :=
  if !on then .no c ps
  else
    match callRuleG g rec name c.checkpoint ps with
    | .done true c' ps' => .matched c'.ok ps'
    | .done false c' ps' => .no c'.restore ps'
    | r => .stop r

def triviaLoopG (rec : SemG) (hasWs hasCm : Bool) : Nat → PState → List Pair → RG
  | 0, _, _ => .oof
  | k + 1, c, ps =>
    match tryTriviaG g rec hasWs "WHITESPACE" c ps with
    | .matched c' ps' => triviaLoopG rec hasWs hasCm k c' ps'                 -- `continue`
    | .stop r => r
    | .no c1 ps1 =>
      match tryTriviaG g rec hasCm "COMMENT" c1 ps1 with
      | .matched c' ps' => triviaLoopG rec hasWs hasCm k c' ps'
      | .stop r => r
      | .no c2 ps2 => .done true c2 ps2                                       -- `break`

/-- the module-level `parse_trivia(state, pairs)` emitted by `generate_parse_trivia` -/
def parseTriviaG (rec : SemG) (k : Nat) (c : PState) (ps : List Pair) : RG :=
  let hasSkip := g.fusedSkip.isSome
  let hasWs := g.defines "WHITESPACE"
  let hasCm := g.defines "COMMENT"
  if !(hasSkip || hasWs || hasCm) then .done true c ps
  else if c.adepth.val > 0 then .done true c ps
  else if hasSkip then callRuleG g rec "SKIP" c ps
  else
    match triviaLoopG g rec hasWs hasCm k { c with suppress := true } ps with
    | .done m c' ps' => .done m { c' with suppress := false } ps'
    | r => r

/-! #### Sequence / Choice / Repeat templates -/

/-- `<Sequence>`: the `if all_ok:` chain.  Once a child fails nothing else runs. -/
def seqG (rec : SemG) (k : Nat) : List Expr → PState → List Pair → RG
  | [], c, ps => .done true c ps
  | e :: rest, c, ps =>
    match rec e c ps with
    | .done true c1 ps1 =>
      if rest.isEmpty then .done true c1 ps1
      else
        match parseTriviaG g rec k c1 ps1 with
        | .done _ c2 ps2 => seqG rec k rest c2 ps2
        | r => r
    | .done false c1 ps1 => .done false c1 ps1
    | r => r

/-- `<Choice>`: `tmp` is shared by the branches and cleared after a failed one -/
def choiceG (rec : SemG) : List Expr → PState → List Pair → RG
  | [], c, ps => .done false c ps
  | e :: rest, c, ps =>
    match rec e c.checkpoint [] with
    | .done true c1 tmp => .done true c1.ok (ps ++ tmp)
    | .done false c1 _ => choiceG rec rest c1.restore ps
    | r => r

/-- `<Repeat>`: `tmp` is cleared after each committed item; after the failed last attempt
    its garbage is simply dropped -/
def repLoopG (rec : SemG) (e : Expr) : Nat → Nat → Bool → PState → List Pair → RG
  | 0, _, _, _, _ => .oof
  | k + 1, kk, first, c, ps =>
    let c0 := c.checkpoint
    let afterTrivia : RG :=
      if first then .done true c0 [] else parseTriviaG g rec kk c0 []
    match afterTrivia with
    | .done _ c1 tmp =>
      match rec e c1 tmp with
      | .done true c2 tmp' => repLoopG rec e k kk false c2.ok (ps ++ tmp')
      | .done false c2 _ => .done true c2.restore ps
      | r => r
    | r => r

/-- the `for peeked in …` loops of the stack templates: local `pos`, first mismatch breaks -/
def matchAllG : List Str → Nat → Option Nat := L1.matchAll inp

def step (k : Nat) (rec : SemG) : SemG
  | .str s, c, ps =>
    if startsWithAt inp s c.pos then .done true { c with pos := c.pos + s.length } ps else failT c ps
  | .ci s, c, ps =>
    if startsWithAtCI inp s c.pos then .done true { c with pos := c.pos + s.length } ps else failT c ps
  | .range a b, c, ps =>
    match inp[c.pos]? with
    | some x => if L1.inRange a b x then .done true { c with pos := c.pos + 1 } ps else failT c ps
    | none => failT c ps
  | .ident name tag, c, ps => withTagG tag c (fun c => callRuleG g rec name c ps)
  | .rule name mod _ body, c, ps =>
    -- `BuiltInRule.generate` inlines the body: no frame, no pair, no change of atomicity.  That is
    -- what the interpreter does only for silent, non-atomic built-ins — which all built-in rule
    -- objects other than EOI are (ANY, SOI, ASCII_*, NEWLINE, the Unicode rules); an embedded EOI
    -- would emit a nested `def inner`.  Trees the front end cannot build are outside the model.
    if name == "EOI" || !hasBit mod SILENT || L1.ruleScoped name mod then .exc .other
    else rec body c ps
  | .seq es, c, ps => seqG g rec k es c ps
  | .choice es, c, ps => choiceG rec es c ps
  | .opt e, c, ps =>
    match rec e c.checkpoint [] with
    | .done true c1 tmp => .done true c1.ok (ps ++ tmp)
    | .done false c1 _ => .done true c1.restore ps
    | r => r
  | .rep e, c, ps => repLoopG g rec e k k true c ps
  | .rep1 e, c, ps => seqG g rec k [e, .rep e] c ps
  | .repExact e n, c, ps => seqG g rec k (List.replicate n e) c ps
  | .repMin e n, c, ps => seqG g rec k (List.replicate n e ++ [.rep e]) c ps
  | .repMax e n, c, ps => seqG g rec k (List.replicate n (.opt e)) c ps
  | .repMinMax e m n, c, ps =>
    seqG g rec k (List.replicate m e ++ List.replicate (n - m) (.opt e)) c ps
  | .andP e, c, ps =>
    match rec e c.checkpoint [] with
    | .done m c1 _ => .done m c1.restore ps
    | r => r
  | .notP e, c, ps =>
    let c0 := c.checkpoint
    match rec e { c0 with negDepth := c0.negDepth + 1 } [] with
    | .done matched c1 _ =>
      let c2 := c1.restore
      if matched then
        match c2.fail (L1.failedName e) true with
        | some c3 => .done false { c3 with negDepth := c3.negDepth - 1 } ps
        | none => .exc .indexError
      else .done true { c2 with negDepth := c2.negDepth - 1 } ps
    | r => r
  | .group e tag, c, ps => withTagG tag c (fun c => rec e c ps)
  | .push e, c, ps =>
    match rec e c ps with
    | .done true c1 ps1 =>
      .done true { c1 with ustack := c1.ustack.push (slice inp c.pos c1.pos) } ps1
    | r => r
  | .pushLit s, c, ps => .done true { c with ustack := c.ustack.push s } ps
  | .peekSlice a b, c, ps =>
    match matchAllG inp (pySlice c.ustack.items.reverse a b) c.pos with
    | some p => .done true { c with pos := p } ps
    | none => failT c ps
  | .peek, c, ps =>
    match c.ustack.peek with
    | none => .done false c ps
    | some v =>
      if startsWithAt inp v c.pos then .done true { c with pos := c.pos + v.length } ps
      else failT c ps
  | .peekAll, c, ps =>
    match matchAllG inp c.ustack.items c.pos with
    | some p => .done true { c with pos := p } ps
    | none => failT c ps
  | .pop, c, ps =>
    match c.ustack.peek with
    | none => .done false c ps
    | some v =>
      if startsWithAt inp v c.pos then
        match c.ustack.pop with
        | some (_, us) => .done true { c with ustack := us, pos := c.pos + v.length } ps
        | none => .exc .indexError
      else failT c ps
  | .popAll, c, ps =>
    match matchAllG inp c.ustack.items c.pos with
    | some p => .done true { c with ustack := c.ustack.clear, pos := p } ps
    | none => failT c ps
  | .drop, c, ps =>
    match c.ustack.pop with
    | some (_, us) => .done true { c with ustack := us } ps
    | none => failT c ps
  | .anyB, c, ps =>
    if c.pos < inp.size then .done true { c with pos := c.pos + 1 } ps else .done false c ps
  | .soiB, c, ps => .done (c.pos == 0) c ps
  | .eoiB, c, ps => .done (c.pos == inp.size) c ps
  | .uprop n, c, ps =>
    match inp[c.pos]? with
    | some x => if g.uprop n x then .done true { c with pos := c.pos + 1 } ps else .done false c ps
    | none => .done false c ps
  | .skipUntil subs, c, ps => .done true { c with pos := L1.skipUntilPos inp subs c.pos } ps
  | .optChoice alts star, c, ps =>
    match L1.optMatch g inp alts star c.pos with
    | some p => .done true { c with pos := p } ps
    | none => .done false c ps

def run : Nat → SemG
  | 0 => fun _ _ _ => .oof
  | n + 1 => step g inp n (run n)

/-- the generated module's `parse(start_rule, text, start_pos=k)`:
    `_RULE_MAP[start_rule](state, pairs)` -/
def parse (fuel : Nat) (start : String) (startPos : Nat) : RG :=
  match g.lookup start with
  | none => .exc .keyError
  | some r =>
    if r.kind == .builtin && r.name != "EOI" then .exc .keyError
    else ruleG (run g inp fuel) r.name r.mod r.body (.init startPos) []

end LG
end Pest
