/-
  Calc.lean — the three bundled calculator implementations (examples/calculator) over one
  token list, the documented precedence table, and an independent reference (property C17,
  second half).

  Tokens.  All three implementations see the same sequence of lexical items; the pest
  grammars only package it differently (calculator.pest: a flat list of pairs under `expr`,
  a parenthesised sub-expression being a nested `expr` pair; grammar_encoded_prec.pest: pairs
  nested by precedence level).  `Tok` is that item: `int`, `var` (rule `ident`), the five
  infix operators, `neg` (a `-` where an operand is expected), `fac`, and `paren ts` — a
  parenthesised sub-expression with its own token list.  That the real grammars turn a text
  into these items is checked by the harness on every run (it renders token lists to text
  with arbitrary spacing and compares the real implementations' ASTs with the answers of
  this model).

  Two stages.  Each implementation is modelled as  `tree : List Tok → Option (Tree Tok)`
  (its control flow, with the AST constructors abstracted to the constructors of
  `Pratt.Tree` — the same abstraction as in C18, where the four hooks are the four
  constructors) followed by the shared `build`, which maps `leaf (int n)` to `IntExpr`,
  `pre neg` to `PrefixExpr(neg, ·)` … and resolves `leaf (paren ts)` by running the *same
  implementation* on `ts` (`parse_primary` on an `expr` pair calls the implementation's own
  entry point on the inner pairs in all three files).  Constructing nodes has no effect other
  than the node, so building them during or after the walk is the same function.

    (a) `climbTree`   — examples/calculator/prec_climber.py  `parse_expr` (the repaired loop;
                        `Stream.next` / `Stream.backup` on the list of remaining pairs)
    (b) `prattTree`   — examples/calculator/pratt.py = `Pest.Pratt.parseExpr` (the model of
                        src/pest/pratt.py proved correct in C18) with the regenerated table
    (c) `encodedTree` — grammar_encoded_prec.pest read as a PEG over tokens (`nest`, yielding
                        the pairs `EP`), then the walk of grammar_encoded_prec.py (`w…`)
    (d) `refTree`     — the tree the *documented* table demands: enumerate every tree over
                        the tokens and keep the one that is `Good` for `docTable`
                        (`Pratt.reference`, no parsing algorithm involved)

  Values.  `evaluate` is a function of the AST alone in examples/calculator/_ast.py (the
  operator callables are fixed per node kind: `add sub mul floordiv pow neg factorial`), so
  equal ASTs give equal values and equal exceptions.  `eval` below models the integer part
  (`/` is floor division, `!` is defined on naturals, `^` with a negative exponent leaves the
  integers and is `none`, like division by zero, an unbound variable and the factorial of a
  negative number); nothing in the theorems depends on it beyond `congrArg`.

  Core Lean only.
-/
import PestModel.Pratt
import PestModel.Generated.CalcTables

namespace Pest
namespace Calc
open Pratt

/-! ### tokens, trees, ASTs -/

inductive Tok where
  | int (n : Nat)            -- rule `int`
  | var (s : String)         -- rule `ident`
  | neg | fac                -- prefix `-`, postfix `!`
  | add | sub | mul | div | pow
  | paren (ts : List Tok)    -- "(" ~ expr ~ ")" : the nested `expr` pair
deriving Repr, Inhabited

/-- `pair.name` -/
def Tok.ruleName : Tok → String
  | .int _ => "int" | .var _ => "ident" | .neg => "neg" | .fac => "fac" | .add => "add"
  | .sub => "sub" | .mul => "mul" | .div => "div" | .pow => "pow" | .paren _ => "expr"

def Tok.isPrimary : Tok → Bool
  | .int _ | .var _ | .paren _ => true
  | _ => false

def Tok.isInfix : Tok → Bool
  | .add | .sub | .mul | .div | .pow => true
  | _ => false

abbrev T := Tree Tok

inductive BinOp where | add | sub | mul | div | pow
deriving Repr, DecidableEq, Inhabited

/-- examples/calculator/_ast.py -/
inductive AST where
  | int (n : Nat)                      -- IntExpr
  | var (s : String)                   -- VarExpr
  | neg (a : AST)                      -- PrefixExpr(neg, a)
  | fac (a : AST)                      -- PostfixExpr(factorial, a)
  | bin (op : BinOp) (l r : AST)       -- InfixExpr(add | sub | mul | floordiv | pow, l, r)
deriving Repr, DecidableEq, Inhabited

def binOp : Tok → Option BinOp
  | .add => some .add | .sub => some .sub | .mul => some .mul | .div => some .div | .pow => some .pow
  | _ => none

/-- the hooks: `parse_primary`, `parse_prefix(_expression)`, `parse_postfix(_expression)`,
    `parse_infix(_expression)`; `sub` is the implementation's own entry point, applied to the
    inner pairs of a parenthesised sub-expression.  `none` = CalculatorSyntaxError. -/
def build (sub : List Tok → Option AST) : T → Option AST
  | .leaf (.int n) => some (.int n)
  | .leaf (.var s) => some (.var s)
  | .leaf (.paren ts) => sub ts
  | .leaf _ => none
  | .pre .neg r => (build sub r).map .neg
  | .pre _ _ => none
  | .post l .fac => (build sub l).map .fac
  | .post _ _ => none
  | .bin l o r =>
    match binOp o, build sub l, build sub r with
    | some b, some x, some y => some (.bin b x y)
    | _, _, _ => none

/-- an implementation = its tree stage, then the hooks; the fuel bounds the nesting depth of
    parentheses (`depthL ts + 1` is enough) -/
def implAt (tree : List Tok → Option T) : Nat → List Tok → Option AST
  | 0 => fun _ => none
  | f + 1 => fun ts => (tree ts).bind (build (implAt tree f))

mutual
/-- nesting depth of parentheses -/
def Tok.depth : Tok → Nat
  | .paren ts => depthL ts + 1
  | _ => 0
def depthL : List Tok → Nat
  | [] => 0
  | t :: ts => max t.depth (depthL ts)
end

/-! ### well-formed token lists: what `expr` of either grammar yields

  `expr := neg* primary fac* (infix neg* primary fac*)*`, and every parenthesised
  sub-expression is well formed in turn. -/

/-- `cwf true` = an operand is expected, `cwf false` = an operator or the end -/
def cwf : Bool → List Tok → Bool
  | true, [] => false
  | true, .neg :: ts => cwf true ts
  | true, t :: ts => t.isPrimary && cwf false ts
  | false, [] => true
  | false, .fac :: ts => cwf false ts
  | false, t :: ts => t.isInfix && cwf true ts

mutual
def Tok.deepWf : Tok → Bool
  | .paren ts => cwf true ts && deepWfL ts
  | _ => true
def deepWfL : List Tok → Bool
  | [] => true
  | t :: ts => t.deepWf && deepWfL ts
end

def WellFormed (ts : List Tok) : Prop := cwf true ts = true ∧ deepWfL ts = true

instance (ts : List Tok) : Decidable (WellFormed ts) := inferInstanceAs (Decidable (_ ∧ _))

/-! ### precedence tables -/

/-- a calculator-shaped table: `add`/`sub` share a level, `mul`/`div` share a level, all four
    left-associative, `pow` right-associative, one prefix and one postfix operator -/
structure Levels where
  add : Nat
  mul : Nat
  pow : Nat
  neg : Nat
  fac : Nat
deriving Repr, DecidableEq

def Levels.table (L : Levels) : Table Tok where
  pre := fun | .neg => some L.neg | _ => none
  post := fun | .fac => some L.fac | _ => none
  inf := fun
    | .add => some (L.add, false) | .sub => some (L.add, false)
    | .mul => some (L.mul, false) | .div => some (L.mul, false)
    | .pow => some (L.pow, true)
    | _ => none

/-- the order the documentation gives (see `docLevels`) -/
def Levels.Ordered (L : Levels) : Prop :=
  L.add < L.mul ∧ L.mul < L.pow ∧ L.pow < L.neg ∧ L.neg < L.fac

instance (L : Levels) : Decidable L.Ordered := inferInstanceAs (Decidable (_ ∧ _))

/-- **The documented table.**  Header of examples/calculator/grammar_encoded_prec.pest:
    "Precedence (lowest → highest): 1. + -  2. * /  3. ^  4. prefix (negation)
    5. postfix (factorial)  6. primary", `pow_expr` "right-associative", the other binary
    levels written as left-to-right repetitions; the same order as the pest book's
    `PrattParser` for this grammar (`infix(add)|infix(sub)`, `infix(mul)|infix(div)`,
    `infix(pow, Right)`, `prefix(neg)`, `postfix(fac)`, weakest first). -/
def docLevels : Levels := { add := 1, mul := 2, pow := 3, neg := 4, fac := 5 }
def docTable : Table Tok := docLevels.table

/-- `CalculatorParser.PREFIX_OPS / POSTFIX_OPS / INFIX_OPS` (regenerated), keyed by `pair.name` -/
def prattTable : Table Tok where
  pre t := Generated.Calc.prattPrefix.lookup t.ruleName
  post t := Generated.Calc.prattPostfix.lookup t.ruleName
  inf t := Generated.Calc.prattInfix.lookup t.ruleName

/-- the five levels read off the regenerated Pratt table (`Props/C17.lean`,
    `prattTable_levels`: the table is exactly the calculator-shaped table of these levels) -/
def prattLevels : Levels where
  add := ((Generated.Calc.prattInfix.lookup "add").getD (0, false)).1
  mul := ((Generated.Calc.prattInfix.lookup "mul").getD (0, false)).1
  pow := ((Generated.Calc.prattInfix.lookup "pow").getD (0, false)).1
  neg := (Generated.Calc.prattPrefix.lookup "neg").getD 0
  fac := (Generated.Calc.prattPostfix.lookup "fac").getD 0

/-! ### (b) the Pratt calculator -/

/-- `CalculatorParser.parse`: `self.parse_expr(pairs.first().inner().first().stream())`
    (whatever `parse_expr` leaves in the stream is ignored, as in the code) -/
def prattTree (ts : List Tok) : Option T :=
  match parseExpr prattTable ts with
  | .ok t _ => some t
  | _ => none                 -- SyntaxError("Unexpected end of expression")

/-! ### (a) the precedence climber (examples/calculator/prec_climber.py, repaired loop) -/

/-- the module-level tables of prec_climber.py -/
structure ClimbCfg where
  precedences : List (String × Nat)     -- PRECEDENCES
  lowest : Nat                          -- Precedence.LOWEST
  pre : Nat                             -- Precedence.PRE
  infixOps : List String                -- INFIX_OPERATORS
  prefixOps : List String               -- PREFIX_OPERATORS
  postfixOps : List String              -- POSTFIX_OPERATORS
  rightAssoc : List String              -- RIGHT_ASSOCIATIVE_OPERATORS

namespace ClimbCfg
variable (C : ClimbCfg)
def isInfix (t : Tok) : Bool := C.infixOps.contains t.ruleName
def isPrefix (t : Tok) : Bool := C.prefixOps.contains t.ruleName
def isPostfix (t : Tok) : Bool := C.postfixOps.contains t.ruleName
def isRight (t : Tok) : Bool := C.rightAssoc.contains t.ruleName
/-- `PRECEDENCES.get(pair.name, Precedence.LOWEST)` -/
def precOf (t : Tok) : Nat := (C.precedences.lookup t.ruleName).getD C.lowest

/-- the same tables in the shape of a Pratt table -/
def table : Table Tok where
  pre t := if C.isPrefix t then some C.pre else none
  post t := if C.isPostfix t then some (C.precOf t) else none
  inf t := if C.isInfix t then some (C.precOf t, C.isRight t) else none
end ClimbCfg

def climbCfg : ClimbCfg where
  precedences := Generated.Calc.climbPrecedences
  lowest := Generated.Calc.climbLowest
  pre := Generated.Calc.climbPre
  infixOps := Generated.Calc.climbInfixOps
  prefixOps := Generated.Calc.climbPrefixOps
  postfixOps := Generated.Calc.climbPostfixOps
  rightAssoc := Generated.Calc.climbRightAssoc

def climbLevels : Levels where
  add := climbCfg.precOf .add
  mul := climbCfg.precOf .mul
  pow := climbCfg.precOf .pow
  neg := climbCfg.pre
  fac := climbCfg.precOf .fac

inductive CRes where
  | ok (t : T) (rest : List Tok)   -- returned `t`; `rest` = pairs.pairs[pairs.pos:]
  | eof                            -- CalculatorSyntaxError("unexpected end of expression")
  | unexpected                     -- CalculatorSyntaxError("unexpected …")
  | fuel                           -- model artefact (never with ts.length + 1)
deriving Repr, Inhabited

def CRes.ofPratt : Res Tok → CRes
  | .ok t r => .ok t r
  | .eof => .eof
  | .fuel => .fuel

/-- the `while pair and (pair.name in INFIX_OPERATORS or pair.name in POSTFIX_OPERATORS)` loop
    of `parse_expr`.  `ts` is the stream *including* the pair held in the local `pair` (the
    code has already taken it with `pairs.next()`; `pairs.backup()` puts it back). -/
def climbLoop (C : ClimbCfg) (rec : List Tok → Nat → CRes) (prec : Nat) :
    Nat → T → List Tok → CRes
  | 0, _, _ => .fuel
  | g + 1, left, ts =>
    match ts with
    | [] => .ok left []                                        -- `not pair`: return left
    | tok :: ts' =>
      if C.isInfix tok || C.isPostfix tok then
        if C.precOf tok < prec then .ok left (tok :: ts')      -- pairs.backup(); return left
        else if C.isPostfix tok then
          climbLoop C rec prec g (.post left tok) ts'          -- parse_postfix_expression; pairs.next()
        else                                                   -- parse_infix_expression(pair, pairs, left)
          match rec ts' (if C.isRight tok then C.precOf tok else C.precOf tok + 1) with
          | .ok right ts'' => climbLoop C rec prec g (.bin left tok right) ts''
          | e => e
      else .unexpected                                         -- raise CalculatorSyntaxError(f"unexpected …")

/-- one activation of `parse_expr(pairs, precedence)` -/
def climbStep (C : ClimbCfg) (rec : List Tok → Nat → CRes) (gas : Nat)
    (ts : List Tok) (prec : Nat) : CRes :=
  match ts with                                                -- pair = pairs.next()
  | [] => .eof                                                 -- if pair is None: raise
  | tok :: ts' =>
    if C.isPrefix tok then                                     -- parse_prefix_expression(pair, pairs)
      match rec ts' C.pre with                                 --   parse_expr(pairs, Precedence.PRE)
      | .ok r ts'' => climbLoop C rec prec gas (.pre tok r) ts''
      | e => e
    else climbLoop C rec prec gas (.leaf tok) ts'              -- parse_primary(pair): a hook, see `build`
                                                               -- (its `case _: raise` is `build`'s `.leaf _ => none`)

def climbExpr (C : ClimbCfg) : Nat → List Tok → Nat → CRes
  | 0 => fun _ _ => .fuel
  | f + 1 => climbStep C (climbExpr C f) f

/-- `parse_program`: `parse_expr(expr.stream())` with the default `Precedence.LOWEST` -/
def climbTreeOf (C : ClimbCfg) (ts : List Tok) : Option T :=
  match climbExpr C (ts.length + 1) ts C.lowest with
  | .ok t _ => some t
  | _ => none

def climbTree : List Tok → Option T := climbTreeOf climbCfg

/-! ### (c) precedence encoded in the grammar

  `nest`: examples/calculator/grammar_encoded_prec.pest as a PEG over the token list
  (ordered, greedy, an optional group that fails gives back what it consumed), producing the
  pairs the rules produce.  A parenthesised primary is the nested `expr` pair; it is kept as
  the token `paren ts` and expanded by `build` (the rule `expr` does not depend on its
  context, so the pairs under it are the nesting of `ts`). -/

inductive ERule where
  | expr | addSub | mulDiv | powExpr | prefixR | postfixR
deriving Repr, DecidableEq, Inhabited

/-- a pair of the grammar-encoded parse: a rule with children, or one of the leaf pairs
    `int ident add sub mul div pow neg fac` (and the unexpanded `expr` of a parenthesis) -/
inductive EP where
  | node (r : ERule) (ch : List EP)
  | tok (t : Tok)
deriving Repr, Inhabited

/-- `(fac)*` -/
def nFacs : List Tok → List EP × List Tok
  | .fac :: r => let (fs, r') := nFacs r; (.tok .fac :: fs, r')
  | r => ([], r)

/-- `postfix = { primary ~ (fac)* }`,  `primary = _{ int | ident | "(" ~ expr ~ ")" }` -/
def nPostfix : List Tok → Option (EP × List Tok)
  | [] => none
  | t :: r =>
    if t.isPrimary then
      let (fs, r') := nFacs r
      some (.node .postfixR (.tok t :: fs), r')
    else none

/-- `(neg)*` -/
def nNegs : List Tok → List EP × List Tok
  | .neg :: r => let (ns, r') := nNegs r; (.tok .neg :: ns, r')
  | r => ([], r)

/-- `prefix = { (neg)* ~ postfix }` -/
def nPrefix (ts : List Tok) : Option (EP × List Tok) :=
  let (ns, r) := nNegs ts
  match nPostfix r with
  | some (p, r') => some (.node .prefixR (ns ++ [p]), r')
  | none => none

/-- `pow_expr = { prefix ~ (pow_op ~ pow_expr)? }` -/
def nPow : Nat → List Tok → Option (EP × List Tok)
  | 0, _ => none
  | f + 1, ts =>
    match nPrefix ts with
    | none => none
    | some (p, .pow :: r) =>
      match nPow f r with
      | some (q, r') => some (.node .powExpr [p, .tok .pow, q], r')
      | none => some (.node .powExpr [p], .pow :: r)
    | some (p, r) => some (.node .powExpr [p], r)

/-- `(op ~ lower)*` -/
def nChainRest (lower : List Tok → Option (EP × List Tok)) (isOp : Tok → Bool) :
    Nat → List Tok → List EP × List Tok
  | 0, ts => ([], ts)
  | _ + 1, [] => ([], [])
  | f + 1, o :: r =>
    if isOp o then
      match lower r with
      | some (x, r') => let (xs, r'') := nChainRest lower isOp f r'; (.tok o :: x :: xs, r'')
      | none => ([], o :: r)
    else ([], o :: r)

/-- `rule = { lower ~ (op ~ lower)* }` -/
def nChain (rule : ERule) (lower : List Tok → Option (EP × List Tok)) (isOp : Tok → Bool)
    (fuel : Nat) (ts : List Tok) : Option (EP × List Tok) :=
  match lower ts with
  | none => none
  | some (x, r) => let (xs, r') := nChainRest lower isOp fuel r; some (.node rule (x :: xs), r')

def isMulOp : Tok → Bool | .mul | .div => true | _ => false
def isAddOp : Tok → Bool | .add | .sub => true | _ => false

/-- `mul_div = { pow_expr ~ (mul_op ~ pow_expr)* }` -/
def nMulDiv (f : Nat) : List Tok → Option (EP × List Tok) := nChain .mulDiv (nPow f) isMulOp f
/-- `add_sub = { mul_div ~ (add_op ~ mul_div)* }` -/
def nAddSub (f : Nat) : List Tok → Option (EP × List Tok) := nChain .addSub (nMulDiv f) isAddOp f

/-- `expr = { add_sub }`, and the whole token list must be used up (`program`: `expr ~ EOI`;
    a parenthesis: `expr ~ ")"`) -/
def nest (ts : List Tok) : Option EP :=
  match nAddSub (ts.length + 1) ts with
  | some (a, []) => some (.node .expr [a])
  | _ => none

/-! the walk of grammar_encoded_prec.py (`none` = CalculatorSyntaxError) -/

/-- `parse_primary` -/
def wPrimary : EP → Option T
  | .tok (.int n) => some (.leaf (.int n))                     -- case Pair(Rule.INT)
  | .tok (.var s) => some (.leaf (.var s))                     -- case Pair(Rule.IDENT)
  | .tok (.paren c) => some (.leaf (.paren c))                 -- case Pair(Rule.EXPR, [inner]): parse_add_sub(inner)
  | _ => none

/-- `parse_postfix_inner` -/
def wPostfixInner (expr : T) : List EP → Option T
  | [] => some expr
  | .tok .fac :: tail => wPostfixInner (.post expr .fac) tail
  | _ => none

/-- `parse_postfix` -/
def wPostfix : EP → Option T
  | .node .postfixR (first :: rest) => (wPrimary first).bind fun e => wPostfixInner e rest
  | _ => none

/-- `parse_prefix_inner` -/
def wPrefixInner : List EP → Option T
  | .tok .neg :: rest => (wPrefixInner rest).map (.pre .neg)
  | [p] => wPostfix p
  | _ => none

/-- `parse_prefix` -/
def wPrefix : EP → Option T
  | .node .prefixR [.node .postfixR ch] => wPostfix (.node .postfixR ch)
  | .node .prefixR (.tok .neg :: rest) => (wPrefixInner rest).map (.pre .neg)
  | _ => none

/-- `parse_pow_expr_inner`, given `parse_pow_expr` -/
def wPowInner (rec : EP → Option T) (left : T) : List EP → Option T
  | [.tok .pow, right] => (rec right).map (.bin left .pow)
  | .tok .pow :: right :: tail => (rec right).bind fun r => wPowInner rec (.bin left .pow r) tail
  | _ => none

/-- `parse_pow_expr` (the fuel bounds the nesting of `pow_expr` pairs) -/
def wPow : Nat → EP → Option T
  | 0, _ => none
  | _ + 1, .node .powExpr [.node .prefixR ch] => wPrefix (.node .prefixR ch)
  | f + 1, .node .powExpr (first :: rest) => (wPrefix first).bind fun left => wPowInner (wPow f) left rest
  | _ + 1, _ => none

/-- `parse_add_sub_inner` / `parse_mul_div_inner`: `func = add if op.name == "add" else sub`
    (resp. `mul … else floordiv`) is `opOf` -/
def wChainInner (lower : EP → Option T) (opOf : EP → Tok) (left : T) : List EP → Option T
  | [] => some left
  | op :: right :: tail =>
    (lower right).bind fun r => wChainInner lower opOf (.bin left (opOf op) r) tail
  | _ => none

/-- `parse_add_sub` / `parse_mul_div` -/
def wChain (rule : ERule) (lower : EP → Option T) (opOf : EP → Tok) : EP → Option T
  | .node r (first :: rest) =>
    if r = rule then (lower first).bind fun left => wChainInner lower opOf left rest else none
  | _ => none

def mulOpOf : EP → Tok | .tok .mul => .mul | _ => .div
def addOpOf : EP → Tok | .tok .add => .add | _ => .sub

def wMulDiv (f : Nat) : EP → Option T := wChain .mulDiv (wPow f) mulOpOf
def wAddSub (f : Nat) : EP → Option T := wChain .addSub (wMulDiv f) addOpOf

/-- `parse_expr` -/
def wExpr (f : Nat) : EP → Option T
  | .node .expr [e] => wAddSub f e
  | _ => none

/-- `parse_program(parse(Rule.PROGRAM, text))` up to the hooks -/
def encodedTree (ts : List Tok) : Option T := (nest ts).bind (wExpr (ts.length + 1))

/-! ### (d) the reference: the tree the documented table demands -/

/-- enumerate every tree over the tokens, keep those that read each token in its role and are
    `Good` for the documented table (there is exactly one on a well-formed list:
    `C17.refTree_spec`) -/
def refTree (ts : List Tok) : Option T := (Pratt.reference docTable ts).head?

/-! ### the four functions of the property -/

def precClimb (ts : List Tok) : Option AST := implAt climbTree (depthL ts + 1) ts
def pratt (ts : List Tok) : Option AST := implAt prattTree (depthL ts + 1) ts
def encoded (ts : List Tok) : Option AST := implAt encodedTree (depthL ts + 1) ts
def reference (ts : List Tok) : Option AST := implAt refTree (depthL ts + 1) ts

/-! ### values (integer part of `Expression.evaluate`) -/

def factorial : Nat → Nat
  | 0 => 1
  | n + 1 => (n + 1) * factorial n

def eval (env : String → Option Int) : AST → Option Int
  | .int n => some n
  | .var s => env s                                             -- KeyError
  | .neg a => (eval env a).map (- ·)
  | .fac a =>
    match eval env a with
    | some v => if v < 0 then none else some (factorial v.toNat)   -- ValueError
    | none => none
  | .bin op l r =>
    match eval env l, eval env r with
    | some x, some y =>
      match op with
      | .add => some (x + y)
      | .sub => some (x - y)
      | .mul => some (x * y)
      | .div => if y = 0 then none else some (Int.fdiv x y)      -- ZeroDivisionError
      | .pow => if y < 0 then none else some (x ^ y.toNat)       -- a float (or ZeroDivisionError): not modelled
    | _, _ => none

end Calc
end Pest
