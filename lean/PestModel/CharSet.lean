/-
  CharSet.lean — sets of code points as lists of closed intervals, and the mirror of
  `_optimize_char_class` (src/pest/grammar/expressions/choice.py).  Core Lean only.

  Python                                            here
  ------------------------------------------------  -----------------------------------------
  for start, end in ranges: swap if s_cp > e_cp     `normRange`, `ranges.map normRange`
  norm_ranges.sort()          (tuples, lexicographic) `sortIvs` (insertion sort, `ivLe`)
  for s, e in norm_ranges:                          `mergeGo cur rest`  (cur = merged[-1])
      if not merged or s > merged[-1][1] + 1:           `if r.1 > cur.2 + 1 then cur :: mergeGo r rest`
          merged.append([s, e])
      else: merged[-1][1] = max(merged[-1][1], e)       `else mergeGo (cur.1, max cur.2 r.2) rest`
  singles = sorted({c for c in singles              `sortDedup (singles.filter (!ivMem merged ·))`
                    if all(not (s <= ord(c) <= e) …)})
  parts_out = singles, then per merged range         `pieces`: the members of the class string, in
      `x` if s == e else `x-y`                          the order they are written between `[` `]`

  The definitions of the ASCII built-ins (`specAscii…`) are written here from pest's
  documentation, independently of the table regenerated from rules/ascii.py.
-/

namespace Pest
namespace CharSet

/-- a closed interval of code points `(lo, hi)` -/
abbrev Iv := Nat × Nat

def inIv (r : Iv) (c : Nat) : Bool := r.1 ≤ c && c ≤ r.2

/-- membership in a union of closed intervals -/
def ivMem (ivs : List Iv) (c : Nat) : Bool := ivs.any (inIv · c)

/-! ### `_optimize_char_class` -/

/-- `if s_cp > e_cp: s_cp, e_cp = e_cp, s_cp` -/
def normRange (r : Iv) : Iv := if r.1 > r.2 then (r.2, r.1) else r

/-- Python's order on 2-tuples of ints -/
def ivLe (x y : Iv) : Bool := x.1 < y.1 || (x.1 == y.1 && x.2 ≤ y.2)

def insertIv (r : Iv) : List Iv → List Iv
  | [] => [r]
  | x :: xs => if ivLe r x then r :: x :: xs else x :: insertIv r xs

/-- `norm_ranges.sort()` -/
def sortIvs : List Iv → List Iv
  | [] => []
  | r :: rs => insertIv r (sortIvs rs)

/-- the merge loop, with `cur` = `merged[-1]` and `rest` = the ranges still to visit -/
def mergeGo : Iv → List Iv → List Iv
  | cur, [] => [cur]
  | cur, r :: rest =>
    if r.1 > cur.2 + 1 then cur :: mergeGo r rest
    else mergeGo (cur.1, max cur.2 r.2) rest

def mergeSorted : List Iv → List Iv
  | [] => []
  | r :: rest => mergeGo r rest

/-- `merged` -/
def mergeRanges (ranges : List Iv) : List Iv := mergeSorted (sortIvs (ranges.map normRange))

def insertDedup (c : Nat) : List Nat → List Nat
  | [] => [c]
  | x :: xs => if c < x then c :: x :: xs else if c = x then x :: xs else x :: insertDedup c xs

/-- `sorted(set(…))` on code points -/
def sortDedup : List Nat → List Nat
  | [] => []
  | c :: cs => insertDedup c (sortDedup cs)

/-- `_optimize_char_class(singles, ranges)`: the singles that are kept (sorted, distinct, not
    covered by a range) and the merged ranges, in the order they are written -/
def mergeCharClass (singles : List Nat) (ranges : List Iv) : List Nat × List Iv :=
  let merged := mergeRanges ranges
  (sortDedup (singles.filter fun c => !ivMem merged c), merged)

/-- does the class accept `c`?  (`[` singles ranges `]` read as a set) -/
def classMem (cls : List Nat × List Iv) (c : Nat) : Bool := cls.1.contains c || ivMem cls.2 c

/-- a member of the class string: `x` or `x-y` -/
inductive Piece where
  | single (c : Nat)
  | range (a b : Nat)
deriving Repr, DecidableEq, Inhabited

/-- `parts_out`: kept singles, then each merged range, written `x` when `s == e` -/
def pieces (cls : List Nat × List Iv) : List Piece :=
  cls.1.map .single ++ cls.2.map fun r => if r.1 = r.2 then .single r.1 else .range r.1 r.2

def Piece.mem : Piece → Nat → Bool
  | .single x, c => x == c
  | .range a b, c => a ≤ c && c ≤ b

def piecesMem (ps : List Piece) (c : Nat) : Bool := ps.any (·.mem c)

/-! ### consecutive separation of the output -/

/-- every interval is non-empty and the next one starts at least two after the previous end
    (so no two of them touch or overlap, and they are in increasing order) -/
def Separated : List Iv → Prop
  | [] => True
  | [a] => a.1 ≤ a.2
  | a :: b :: rest => a.1 ≤ a.2 ∧ a.2 + 1 < b.1 ∧ Separated (b :: rest)

/-! ### the built-in ASCII sets, from their definitions (pest book, "Built-in rules")

    ASCII_DIGIT '0'..'9' · ASCII_NONZERO_DIGIT '1'..'9' · ASCII_BIN_DIGIT '0'..'1' ·
    ASCII_OCT_DIGIT '0'..'7' · ASCII_HEX_DIGIT '0'..'9' | 'a'..'f' | 'A'..'F' ·
    ASCII_ALPHA_LOWER 'a'..'z' · ASCII_ALPHA_UPPER 'A'..'Z' · ASCII_ALPHA both ·
    ASCII_ALPHANUMERIC digits and letters · ASCII '\u{00}'..'\u{7F}' -/

def specAsciiDigit (c : Nat) : Prop := 48 ≤ c ∧ c ≤ 57
def specAsciiNonzeroDigit (c : Nat) : Prop := 49 ≤ c ∧ c ≤ 57
def specAsciiBinDigit (c : Nat) : Prop := c = 48 ∨ c = 49
def specAsciiOctDigit (c : Nat) : Prop := 48 ≤ c ∧ c ≤ 55
def specAsciiHexDigit (c : Nat) : Prop := (48 ≤ c ∧ c ≤ 57) ∨ (97 ≤ c ∧ c ≤ 102) ∨ (65 ≤ c ∧ c ≤ 70)
def specAsciiAlphaLower (c : Nat) : Prop := 97 ≤ c ∧ c ≤ 122
def specAsciiAlphaUpper (c : Nat) : Prop := 65 ≤ c ∧ c ≤ 90
def specAsciiAlpha (c : Nat) : Prop := specAsciiAlphaLower c ∨ specAsciiAlphaUpper c
def specAsciiAlphanumeric (c : Nat) : Prop := specAsciiDigit c ∨ specAsciiAlpha c
def specAscii (c : Nat) : Prop := c ≤ 127

instance : DecidablePred specAsciiDigit := fun c => by unfold specAsciiDigit; infer_instance
instance : DecidablePred specAsciiNonzeroDigit := fun c => by unfold specAsciiNonzeroDigit; infer_instance
instance : DecidablePred specAsciiBinDigit := fun c => by unfold specAsciiBinDigit; infer_instance
instance : DecidablePred specAsciiOctDigit := fun c => by unfold specAsciiOctDigit; infer_instance
instance : DecidablePred specAsciiHexDigit := fun c => by unfold specAsciiHexDigit; infer_instance
instance : DecidablePred specAsciiAlphaLower := fun c => by unfold specAsciiAlphaLower; infer_instance
instance : DecidablePred specAsciiAlphaUpper := fun c => by unfold specAsciiAlphaUpper; infer_instance
instance : DecidablePred specAsciiAlpha := fun c => by unfold specAsciiAlpha; infer_instance
instance : DecidablePred specAsciiAlphanumeric := fun c => by unfold specAsciiAlphanumeric; infer_instance
instance : DecidablePred specAscii := fun c => by unfold specAscii; infer_instance

/-- the definition of the built-in called `name` (no such built-in: the empty set) -/
def specOf (name : String) (c : Nat) : Prop :=
  if name = "ASCII_DIGIT" then specAsciiDigit c
  else if name = "ASCII_NONZERO_DIGIT" then specAsciiNonzeroDigit c
  else if name = "ASCII_BIN_DIGIT" then specAsciiBinDigit c
  else if name = "ASCII_OCT_DIGIT" then specAsciiOctDigit c
  else if name = "ASCII_HEX_DIGIT" then specAsciiHexDigit c
  else if name = "ASCII_ALPHANUMERIC" then specAsciiAlphanumeric c
  else if name = "ASCII" then specAscii c
  else if name = "ASCII_ALPHA_LOWER" then specAsciiAlphaLower c
  else if name = "ASCII_ALPHA_UPPER" then specAsciiAlphaUpper c
  else if name = "ASCII_ALPHA" then specAsciiAlpha c
  else False

instance (name : String) : DecidablePred (specOf name) := fun c => by unfold specOf; infer_instance

/-- the names pest defines -/
def specNames : List String :=
  ["ASCII_DIGIT", "ASCII_NONZERO_DIGIT", "ASCII_BIN_DIGIT", "ASCII_OCT_DIGIT", "ASCII_HEX_DIGIT",
   "ASCII_ALPHANUMERIC", "ASCII", "ASCII_ALPHA_LOWER", "ASCII_ALPHA_UPPER", "ASCII_ALPHA"]

/-- number of Unicode code points -/
def maxCP : Nat := 0x110000

/-- maximal intervals of `{c < bound | p c}`, by scanning (used by the driver to print a
    definition as intervals) -/
def scanIntervals (p : Nat → Bool) (bound : Nat) : List Iv :=
  let rec go (c : Nat) (fuel : Nat) (start : Option Nat) (acc : List Iv) : List Iv :=
    match fuel with
    | 0 => (match start with | some s => (s, c - 1) :: acc | none => acc).reverse
    | fuel + 1 =>
      if p c then go (c + 1) fuel (some (start.getD c)) acc
      else
        match start with
        | some s => go (c + 1) fuel none ((s, c - 1) :: acc)
        | none => go (c + 1) fuel none acc
  go 0 bound none []

end CharSet
end Pest
