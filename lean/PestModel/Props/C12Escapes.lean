/-
  Props/C12Escapes.lean — property C12, escape clause:

    "String and character escapes (\n \r \t \\ \" \' \0 \xHH \u{H..}) denote the code points
     pest defines."

  Only statements and short proofs from `Lemmas/Unescape.lean` live here.
  Model: `Unescape.lean` (`unescape` = `unescape_string` of src/pest/grammar/unescape.py,
  statement by statement; `Res.exc` = an exception outside PestGrammarError).
  Specification: `specEscape` / `specUnescape` (a recursion on the list after pest's `escape`,
  `code`, `unicode` rules and pest_meta's `unescape`), and the same as a relation
  (`Escape`, `Denotes`).  All theorems hold for every list of code points; none is partial.

    unescape_total            no IndexError / ValueError / fuel exhaustion, for any input
    unescape_spec             ok r ⟺ the specification gives r   (as an equality of options)
    unescape_error_iff        a PestGrammarSyntaxError ⟺ the specification gives nothing
    unescape_denotes          ok r ⟺ Denotes s r                 (relational reading)
    unescape_append           compositional law (errors of the rest included)
    unescape_simple / _hex / _hex_value / _unicode / _unicode_value
                              every escape, after any complete body and before any text,
                              contributes exactly its code point
    unescape_unicode_range    beyond U+10FFFF: the `range` error
    unescape_unicode_digits   fewer than 2 or more than 6 digits: the `digits` error
    unescape_unknown, unescape_lone_backslash
    unescape_keeps_following  the character after an escape is kept
    unescape_plain            a text without backslash is returned unchanged
    unescape_valid, unescape_char, unescape_single
                              a scanned literal (RE_ESCAPE after every backslash) never gives an
                              error other than `range`; a scanned character literal decodes
                              to exactly one code point
-/
import PestModel.Lemmas.Unescape

namespace Pest
namespace C12
open Unescape

/-! ### totality and the specification -/

/-- **C12, no stray exception.**  For every text, `unescape_string` returns or raises
    `PestGrammarSyntaxError`: neither `value[index]` nor `chr` can fail, and the loop ends
    within `len(value) + 1` iterations (`exc` includes the model's out-of-fuel exit). -/
theorem unescape_total (s : List Nat) (n : String) : unescape s ≠ .exc n := by
  intro h
  cases hs : specUnescape s with
  | none => obtain ⟨e, he⟩ := unescape_of_spec_none hs; rw [he] at h; cases h
  | some a => rw [unescape_of_spec hs] at h; cases h

/-- **C12, escapes denote what pest defines.**  The decoder returns `r` exactly when the
    specification reads the text as a literal body denoting `r` … -/
theorem unescape_spec (s : List Nat) : (unescape s).toOption = specUnescape s := by
  cases hs : specUnescape s with
  | none => obtain ⟨e, he⟩ := unescape_of_spec_none hs; rw [he]; rfl
  | some a => rw [unescape_of_spec hs]; rfl

theorem unescape_ok_iff (s r : List Nat) : unescape s = .ok r ↔ specUnescape s = some r :=
  ⟨spec_of_unescape, unescape_of_spec⟩

/-- … and raises `PestGrammarSyntaxError` exactly when the specification reads nothing. -/
theorem unescape_error_iff (s : List Nat) :
    (∃ e, unescape s = .error e) ↔ specUnescape s = none := by
  constructor
  · rintro ⟨e, he⟩
    cases hs : specUnescape s with
    | none => rfl
    | some a => rw [unescape_of_spec hs] at he; cases he
  · exact unescape_of_spec_none

/-- the recursive specification and the relational one are the same -/
theorem spec_denotes (s r : List Nat) : specUnescape s = some r ↔ Denotes s r :=
  ⟨denotes_of_spec s.length s r (Nat.le_refl _), spec_of_denotes⟩

/-- **C12 in relational form**: `unescape_string` returns `r` iff the body denotes `r`
    by pest's rules (`Denotes`: plain characters, and `Escape`s with pest_meta's values). -/
theorem unescape_denotes (s r : List Nat) : unescape s = .ok r ↔ Denotes s r :=
  (unescape_ok_iff s r).trans (spec_denotes s r)

/-- the seven one-letter escapes are exactly `\" \\ \r \n \t \0 \'` with these values -/
theorem simple_escape_table (c v : Nat) :
    simpleEscape c = some v ↔
      (c, v) ∈ [(34, 34), (92, 92), (114, 13), (110, 10), (116, 9), (48, 0), (39, 39)] := by
  constructor
  · intro h
    have := simpleEscape_some h
    simp only [List.mem_cons, Prod.mk.injEq, List.not_mem_nil, or_false]
    omega
  · intro h
    simp only [List.mem_cons, Prod.mk.injEq, List.not_mem_nil, or_false] at h
    rcases h with h | h | h | h | h | h | h <;> obtain ⟨rfl, rfl⟩ := h <;> decide

/-! ### the compositional law and its instances -/

/-- **Compositional law.**  If `pre` is a complete literal body decoding to `a`, then
    `pre ++ post` decodes to `a` followed by the decoding of `post`, and fails exactly as
    `post` alone fails. -/
theorem unescape_append {pre a : List Nat} (post : List Nat) (h : unescape pre = .ok a) :
    unescape (pre ++ post) = (unescape post).prepend a :=
  Unescape.unescape_append post (spec_of_unescape h)

theorem unescape_append_ok {pre a post b : List Nat} (h : unescape pre = .ok a)
    (hb : unescape post = .ok b) : unescape (pre ++ post) = .ok (a ++ b) := by
  rw [unescape_append post h, hb]; rfl

/-- **the seven one-letter escapes**, anywhere: `\c` between a complete body and any text
    contributes exactly its code point. -/
theorem unescape_simple {pre a post b : List Nat} {c v : Nat} (hc : simpleEscape c = some v)
    (ha : unescape pre = .ok a) (hb : unescape post = .ok b) :
    unescape (pre ++ [92, c] ++ post) = .ok (a ++ [v] ++ b) := by
  have := unescape_escape (e := [c]) post (spec_of_unescape ha) (specEscape_simple [] hc)
  rw [this, hb]; rfl

/-- **`\xHH`**, upper or lower case digits: the code point `16·h1 + h0`. -/
theorem unescape_hex {pre a post b : List Nat} {d1 d0 h1 h0 : Nat} (e1 : hexVal d1 = some h1)
    (e0 : hexVal d0 = some h0) (ha : unescape pre = .ok a) (hb : unescape post = .ok b) :
    unescape (pre ++ [92, 120, d1, d0] ++ post) = .ok (a ++ [16 * h1 + h0] ++ b) := by
  have := unescape_escape (e := [120, d1, d0]) post (spec_of_unescape ha)
    (specEscape_of_escape (.code d1 d0 h1 h0 e1 e0))
  rw [this, hb]; rfl

/-- … for every value `v < 256`, spelled with upper-case digits … -/
theorem unescape_hex_value {pre a post b : List Nat} {v : Nat} (hv : v < 256)
    (ha : unescape pre = .ok a) (hb : unescape post = .ok b) :
    unescape (pre ++ [92, 120] ++ hex2 v ++ post) = .ok (a ++ [v] ++ b) := by
  have h1 : hexVal (hexChar (v / 16)) = some (v / 16) := hexVal_hexChar (by omega)
  have h0 : hexVal (hexChar (v % 16)) = some (v % 16) := hexVal_hexChar (by omega)
  have := unescape_hex h1 h0 ha hb
  have hval : 16 * (v / 16) + v % 16 = v := by omega
  rw [hval] at this
  simpa [hex2] using this

/-- … or with lower-case digits. -/
theorem unescape_hex_value_lower {pre a post b : List Nat} {v : Nat} (hv : v < 256)
    (ha : unescape pre = .ok a) (hb : unescape post = .ok b) :
    unescape (pre ++ [92, 120, hexCharLower (v / 16), hexCharLower (v % 16)] ++ post) =
      .ok (a ++ [v] ++ b) := by
  have h1 : hexVal (hexCharLower (v / 16)) = some (v / 16) := hexVal_hexCharLower (by omega)
  have h0 : hexVal (hexCharLower (v % 16)) = some (v % 16) := hexVal_hexCharLower (by omega)
  have := unescape_hex h1 h0 ha hb
  have hval : 16 * (v / 16) + v % 16 = v := by omega
  rw [hval] at this
  exact this

/-- **`\u{H…}`** with two to six hex digits whose value is a code point: that value. -/
theorem unescape_unicode {pre a post b ds : List Nat} (h2 : 2 ≤ ds.length) (h6 : ds.length ≤ 6)
    (hall : ∀ d ∈ ds, (hexVal d).isSome = true) (hr : hexValue ds ≤ 0x10FFFF)
    (ha : unescape pre = .ok a) (hb : unescape post = .ok b) :
    unescape (pre ++ [92, 117, 123] ++ ds ++ [125] ++ post) = .ok (a ++ [hexValue ds] ++ b) := by
  have := unescape_escape (e := [117, 123] ++ ds ++ [125]) post (spec_of_unescape ha)
    (specEscape_of_escape (.unicode ds h2 h6 hall hr))
  rw [hb] at this
  simpa [Res.prepend] using this

/-- … for every code point `v` and every spelling width `k` that fits it (leading zeros
    included): `\u{<k-digit hex of v>}` decodes to `v`. -/
theorem unescape_unicode_value {pre a post b : List Nat} {k v : Nat} (h2 : 2 ≤ k) (h6 : k ≤ 6)
    (hk : v < 16 ^ k) (hr : v ≤ 0x10FFFF) (ha : unescape pre = .ok a)
    (hb : unescape post = .ok b) :
    unescape (pre ++ [92, 117, 123] ++ hexN k v ++ [125] ++ post) = .ok (a ++ [v] ++ b) := by
  have := unescape_unicode (ds := hexN k v) (by rw [length_hexN]; exact h2)
    (by rw [length_hexN]; exact h6) (allHex_hexN k v) (by rw [hexValue_hexN k v hk]; exact hr) ha hb
  rw [hexValue_hexN k v hk] at this
  exact this

/-- a well-formed `\u{…}` whose value is beyond U+10FFFF is rejected with the `range` error
    (not `ValueError`), whatever follows -/
theorem unescape_unicode_range {pre a ds : List Nat} (post : List Nat) (h2 : 2 ≤ ds.length)
    (h6 : ds.length ≤ 6) (hall : ∀ d ∈ ds, (hexVal d).isSome = true)
    (hr : 0x10FFFF < hexValue ds) (ha : unescape pre = .ok a) :
    unescape (pre ++ [92, 117, 123] ++ ds ++ [125] ++ post) = .error .range := by
  have he : specEscape ([117, 123] ++ ds ++ [125]) = some (none, ([117, 123] ++ ds ++ [125]).length) := by
    have : [117, 123] ++ ds ++ [125] = 117 :: 123 :: (ds ++ 125 :: []) := by simp
    rw [this, specEscape_u_closed ds [] hall, if_pos ⟨h2, h6⟩, uniVal, if_neg (by omega)]
    simp only [List.length_cons, List.length_append, List.length_nil]
  have := unescape_escape_range post (spec_of_unescape ha) he
  simpa using this

/-- `\u{…}` with fewer than two or more than six characters before the `}`: the `digits`
    error -/
theorem unescape_unicode_digits {pre a ds : List Nat} (post : List Nat) (hno : 125 ∉ ds)
    (hlen : ds.length < 2 ∨ 6 < ds.length) (ha : unescape pre = .ok a) :
    unescape (pre ++ [92, 117, 123] ++ ds ++ [125] ++ post) = .error .digits := by
  have hd : ¬ (2 ≤ ds.length ∧ ds.length ≤ 6) := by omega
  have hshape : pre ++ [92, 117, 123] ++ ds ++ [125] ++ post =
      pre ++ 92 :: 117 :: 123 :: (ds ++ 125 :: post) := by simp
  rw [hshape, unescape_append _ ha, unescape_cons_esc, decode_u,
    decodeHexChar_closed ds post hno, if_pos hd]
  rfl

/-- a backslash followed by a character that starts no escape: the `unknown` error -/
theorem unescape_unknown {pre a : List Nat} {c : Nat} (post : List Nat)
    (hc : simpleEscape c = none) (hx : c ≠ 120) (hu : c ≠ 117) (ha : unescape pre = .ok a) :
    unescape (pre ++ [92, c] ++ post) = .error .unknown := by
  have hshape : pre ++ [92, c] ++ post = pre ++ 92 :: c :: post := by simp
  rw [hshape, unescape_append _ ha, unescape_cons_esc, decode_unknown post hc hx hu]
  rfl

/-- a backslash at the very end: the `incomplete` error (not `IndexError`) -/
theorem unescape_lone_backslash {pre a : List Nat} (ha : unescape pre = .ok a) :
    unescape (pre ++ [92]) = .error .incomplete := by
  rw [unescape_append _ ha, unescape_cons_esc, decode_nil]
  rfl

/-- **the text after an escape is kept**: whatever escape `e` ends at, the next character
    `c` is the next character of the result. -/
theorem unescape_keeps_following {pre a e rest b : List Nat} {v c : Nat}
    (he : Escape e v) (hc : c ≠ 92) (ha : unescape pre = .ok a) (hb : unescape rest = .ok b) :
    unescape (pre ++ 92 :: e ++ c :: rest) = .ok (a ++ [v] ++ c :: b) := by
  rw [unescape_escape (c :: rest) (spec_of_unescape ha) (specEscape_of_escape he),
    unescape_cons_char rest hc, hb]
  rfl

/-- a text without a backslash is returned unchanged -/
theorem unescape_plain {s : List Nat} (h : ∀ c ∈ s, c ≠ 92) : unescape s = .ok s :=
  unescape_of_spec (specUnescape_plain s h)

/-! ### what the scanner relies on -/

/-- `RE_ESCAPE` matches exactly the specification's escapes, with the same length -/
theorem escapeLen_spec (e : List Nat) : escapeLen e = (specEscape e).map (·.2) :=
  Unescape.escapeLen_spec e

/-- a body in which every backslash is followed by a match of `RE_ESCAPE` (what
    `Scanner.accept_string` lets through) decodes, or holds a `\u{…}` beyond U+10FFFF:
    no other error is reachable from a scanned literal -/
theorem unescape_valid {s : List Nat} (h : ValidBody s) :
    (∃ r, unescape s = .ok r) ∨ unescape s = .error .range :=
  unescape_validBody h

/-- a scanned escaped character literal `'\…'` decodes to exactly one code point -/
theorem unescape_char {e : List Nat} (h : escapeLen e = some e.length) :
    (∃ c, unescape (92 :: e) = .ok [c]) ∨ unescape (92 :: e) = .error .range :=
  unescape_one_escape h

/-- a scanned plain character literal `'c'` decodes to itself -/
theorem unescape_single {c : Nat} (h : c ≠ 92) : unescape [c] = .ok [c] :=
  unescape_plain (by intro x hx; rw [List.mem_singleton.mp hx]; exact h)

/-! ### regression points (each was wrong at the pinned commit) -/

-- "\x41B" ↦ "AB"  (was "A": the character after \xHH was dropped)
example : unescape [92, 120, 52, 49, 66] = .ok [65, 66] := by decide
-- "\u{41}B" ↦ "AB"
example : unescape [92, 117, 123, 52, 49, 125, 66] = .ok [65, 66] := by decide
-- "\0" ↦ NUL  (was: unknown escape)
example : unescape [92, 48] = .ok [0] := by decide
-- "\u{1F600}" (5 digits) and "\u{041}" (3 digits)  (were rejected)
example : unescape [92, 117, 123, 49, 70, 54, 48, 48, 125] = .ok [0x1F600] := by decide
example : unescape [92, 117, 123, 48, 52, 49, 125] = .ok [65] := by decide
-- "\'" and "\"" both decode, whatever the delimiter
example : unescape [92, 39] = .ok [39] := by decide
example : unescape [92, 34] = .ok [34] := by decide
-- "\n" "\r" "\t" "\\"
example : unescape [92, 110, 92, 114, 92, 116, 92, 92] = .ok [10, 13, 9, 92] := by decide
-- "\b" is not a pest escape  (was decoded to U+0008)
example : unescape [92, 98] = .error .unknown := by decide
-- "\x4" (was IndexError/ValueError), "\xZZ" (was ValueError), "\u{110000}" (was ValueError)
example : unescape [92, 120, 52] = .error .incomplete := by decide
example : unescape [92, 120, 90, 90] = .error .hex := by decide
example : unescape [92, 117, 123, 49, 49, 48, 48, 48, 48, 125] = .error .range := by decide
-- lone backslash, "\u41", "\u{41", "\u{1}", "\u{1234567}"
example : unescape [92] = .error .incomplete := by decide
example : unescape [92, 117, 52, 49] = .error .brace := by decide
example : unescape [92, 117, 123, 52, 49] = .error .unclosed := by decide
example : unescape [92, 117, 123, 49, 125] = .error .digits := by decide
example : unescape [92, 117, 123, 49, 50, 51, 52, 53, 54, 55, 125] = .error .digits := by decide
-- surrogates are code points for python-pest and for the specification
example : unescape [92, 117, 123, 68, 56, 48, 48, 125] = .ok [0xD800] := by decide
-- RE_ESCAPE
example : escapeLen [120, 52, 49, 66] = some 3 := by decide
example : escapeLen [117, 123, 52, 49, 125, 66] = some 5 := by decide
example : escapeLen [117, 123, 49, 125] = none := by decide
example : escapeLen [98] = none := by decide
example : ValidBody [97, 92, 110, 98] :=
  .char 97 _ (by decide) (.esc [110] [98] (by decide) (.char 98 _ (by decide) .nil))

end C12
end Pest
