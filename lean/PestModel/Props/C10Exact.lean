/-
  Props/C10Exact.lean — property C10, both halves, relative to the Lean definition of syntax:

    "A grammar text is accepted exactly when it is a syntactically valid pest v2 grammar, and the
     rules it builds have the structure the text denotes."

    front_exact : load b t = .ok r ↔ ∃ g : SGrammar, g.WF' ∧ GrammarText' g t ∧ r = g.den b

  `load` = `Parser.from_grammar(text, optimizer=None)` (Front/Scan.lean + Front/Parse.lean);
  `SGrammar`, `den` : source-level AST and the rule table it denotes (Front/Ast.lean);
  `GrammarText' g t` : "`t` is a layout of `g`" (Front/AstText2.lean) — `GrammarText` of
  Front/AstTrivia.lean (tokens of `g` in order, any trivia behind each) extended by every spelling
  pest's meta-grammar allows; `WF'` : the pieces are spellable.

  The two directions:
    front_accepts_only_grammar_texts (REJECT half, new): whatever `load` accepts is a grammar text
        of a well-formed grammar, and the result is what that grammar denotes;
        = scanner inversion (Lemmas/FrontInvScan.lean: an accepted text is a layout of a concrete
          syntax tree `c` whose tokens were emitted) + the parser on the tokens of a C-tree
          (Lemmas/FrontInvParse.lean: it succeeds iff `c.abs` is defined, with result
          `den (c.abs)`) + Lemmas/FrontInvGlue.lean (`c.abs = some g` gives `g.WF'` and
          `GrammarText' g t`).
    front_roundtrip_text' (ACCEPT half for the extended relation): Lemmas/FrontInvAcc.lean
        (scanner, generalising Lemmas/FrontScanTrivia.lean) + the same parser theorem.
    grammarText'_of_grammarText : GrammarText g t → GrammarText' g t (for `g.WF`), so
        `front_roundtrip_text` of Props/C10.lean is an instance.

  ## What had to be corrected in the relation (FINDINGS about `GrammarText`/`WF`, not defects of
  ## the implementation: every text below is valid by pest's meta-grammar and is accepted)
  The header of Props/C10.lean names two layouts `GrammarText` leaves out.  The reject half is
  false unless four more are added (all checked on the real implementation):
    3. escapes in string literals other than `\"` and `\\`:      a = { "\n" }     a = { "\x41\u{42}" }
    4. escapes in character literals:                            a = { 'a'..'\u{62}' }   (also `'''`)
    5. leading zeros in numbers (any number of them since the
       `fix:` commit 6f76b47, see `zeros_accepted`):             a = { "x"{007} }   a = { PEEK[-01..] }
    6. a doc line ended by CR LF or by the end of the text:      "/// x\r\na = { b }"   "a = { b }\n/// x"
  and `WF` asks two things a text need not satisfy to be accepted (`wf_iff`):
    * `|i| ≤ 4294967295` for the indices of `PEEK[a..b]`.  python-pest does not check slice
      indices: `a = { PEEK[99999999999..] }` is accepted (FINDING: pest itself — `pest_meta`
      parses them as `i32` — does not accept this text; it is syntactically valid by the
      meta-grammar, so it is no counterexample to the reject half, but it is a text the Rust
      implementation refuses and python-pest loads).  `WF'` only keeps "at most 4300
      significant digits" (`SliceIdxOK`), CPython's `int()` limit, beyond which python-pest
      answers "number too large";
    * no doc line ends with CR.  `"a = { b }\n///x\r"` (no final LF) is accepted and the doc line is `x\r`.
  So the theorem is stated with `WF'` (= `WF` without these two, Front/AstText2.lean).

  -- OPEN (FALSE as stated; the two witnesses above refute it, see `peekBig_*` below):
  --   theorem front_accepts_only_grammar_texts_WF (b t r) :
  --       load b t = .ok r → ∃ g : SGrammar, g.WF ∧ GrammarText' g t ∧ r = g.den b
  -- proved instead: the same with `WF'`, and `wf_iff : g.WF ↔ g.WF' ∧ Extra g` where `Extra g` is
  -- exactly "slice indices within ±(2³²−1), no doc line ends with CR"
  -- (`front_accepts_only_grammar_texts_partial`).

  Repaired in /repo and carried through model and proofs (the two C10 findings
  `doc-comment-keeps-leading-blank` and `int-digit-limit`):
    * `fix:` 77be14c — the optional blank after `///` / `//!` belongs to the marker
      (`DocSp` in `DocsText` / `DocsText'`; the AST's doc line is pest's `inner_doc`): `doc_blank_dropped`;
    * `fix:` 6f76b47 — leading zeros do not count towards CPython's `int()` digit limit: `NumSpell`
      and `IntSpell` have no length clause any more (a repetition bound is limited by u32 in
      `WFPost`, a slice index by `SliceIdxOK` in `WF'`, both properties of the *value*):
      `zeros_accepted`.
-/
import PestModel.Lemmas.FrontInvGlue
import PestModel.Lemmas.FrontInvParse
import PestModel.Lemmas.FrontInvAcc
import PestModel.Props.C10

namespace Pest
namespace C10
open Front

/-! ### the two halves of the scanner, the parser on a C-tree -/

/-- **scanner, reject half.**  An accepted text is a layout of a concrete syntax tree with valid
    lexemes, and the emitted tokens are the tree's. -/
theorem scan_inversion {t : Text} {toks : List Token} (h : scan t = .ok toks) :
    ∃ c : CGrammar, c.Valid ∧ PRT.tokKV toks = c.kv ∧ CGrammarText c t :=
  IS.scan_inv h

/-- **scanner, accept half, all spellings.** -/
theorem scan_accept (g : SGrammar) (h : g.WF') {t : Text} (ht : GrammarText' g t) :
    ∃ toks, scan t = .ok toks ∧ Act g.kv (PRT.tokKV toks) :=
  Front.scan_accept_text' g h ht

/-- **parser.**  On the tokens of a concrete syntax tree the grammar parser succeeds exactly when
    the tree has an abstraction, and returns what the abstraction denotes. -/
theorem parse_ctree (b : List String) (c : CGrammar) (eof : Token) (heof : eof.kind = .eoi)
    (ts : List Token) (hts : PRT.tokKV ts = c.kv) :
    IP.okPart (parseTokens b eof ts) = (c.abs).map (fun g => (g.den b, [])) :=
  IP.parseTokens_ctree b c eof heof ts hts

/-! ### C10, reject half -/

/-- **C10, reject + structure.**  Whatever text the front end accepts is a layout of a
    well-formed source-level grammar, and the rule table built is the one that grammar denotes. -/
theorem front_accepts_only_grammar_texts (b : List String) (t : Text) (r : Loaded)
    (h : load b t = .ok r) : ∃ g : SGrammar, g.WF' ∧ GrammarText' g t ∧ r = g.den b := by
  unfold load at h
  cases hs : scan t with
  | ok toks =>
    rw [hs] at h
    simp only at h
    cases hp : parseTokens b ⟨.eoi, [], t.length⟩ toks with
    | ok g rest =>
      rw [hp] at h
      cases h
      obtain ⟨c, hv, hkv, htext⟩ := scan_inversion hs
      obtain ⟨g', hg', hr, _⟩ := IP.parse_ok_abs hkv rfl hp
      obtain ⟨hwf, hgt⟩ := IG.ctree_grammar hg' hv htext
      exact ⟨g', hwf, hgt, hr⟩
    | err k tok => rw [hp] at h; cases h
    | exc n => rw [hp] at h; cases h
    | oof => rw [hp] at h; cases h
  | err k st v => rw [hs] at h; cases h
  | exc n => rw [hs] at h; cases h
  | oof => rw [hs] at h; cases h

/-! ### C10, accept half for the extended relation -/

/-- **C10, accept + structure, every spelling.**  Every layout of a well-formed grammar loads to
    what the grammar denotes. -/
theorem front_roundtrip_text' (b : List String) (g : SGrammar) (h : g.WF') {t : Text}
    (ht : GrammarText' g t) : load b t = .ok (g.den b) := by
  obtain ⟨toks, hs, hact⟩ := scan_accept g h ht
  obtain ⟨c, hc, hkv⟩ := IG.ctree_of_act h hact
  have hp := IP.parse_of_abs (b := b) (eof := ⟨.eoi, [], t.length⟩) (ts := toks) hkv.symm rfl hc
  simp only [load, hs, hp]

/-- `GrammarText'` extends `GrammarText`, `WF'` weakens `WF` -/
theorem grammarText'_of_grammarText {g : SGrammar} (h : g.WF) {t : Text} (ht : GrammarText g t) :
    GrammarText' g t := IG.grammarText'_of_grammarText h ht

theorem wf'_of_wf {g : SGrammar} (h : g.WF) : g.WF' := IG.wf'_of_wf h

/-- what `WF` asks beyond `WF'`: `Extra g` = the indices of every `PEEK[a..b]` are within
    ±(2³²−1) and no doc line ends with CR -/
theorem wf_iff (g : SGrammar) : g.WF ↔ g.WF' ∧ IG.Extra g := IG.wf_iff g

/-- `front_roundtrip_text` of Props/C10.lean is an instance of `front_roundtrip_text'` -/
example (b : List String) (g : SGrammar) (h : g.WF) {t : Text} (ht : GrammarText g t) :
    load b t = .ok (g.den b) :=
  front_roundtrip_text' b g (wf'_of_wf h) (grammarText'_of_grammarText h ht)

/-! ### C10, exactly -/

/-- **C10.**  A text is accepted exactly when it is a layout of a well-formed source-level
    grammar, and then the rule table built is the one the grammar denotes. -/
theorem front_exact (b : List String) (t : Text) (r : Loaded) :
    load b t = .ok r ↔ ∃ g : SGrammar, g.WF' ∧ GrammarText' g t ∧ r = g.den b := by
  constructor
  · exact front_accepts_only_grammar_texts b t r
  · rintro ⟨g, hwf, hgt, rfl⟩
    exact front_roundtrip_text' b g hwf hgt

/-- a text is accepted iff it is a grammar text -/
theorem front_accepts_iff (b : List String) (t : Text) :
    (∃ r, load b t = .ok r) ↔ ∃ g : SGrammar, g.WF' ∧ GrammarText' g t := by
  constructor
  · rintro ⟨r, h⟩
    obtain ⟨g, h1, h2, _⟩ := front_accepts_only_grammar_texts b t r h
    exact ⟨g, h1, h2⟩
  · rintro ⟨g, h1, h2⟩
    exact ⟨g.den b, front_roundtrip_text' b g h1 h2⟩

/-- all grammars a text is a layout of denote the same rule table (the syntax is unambiguous up
    to `den`) -/
theorem den_unique (b : List String) {g g' : SGrammar} {t : Text} (h : g.WF') (h' : g'.WF')
    (ht : GrammarText' g t) (ht' : GrammarText' g' t) : g.den b = g'.den b := by
  have e := front_roundtrip_text' b g h ht
  rw [front_roundtrip_text' b g' h' ht'] at e
  exact (LoadResult.ok.inj e).symm

/-- the statement with `WF` under the side condition that separates it from `WF'` -/
theorem front_accepts_only_grammar_texts_partial (b : List String) (t : Text) (r : Loaded)
    (h : load b t = .ok r) :
    ∃ g : SGrammar, GrammarText' g t ∧ r = g.den b ∧ g.WF' ∧ (IG.Extra g → g.WF) := by
  obtain ⟨g, h1, h2, h3⟩ := front_accepts_only_grammar_texts b t r h
  exact ⟨g, h2, h3, h1, fun hx => (wf_iff g).2 ⟨h1, hx⟩⟩

/-! ### instances -/

/-- the hypothesis of the reject half is met by a text that uses the new freedoms:
    `a={"\n"{007}~^ "x"~'\x41'..'b'}//c` without a final line break is accepted … -/
example (b : List String) :
    load b IA.Sample.text = .ok (IA.Sample.grammar.den b) :=
  front_roundtrip_text' b _ IA.Sample.grammar_wf IA.Sample.text_layout

/-- … hence is a grammar text of some well-formed grammar denoting the result -/
example (b : List String) :
    ∃ g : SGrammar, g.WF' ∧ GrammarText' g IA.Sample.text ∧ IA.Sample.grammar.den b = g.den b :=
  front_accepts_only_grammar_texts b _ _ (front_roundtrip_text' b _ IA.Sample.grammar_wf IA.Sample.text_layout)

/-- the sample of Lemmas/FrontScanRT.lean (every construct, canonical text) through the new theorem -/
example (b : List String) :
    ∃ g : SGrammar, g.WF' ∧ GrammarText' g RT.Sample.grammar.pretty ∧ RT.Sample.grammar.den b = g.den b :=
  front_accepts_only_grammar_texts b _ _ (front_roundtrip b _ RT.Sample.grammar_wf)

/-! ### the witness against `WF`: `a={PEEK[4294967296..]}` -/

def peekBig : SGrammar :=
  ⟨[], [⟨[], [97], none, false, .one (.mk none [] (.slice (some 4294967296) none) [])⟩], []⟩

/-- `a={PEEK[4294967296..]}` -/
def peekBigText : Text :=
  [97, 61, 123, 80, 69, 69, 75, 91, 52, 50, 57, 52, 57, 54, 55, 50, 57, 54, 46, 46, 93, 125]

theorem peekBig_wf' : peekBig.WF' := by
  have hlen : (natDigits 4294967296).length ≤ 4300 := by
    have := IG.natDigits_length_le (n := 4294967296) (k := 10) (by decide) (by decide)
    omega
  have hid : IsIdent [97] := by unfold IsIdent; decide
  simp [peekBig, SGrammar.WF', SRule.WF', SExpr.WF', STerm.WF', SNode.WF', SliceIdxOK, hid, hlen]

theorem peekBig_not_wf : ¬ peekBig.WF := by
  simp [peekBig, SGrammar.WF, SRule.WF, SExpr.WF, STerm.WF, SNode.WF]

theorem peekBig_layout : GrammarText' peekBig peekBigText := by
  refine ⟨[], peekBigText, peekBigText, [], [], .nil, rfl, rfl, ?_, rfl, .inl rfl⟩
  refine ⟨peekBigText, [], rfl, ?_, rfl⟩
  have hk : (⟨[], [97], none, false, .one (.mk none [] (.slice (some 4294967296) none) [])⟩ : SRule).headKV =
      [(.identifier, [97]), (.assignOp, [61]), (.lbrace, [123]), (.peek, sPEEK), (.lbracket, [91]),
       (.integer, intDigits 4294967296), (.rangeOp, [46, 46]), (.rbracket, [93]), (.rbrace, [125])] := by
    simp [SRule.headKV, SExpr.kv, STerm.kv, SNode.kv, tagKV, modKV, barKV, optIntKV]
  rw [hk]
  exact
    Sc'.cons (w := [97]) (ws := []) _ rfl .nil <|
    Sc'.cons (w := [61]) (ws := []) _ rfl .nil <|
    Sc'.cons (w := [123]) (ws := []) _ rfl .nil <|
    Sc'.cons (w := [80, 69, 69, 75]) (ws := []) _ rfl .nil <|
    Sc'.cons (w := [91]) (ws := []) _ rfl .nil <|
    Sc'.cons (w := [52, 50, 57, 52, 57, 54, 55, 50, 57, 54]) (ws := []) _
      ⟨4294967296, rfl, .nonneg (n := 4294967296) ⟨by decide, by decide, by decide⟩⟩ .nil <|
    Sc'.cons (w := [46, 46]) (ws := []) _ rfl .nil <|
    Sc'.cons (w := [93]) (ws := []) _ rfl .nil <|
    Sc'.cons (w := [125]) (ws := []) _ rfl .nil <|
    Sc'.nil _

/-- the model (like the implementation) accepts the text and builds a slice with the index
    4294967296, which `WF` excludes -/
theorem peekBig_accepted (b : List String) :
    load b peekBigText =
      .ok ⟨[⟨nameOf [97], 0, .peekSlice (some 4294967296) none, []⟩], []⟩ := by
  rw [front_roundtrip_text' b peekBig peekBig_wf' peekBig_layout]
  simp [peekBig, SGrammar.den, SRule.den, SExpr.den, SExpr.groups, STerm.den, SNode.den, mkSeq, mkChoice,
    dictSet]

/-! ### the two repaired findings -/

/-- `"x"` -/
def strX : SExpr := .one (.mk none [] (.str [120]) [])

/-- `/// doc` + LF + `a={"x"}` -/
def docText : Text := [47, 47, 47, 32, 100, 111, 99, 10, 97, 61, 123, 34, 120, 34, 125]

def docGrammar : SGrammar := ⟨[], [⟨[[100, 111, 99]], [97], none, false, strX⟩], []⟩

theorem isIdent_a : IsIdent [97] := by unfold IsIdent; decide

theorem docGrammar_wf' : docGrammar.WF' := by
  simp [docGrammar, strX, SGrammar.WF', SRule.WF', SExpr.WF', STerm.WF', SNode.WF', isIdent_a, NoLF]

theorem strX_headKV (docs : List Text) : (⟨docs, [97], none, false, strX⟩ : SRule).headKV =
    [(.identifier, [97]), (.assignOp, [61]), (.lbrace, [123]), (.string, [120]), (.rbrace, [125])] := by
  simp [strX, SRule.headKV, SExpr.kv, STerm.kv, SNode.kv, tagKV, modKV, barKV]

theorem docText_layout : GrammarText' docGrammar docText := by
  refine ⟨[], docText, docText, [], [], .nil, rfl, rfl, ?_, rfl, .inl rfl⟩
  refine ⟨[97, 61, 123, 34, 120, 34, 125], [], ?_, ?_, rfl⟩
  · exact ⟨[32], [10], _, .inl rfl, .lf .nil, rfl, .inr (.inl ⟨_, rfl, by decide⟩), rfl⟩
  · rw [strX_headKV]
    exact
      Sc'.cons (w := [97]) (ws := []) _ rfl .nil <|
      Sc'.cons (w := [61]) (ws := []) _ rfl .nil <|
      Sc'.cons (w := [123]) (ws := []) _ rfl .nil <|
      Sc'.cons (w := [34, 120, 34]) (ws := []) _ ⟨[120], rfl, .char 120 (by decide) (by decide) .nil⟩ .nil <|
      Sc'.cons (w := [125]) (ws := []) _ rfl .nil <|
      Sc'.nil _

/-- **doc-comment-keeps-leading-blank, repaired** (`fix:` 77be14c): the doc line of
    `/// doc` is `doc`, not ` doc` -/
theorem doc_blank_dropped (b : List String) :
    load b docText = .ok ⟨[⟨nameOf [97], 0, .str [120], [[100, 111, 99]]⟩], []⟩ := by
  rw [front_roundtrip_text' b docGrammar docGrammar_wf' docText_layout]
  simp [docGrammar, strX, SGrammar.den, SRule.den, SExpr.den, SExpr.groups, STerm.den, SNode.den, mkSeq,
    mkChoice, dictSet]

/-- the printer writes the separating blank, so print → load is the identity also for a doc line
    that itself starts with a blank (an instance of `front_roundtrip` of Props/C10.lean) -/
example (b : List String) :
    load b (⟨[], [⟨[[32, 100]], [97], none, false, strX⟩], []⟩ : SGrammar).pretty =
      .ok ⟨[⟨nameOf [97], 0, .str [120], [[32, 100]]⟩], []⟩ := by
  rw [front_roundtrip b _ (by
    simp [strX, SGrammar.WF, SRule.WF, SExpr.WF, STerm.WF, SNode.WF, isIdent_a, IsDocLine]
    decide)]
  simp [strX, SGrammar.den, SRule.den, SExpr.den, SExpr.groups, STerm.den, SNode.den, mkSeq, mkChoice, dictSet]

/-- `a={"x"{0…01}}` with `k` zeros -/
def zerosText (k : Nat) : Text :=
  [97] ++ ([61] ++ ([123] ++ ([34, 120, 34] ++ ([123] ++ ((List.replicate k 48 ++ [49]) ++ ([125] ++ [125]))))))

def zerosGrammar : SGrammar :=
  ⟨[], [⟨[], [97], none, false, .one (.mk none [] (.str [120]) [.exact 1])⟩], []⟩

theorem zerosGrammar_wf' : zerosGrammar.WF' := by
  simp [zerosGrammar, SGrammar.WF', SRule.WF', SExpr.WF', STerm.WF', SNode.WF', isIdent_a, WFPost]

theorem numSpell_zeros (k : Nat) : NumSpell 1 (List.replicate k 48 ++ [49]) := by
  refine ⟨by simp, ?_, ?_⟩
  · simp only [List.all_append, List.all_replicate, Bool.and_eq_true]
    exact ⟨by cases k <;> simp [isDigit], by decide⟩
  · induction k with
    | zero => rfl
    | succ k ih => rw [List.replicate_succ, List.cons_append, digitsVal_cons_zero]; exact ih

theorem zerosText_layout (k : Nat) : GrammarText' zerosGrammar (zerosText k) := by
  refine ⟨[], zerosText k, zerosText k, [], [], .nil, rfl, rfl, ?_, rfl, .inl rfl⟩
  refine ⟨zerosText k, [], rfl, ?_, rfl⟩
  have hk : (⟨[], [97], none, false, .one (.mk none [] (.str [120]) [.exact 1])⟩ : SRule).headKV =
      [(.identifier, [97]), (.assignOp, [61]), (.lbrace, [123]), (.string, [120]), (.lbrace, [123]),
       (.number, natDigits 1), (.rbrace, [125]), (.rbrace, [125])] := by
    simp [SRule.headKV, SExpr.kv, STerm.kv, SNode.kv, tagKV, modKV, barKV, postKV]
  rw [hk]
  exact
    Sc'.cons (w := [97]) (ws := []) _ rfl .nil <|
    Sc'.cons (w := [61]) (ws := []) _ rfl .nil <|
    Sc'.cons (w := [123]) (ws := []) _ rfl .nil <|
    Sc'.cons (w := [34, 120, 34]) (ws := []) _ ⟨[120], rfl, .char 120 (by decide) (by decide) .nil⟩ .nil <|
    Sc'.cons (w := [123]) (ws := []) _ rfl .nil <|
    Sc'.cons (w := List.replicate k 48 ++ [49]) (ws := []) _ ⟨1, rfl, numSpell_zeros k⟩ .nil <|
    Sc'.cons (w := [125]) (ws := []) _ rfl .nil <|
    Sc'.cons (w := [125]) (ws := []) _ rfl .nil <|
    Sc'.nil _

/-- **int-digit-limit, repaired** (`fix:` 6f76b47): a bound written with any number of leading
    zeros — 4400 of them, say — is its value -/
theorem zeros_accepted (b : List String) (k : Nat) :
    load b (zerosText k) = .ok ⟨[⟨nameOf [97], 0, .repExact (.str [120]) 1, []⟩], []⟩ := by
  rw [front_roundtrip_text' b zerosGrammar zerosGrammar_wf' (zerosText_layout k)]
  simp [zerosGrammar, SGrammar.den, SRule.den, SExpr.den, SExpr.groups, STerm.den, SNode.den, mkSeq,
    mkChoice, dictSet, applyPost]

example (b : List String) :
    load b (zerosText 4400) = .ok ⟨[⟨nameOf [97], 0, .repExact (.str [120]) 1, []⟩], []⟩ :=
  zeros_accepted b 4400

end C10
end Pest
