/-
  Props/C16.lean — property C16: "For grammars that do not use SOI, parsing text at
  start_pos=k gives exactly the result of parsing text[k:] at 0 with every position shifted
  by k - trees and failure positions alike - for every 0 <= k <= len(text), in every execution
  mode.  Characters before start_pos are never consulted."

  Proved for the interpreter model L1 and, independently (same proof structure, no appeal to
  C01), for the generated-code model LG; optimised grammars are grammars too (the
  optimizer-made nodes `skipUntil` / `optChoice` are node kinds of `Expr` and are covered), so
  "every execution mode" is: {L1, LG} × {any SOI-free rule table}.

  `SOIFree g`      no rule body of the table contains the `_SOI` node (the front end embeds the
                   built-in as `.rule "SOI" 2 true .soiB`; `soiFree` looks inside embedded rules).
  `ShiftRel k c c'` `c` is `c'` with position, position history and furthest-failure position
                   moved by `k` (the sentinel `-1` stays `-1`); all other components equal.
  `shiftL k ps`    `ps` with `k` added to every start/stop, at every depth.
  `ResRel k r r'`  same verdict (out of fuel / the same exception / matched / failed),
                   `ShiftRel`-related end states, `pairs = shiftL k pairs'`.
-/
import PestModel.Lemmas.Shift

namespace Pest
namespace C16

variable (g : Grammar) (inp : Input)

/-- **Shift invariance, every SOI-free expression, every pair of related states, equal fuel**
    (interpreter model).  Running on `inp` from a state whose positions are all `≥ k` is
    running on `inp[k:]` from the state moved back by `k`. -/
theorem shift_invariance (hg : SOIFree g) {k : Nat} (hk : k ≤ inp.size) (n : Nat) (e : Expr)
    (c c' : PState) (he : soiFree e = true) (s : ShiftRel k c c') :
    ResRel k (L1.run g inp n e c) (L1.run g (inp.extract k inp.size) n e c') :=
  run_shift g (shifted_extract hk) hg n e c c' he s

/-- the same for the generated-code model; the caller's list is threaded -/
theorem gen_shift_invariance (hg : SOIFree g) {k : Nat} (hk : k ≤ inp.size) (n : Nat) (e : Expr)
    (c c' : PState) (ps' : List Pair) (he : soiFree e = true) (s : ShiftRel k c c') :
    ResRelG k (LG.run g inp n e c (shiftL k ps')) (LG.run g (inp.extract k inp.size) n e c' ps') :=
  runG_shift g (shifted_extract hk) hg n e c c' ps' he s

/-- `Parser.parse(start, text, start_pos=k)` vs `Parser.parse(start, text[k:])`, as a relation -/
theorem parse_shift_rel (hg : SOIFree g) {k : Nat} (hk : k ≤ inp.size) (fuel : Nat) (start : String) :
    ResRel k (L1.parse g inp fuel start k) (L1.parse g (inp.extract k inp.size) fuel start 0) := by
  unfold L1.parse
  cases hl : g.lookup start with
  | none => rfl
  | some r =>
    have hi := shiftRel_init k 0
    rw [Nat.zero_add] at hi
    exact ruleParse_shift (run_shift g (shifted_extract hk) hg fuel) r.name r.mod r.body
      (hg r (lookup_mem hl)) hi

theorem gen_parse_shift_rel (hg : SOIFree g) {k : Nat} (hk : k ≤ inp.size) (fuel : Nat) (start : String) :
    ResRelG k (LG.parse g inp fuel start k) (LG.parse g (inp.extract k inp.size) fuel start 0) := by
  unfold LG.parse
  cases hl : g.lookup start with
  | none => rfl
  | some r =>
    simp only []
    by_cases hb : (r.kind == RuleKind.builtin && r.name != "EOI") = true
    · simp only [hb, ↓reduceIte]; rfl
    · simp only [hb, Bool.false_eq_true, ↓reduceIte]
      have hi := shiftRel_init k 0
      rw [Nat.zero_add] at hi
      have := ruleG_shift (runG_shift g (shifted_extract hk) hg fuel) r.name r.mod r.body
        (hg r (lookup_mem hl)) [] hi
      simpa only [shiftL] using this

/-- **C16 for `Parser.parse`, spelled out.**  Whatever parsing `text[k:]` at 0 gives, parsing
    `text` at `k` gives the same shifted by `k`: out of fuel together; the same exception
    (only `KeyError` for an undefined rule, by C03); the same tree with every span moved by
    `k`, ending `k` further; or failure with the furthest-failure position moved by `k`
    (both the sentinel `-1` when nothing was recorded) and the same expected / unexpected rule
    names and rule stack. -/
theorem parse_shift (hg : SOIFree g) {k : Nat} (hk : k ≤ inp.size) (fuel : Nat) (start : String) :
    match L1.parse g (inp.extract k inp.size) fuel start 0 with
    | .oof => L1.parse g inp fuel start k = .oof
    | .exc e => L1.parse g inp fuel start k = .exc e
    | .done true c' ps' =>
      ∃ c, L1.parse g inp fuel start k = .done true c (shiftL k ps') ∧ c.pos = c'.pos + k
    | .done false c' ps' =>
      ∃ c, L1.parse g inp fuel start k = .done false c (shiftL k ps') ∧
        ((c.fpos = -1 ∧ c'.fpos = -1) ∨ (0 ≤ c'.fpos ∧ c.fpos = c'.fpos + k)) ∧
        c.fexp = c'.fexp ∧ c.funexp = c'.funexp ∧ c.fstack = c'.fstack := by
  have h := parse_shift_rel g inp hg hk fuel start
  revert h
  cases L1.parse g inp fuel start k with
  | oof => intro h; simp only [ResRel] at h; simp only [h]
  | exc e => intro h; simp only [ResRel] at h; simp only [h]
  | done m c ps =>
    intro h
    obtain ⟨c', ps', e', s, hps⟩ := h
    simp only [e']
    cases m with
    | true => exact ⟨c, by rw [hps], s.pos⟩
    | false => exact ⟨c, by rw [hps], s.fp, s.fe, s.fu, s.fs⟩

/-- the same for the generated module's `parse()` -/
theorem gen_parse_shift (hg : SOIFree g) {k : Nat} (hk : k ≤ inp.size) (fuel : Nat) (start : String) :
    match LG.parse g (inp.extract k inp.size) fuel start 0 with
    | .oof => LG.parse g inp fuel start k = .oof
    | .exc e => LG.parse g inp fuel start k = .exc e
    | .done true c' ps' =>
      ∃ c, LG.parse g inp fuel start k = .done true c (shiftL k ps') ∧ c.pos = c'.pos + k
    | .done false c' ps' =>
      ∃ c, LG.parse g inp fuel start k = .done false c (shiftL k ps') ∧
        ((c.fpos = -1 ∧ c'.fpos = -1) ∨ (0 ≤ c'.fpos ∧ c.fpos = c'.fpos + k)) ∧
        c.fexp = c'.fexp ∧ c.funexp = c'.funexp ∧ c.fstack = c'.fstack := by
  have h := gen_parse_shift_rel g inp hg hk fuel start
  revert h
  cases LG.parse g inp fuel start k with
  | oof => intro h; simp only [ResRelG] at h; simp only [h]
  | exc e => intro h; simp only [ResRelG] at h; simp only [h]
  | done m c ps =>
    intro h
    obtain ⟨c', ps', e', s, hps⟩ := h
    simp only [e']
    cases m with
    | true => exact ⟨c, by rw [hps], s.pos⟩
    | false => exact ⟨c, by rw [hps], s.fp, s.fe, s.fu, s.fs⟩

/-! ### Characters before `start_pos` are never consulted -/

theorem resRel_left_unique {k : Nat} {r₁ r₂ r' : R1} (h₁ : ResRel k r₁ r') (h₂ : ResRel k r₂ r') :
    r₁ = r₂ := by
  cases r₁ with
  | oof =>
    simp only [ResRel] at h₁
    subst h₁
    cases r₂ with
    | oof => rfl
    | exc e => simp [ResRel] at h₂
    | done m c ps => obtain ⟨_, _, e, _⟩ := h₂; cases e
  | exc e =>
    simp only [ResRel] at h₁
    subst h₁
    cases r₂ with
    | oof => simp [ResRel] at h₂
    | exc e' => simp only [ResRel, R1.exc.injEq] at h₂; rw [h₂]
    | done m c ps => obtain ⟨_, _, e, _⟩ := h₂; cases e
  | done m c ps =>
    obtain ⟨c', ps', e₁, s₁, hp₁⟩ := h₁
    subst e₁
    cases r₂ with
    | oof => simp [ResRel] at h₂
    | exc e' => simp [ResRel] at h₂
    | done m₂ c₂ ps₂ =>
      obtain ⟨c₂', ps₂', e₂, s₂, hp₂⟩ := h₂
      simp only [R1.done.injEq] at e₂
      obtain ⟨rfl, rfl, rfl⟩ := e₂
      rw [s₁.left_unique s₂, hp₁, hp₂]

theorem resRelG_left_unique {k : Nat} {r₁ r₂ r' : RG} (h₁ : ResRelG k r₁ r') (h₂ : ResRelG k r₂ r') :
    r₁ = r₂ := by
  cases r₁ with
  | oof =>
    simp only [ResRelG] at h₁
    subst h₁
    cases r₂ with
    | oof => rfl
    | exc e => simp [ResRelG] at h₂
    | done m c ps => obtain ⟨_, _, e, _⟩ := h₂; cases e
  | exc e =>
    simp only [ResRelG] at h₁
    subst h₁
    cases r₂ with
    | oof => simp [ResRelG] at h₂
    | exc e' => simp only [ResRelG, RG.exc.injEq] at h₂; rw [h₂]
    | done m c ps => obtain ⟨_, _, e, _⟩ := h₂; cases e
  | done m c ps =>
    obtain ⟨c', ps', e₁, s₁, hp₁⟩ := h₁
    subst e₁
    cases r₂ with
    | oof => simp [ResRelG] at h₂
    | exc e' => simp [ResRelG] at h₂
    | done m₂ c₂ ps₂ =>
      obtain ⟨c₂', ps₂', e₂, s₂, hp₂⟩ := h₂
      simp only [RG.done.injEq] at e₂
      obtain ⟨rfl, rfl, rfl⟩ := e₂
      rw [s₁.left_unique s₂, hp₁, hp₂]

/-- **No look-behind.**  Two texts that agree from `k` on give *identical* results when parsed
    from `k`: same verdict, same tree, same final state — furthest-failure position, expected /
    unexpected names and all. -/
theorem no_lookbehind (hg : SOIFree g) (inp₁ inp₂ : Input) {k : Nat} (h₁ : k ≤ inp₁.size)
    (h₂ : k ≤ inp₂.size) (hsuf : inp₁.extract k inp₁.size = inp₂.extract k inp₂.size)
    (fuel : Nat) (start : String) :
    L1.parse g inp₁ fuel start k = L1.parse g inp₂ fuel start k := by
  have a := parse_shift_rel g inp₁ hg h₁ fuel start
  have b := parse_shift_rel g inp₂ hg h₂ fuel start
  rw [hsuf] at a
  exact resRel_left_unique a b

theorem gen_no_lookbehind (hg : SOIFree g) (inp₁ inp₂ : Input) {k : Nat} (h₁ : k ≤ inp₁.size)
    (h₂ : k ≤ inp₂.size) (hsuf : inp₁.extract k inp₁.size = inp₂.extract k inp₂.size)
    (fuel : Nat) (start : String) :
    LG.parse g inp₁ fuel start k = LG.parse g inp₂ fuel start k := by
  have a := gen_parse_shift_rel g inp₁ hg h₁ fuel start
  have b := gen_parse_shift_rel g inp₂ hg h₂ fuel start
  rw [hsuf] at a
  exact resRelG_left_unique a b

/-- the prefix can be replaced by anything of the same length -/
theorem prefix_irrelevant (hg : SOIFree g) (pre₁ pre₂ suffix : List CP) (hlen : pre₁.length = pre₂.length)
    (fuel : Nat) (start : String) :
    L1.parse g (pre₁ ++ suffix).toArray fuel start pre₁.length
      = L1.parse g (pre₂ ++ suffix).toArray fuel start pre₁.length := by
  apply no_lookbehind g hg
  · simp
  · simp; omega
  · apply Array.ext'
    simp [hlen]

/-! ### Non-vacuity -/

/-- trivia, a tag, an embedded built-in, the stack, a predicate, an optimizer-made node -/
def demoG : Grammar :=
  { rules := [⟨"r", 0, .seq [.push (.ident "w" (some "t")), .rep (.rule "ASCII_DIGIT" 2 true (.range 48 57)),
                              .notP (.str [33]), .pop, .ident "EOI" none], .grammar⟩,
              ⟨"w", 0, .choice [.str [120], .optChoice [.lit [121] false, .lit [122, 122] true] false], .grammar⟩,
              ⟨"EOI", 0, .eoiB, .builtin⟩,
              ⟨"WHITESPACE", SILENT, .str [32], .grammar⟩] }

example : SOIFree demoG := (soiFreeG_iff demoG).1 (by decide)

mutual
def spans : Pair → List (String × Nat × Nat × Option String)
  | .mk n _ s e ch t => (n, s, e, t) :: spansL ch
def spansL : List Pair → List (String × Nat × Nat × Option String)
  | [] => []
  | p :: ps => spans p ++ spansL ps
end

/-- Boolean reading of `parse_shift` on a concrete pair of results -/
def shiftedOk (k : Nat) : R1 → R1 → Bool
  | .done true c ps, .done true c' ps' =>
    c.pos == c'.pos + k && spansL ps == (spansL ps').map (fun (n, s, e, t) => (n, s + k, e + k, t))
      && ps'.length == 1
  | _, _ => false

def shiftedFail (k : Nat) (f : Int) : R1 → R1 → Bool
  | .done false c _, .done false c' _ => c.fpos == c'.fpos + k && c.fexp == c'.fexp && c'.fpos == f
  | _, _ => false

def shiftedOkG (k : Nat) : RG → RG → Bool
  | .done true c ps, .done true c' ps' =>
    c.pos == c'.pos + k && spansL ps == (spansL ps').map (fun (n, s, e, t) => (n, s + k, e + k, t))
      && ps'.length == 1
  | _, _ => false

-- text "??x 1 2 x", start_pos 2: matches to the end, three pairs (r, w tagged t, EOI) shifted by 2
example : shiftedOk 2 (L1.parse demoG #[63, 63, 120, 32, 49, 32, 50, 32, 120] 30 "r" 2)
    (L1.parse demoG (#[63, 63, 120, 32, 49, 32, 50, 32, 120].extract 2 9) 30 "r" 0) = true := by
  decide +kernel
example : shiftedOkG 2 (LG.parse demoG #[63, 63, 120, 32, 49, 32, 50, 32, 120] 30 "r" 2)
    (LG.parse demoG (#[63, 63, 120, 32, 49, 32, 50, 32, 120].extract 2 9) 30 "r" 0) = true := by
  decide +kernel
-- text "??x 1!": fails, furthest failure at 3 in the suffix and at 5 in the text
example : shiftedFail 2 3 (L1.parse demoG #[63, 63, 120, 32, 49, 33] 30 "r" 2)
    (L1.parse demoG (#[63, 63, 120, 32, 49, 33].extract 2 6) 30 "r" 0) = true := by
  decide +kernel
-- k = len(text): empty suffix, both fail at the (shifted) start
example : shiftedFail 2 0 (L1.parse demoG #[63, 63] 30 "r" 2)
    (L1.parse demoG (#[63, 63].extract 2 2) 30 "r" 0) = true := by
  decide +kernel

/-- the hypothesis is needed: with SOI the two runs differ -/
def soiG : Grammar :=
  { rules := [⟨"r", 0, .seq [.rule "SOI" 2 true .soiB, .str [120]], .grammar⟩] }

def verdict : R1 → Option Bool
  | .done m _ _ => some m
  | _ => none

example : soiFreeG soiG = false := by decide
example : verdict (L1.parse soiG #[63, 120] 10 "r" 1) = some false
    ∧ verdict (L1.parse soiG (#[63, 120].extract 1 2) 10 "r" 0) = some true := by
  decide +kernel

end C16
end Pest
