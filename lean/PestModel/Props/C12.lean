/-
  Props/C12.lean — property C12 (character terminals; the escape clause is in Props/C12Escapes.lean,
  imported here so that this one module carries every C12 obligation):
  "Every character range 'a'..'b', single-character literal, ASCII_* / NEWLINE / ANY built-in
   and every character class the optimizer merges them into accepts exactly the code points
   its definition specifies — no more (ranges are case sensitive) and no fewer — for all
   1,114,112 code points, identically in the interpreter, the optimized interpreter and
   generated code; case-insensitive literals over ASCII letters accept exactly the ASCII case
   variants of ASCII input, and every built-in Unicode property rule accepts the same code
   points in all execution modes."

  What is proved here, for *all* code points / inputs / lists (no enumeration of `c`):
    · the tables regenerated from rules/ascii.py (`Generated/AsciiTables.lean`) denote the sets
      pest defines (`ascii_tables_spec`), the rule objects were built from that table
      (`ascii_rules_built_from_map`), NEWLINE is "\n" | "\r\n" | "\r" in that order and means
      what pest says, also after squashing (`newline_spec`, `newline_opt_spec`);
    · `_optimize_char_class` keeps the set (`merge_char_class_spec`), its output is sorted,
      disjoint and non-adjacent (`merged_ranges_disjoint_sorted`), the kept singles are sorted,
      distinct and uncovered (`kept_singles_spec`), the written pieces denote the same set
      (`class_pieces_spec`);
    · the class `build_optimized_pattern` writes for a list of alternatives accepts what
      `L1.classAccepts` says (`class_pattern_spec`), and the squashed choice matches one
      character iff some alternative, run as the interpreter runs it, does (`squash_set_spec`):
      interp = opt on character choices;
    · `Range` is the same case-sensitive set in the interpreter model and in the generated-code
      model (`range_case_sensitive`, `range_modes_agree`); ANY accepts every code point (`any_spec`);
    · `^"…"` accepts exactly the ASCII case variants (`ci_ascii_spec`, `ci_modes_agree`);
    · Unicode property rules: one lookup in every mode (`unicode_rule_same_pattern`) and every
      pattern of the regenerated table is `\p{…}` with a name made of letters, digits, `_`, `=`
      (`unicode_patterns_wellformed`).
  What is *not* proved here and is closed by the exhaustive sweep of harness/eng_charset.py:
  what the `regex` engine accepts for a class string `[…]`, for `re.I`, for `\p{…}` under
  VERSION0 / VERSION1 — see the engine's `assumptions`.
-/
import PestModel.Lemmas.CharSet
import PestModel.CharClass
import PestModel.Interp
import PestModel.Gen
import PestModel.Opt
import PestModel.Generated.AsciiTables
import PestModel.Props.C12Escapes

namespace Pest
namespace C12
open CharSet Generated

/-! ### the ASCII tables -/

/-- **C12, ASCII built-ins.**  The regenerated `ASCII_RULE_MAP` has exactly pest's ten names,
    and for every entry and *every* code point `c`, membership in the written intervals is the
    definition of that built-in. -/
theorem ascii_tables_spec :
    asciiRuleMap.map (·.1) = specNames ∧
    ∀ e ∈ asciiRuleMap, ∀ c, ivMem e.2 c = true ↔ specOf e.1 c := by
  refine ⟨rfl, ?_⟩
  intro e he c
  simp only [asciiRuleMap, List.mem_cons, List.mem_nil_iff, or_false] at he
  repeat' (rcases he with rfl | he)
  all_goals (try subst he)
  all_goals
    simp [specOf, ivMem, inIv, specAsciiDigit, specAsciiNonzeroDigit, specAsciiBinDigit,
      specAsciiOctDigit, specAsciiHexDigit, specAsciiAlphaLower, specAsciiAlphaUpper,
      specAsciiAlpha, specAsciiAlphanumeric, specAscii]
  all_goals omega

/-- the rule objects `ASCII_RULES[name]` (a `Range` or a `Choice` of `Range`s) carry exactly
    the intervals of `ASCII_RULE_MAP`, in the same order -/
theorem ascii_rules_built_from_map : asciiRuleExprs = asciiRuleMap := rfl

/-- the body of `ANY` is the `_Any` node (whose model is `Expr.anyB`) -/
theorem any_body : anyBody = "_Any" := rfl

/-! ### NEWLINE -/

theorem getElem?_some_lt {inp : Input} {pos : Nat} {d : CP} (h : inp[pos]? = some d) :
    pos < inp.size := by
  rcases Nat.lt_or_ge pos inp.size with h1 | h1
  · exact h1
  · rw [Array.getElem?_eq_none h1] at h; cases h

theorem startsWithAt_one (inp : Input) (x : CP) (pos : Nat) :
    startsWithAt inp [x] pos = (inp[pos]? == some x) := by
  simp only [startsWithAt]
  cases h : inp[pos]? with
  | none => simp
  | some d =>
    have := getElem?_some_lt h
    simp; omega

theorem startsWithAt_two (inp : Input) (x y : CP) (pos : Nat) :
    startsWithAt inp [x, y] pos = (inp[pos]? == some x && inp[pos + 1]? == some y) := by
  have h1 := startsWithAt_one inp y (pos + 1)
  simp only [startsWithAt] at h1 ⊢
  rw [h1]
  cases inp[pos]? <;> simp

theorem find?_cons_ite {α} (p : α → Bool) (a : α) (l : List α) :
    (a :: l).find? p = if p a = true then some a else l.find? p := by
  simp only [List.find?]; cases p a <;> rfl

/-- **C12, NEWLINE.**  The regenerated alternatives are LF, CR LF, CR in this order, and for
    every input and position the ordered choice over them is pest's NEWLINE (in particular
    CR LF is taken as one line break: `"\r"` does not come before `"\r\n"`). -/
theorem newline_spec :
    newlineAlts = [[10], [13, 10], [13]] ∧
    ∀ (inp : Input) (pos : Nat), matchFirst inp newlineAlts pos = specNewline inp pos := by
  refine ⟨rfl, ?_⟩
  intro inp pos
  simp only [matchFirst, newlineAlts, find?_cons_ite, List.find?_nil, startsWithAt_one,
    startsWithAt_two, specNewline]
  rcases inp[pos]? with _ | d
  · simp
  · by_cases h10 : d = 10
    · subst h10; simp
    · by_cases h13 : d = 13
      · subst h13
        rcases inp[pos + 1]? with _ | d1
        · simp
        · by_cases h : d1 = 10
          · subst h; simp
          · simp [h]
      · simp [h10, h13]


/-- the same after `squash_choice`: the pattern `(?:\r\n|[\n\r])` (multi-character literals
    first, then the class), as modelled by `L1.optMatchOnce`, is still pest's NEWLINE -/
theorem newline_opt_spec (g : Grammar) (inp : Input) (pos : Nat) :
    L1.optMatchOnce g inp (newlineAlts.map (Alt.lit · false)) pos = specNewline inp pos := by
  have hs : startsWithAt inp [13, 10] pos = (inp[pos]? == some 13 && inp[pos + 1]? == some 10) :=
    startsWithAt_two inp 13 10 pos
  simp only [L1.optMatchOnce, newlineAlts, List.map, List.filterMap, List.length, Nat.zero_add,
    Nat.reduceAdd, ne_eq, Nat.reduceEqDiff, not_true_eq_false, not_false_eq_true, if_true, if_false,
    find?_cons_ite, List.find?_nil, hs, List.any, specNewline, L1.classAccepts]
  rcases inp[pos]? with _ | d
  · simp
  · by_cases h10 : d = 10
    · subst h10; simp
    · by_cases h13 : d = 13
      · subst h13
        rcases inp[pos + 1]? with _ | d1
        · simp
        · by_cases h : d1 = 10
          · subst h; simp
          · simp [h]
      · have e1 : (10 == d) = false := by rw [beq_eq_false_iff_ne]; exact fun e => h10 e.symm
        have e2 : (13 == d) = false := by rw [beq_eq_false_iff_ne]; exact fun e => h13 e.symm
        simp [h10, h13, e1, e2]

/-! ### `_optimize_char_class` -/

/-- **C12, merging keeps the set.**  For all lists of single characters and ranges (bounds in
    either order, overlapping, adjacent, repeated — anything) and every code point `c`: the
    class `_optimize_char_class` writes accepts `c` iff `c` is one of the singles or lies in
    one of the ranges.  (`s > last.hi + 1` is the merge test: with `+ 2` a code point between
    two ranges would be added, which this theorem excludes.) -/
theorem merge_char_class_spec (singles : List Nat) (ranges : List Iv) (c : Nat) :
    classMem (mergeCharClass singles ranges) c = true ↔
      c ∈ singles ∨ ∃ r ∈ ranges, min r.1 r.2 ≤ c ∧ c ≤ max r.1 r.2 := by
  simp only [classMem, mergeCharClass, Bool.or_eq_true, List.contains_iff_mem, mem_sortDedup,
    List.mem_filter, ivMem_mergeRanges, ← ivMem_map_normRange]
  cases ivMem (ranges.map normRange) c <;> simp

/-- **C12, shape of the merged class.**  The merged ranges are non-empty, strictly increasing
    and separated by at least one code point (no two overlap or touch): for every pair `x`
    before `y`, `x.hi + 1 < y.lo`. -/
theorem merged_ranges_disjoint_sorted (singles : List Nat) (ranges : List Iv) :
    (∀ r ∈ (mergeCharClass singles ranges).2, r.1 ≤ r.2) ∧
    (mergeCharClass singles ranges).2.Pairwise (fun x y => x.2 + 1 < y.1) :=
  separated_pairwise (separated_mergeRanges ranges)

/-- the kept singles are strictly increasing (sorted, no duplicates), come from the input and
    none of them is covered by a merged range -/
theorem kept_singles_spec (singles : List Nat) (ranges : List Iv) :
    (mergeCharClass singles ranges).1.Pairwise (· < ·) ∧
    ∀ x ∈ (mergeCharClass singles ranges).1,
      x ∈ singles ∧ ivMem (mergeCharClass singles ranges).2 x = false := by
  refine ⟨pairwise_sortDedup _, ?_⟩
  intro x hx
  simp only [mergeCharClass, mem_sortDedup, List.mem_filter] at hx ⊢
  simpa using hx

/-- the members written between `[` and `]` (`x` for a one-point range) denote the class -/
theorem class_pieces_spec (singles : List Nat) (ranges : List Iv) (c : Nat) :
    piecesMem (pieces (mergeCharClass singles ranges)) c = classMem (mergeCharClass singles ranges) c :=
  piecesMem_pieces _ (merged_ranges_disjoint_sorted singles ranges).1 c

/-- the off-by-one boundary, concretely: 'a'..'c' and 'd'..'f' merge into a-f; 'a'..'c' and
    'e'..'f' do not, and 'd' stays out -/
example : mergeCharClass [] [(97, 99), (100, 102)] = ([], [(97, 102)]) := by decide
example : mergeCharClass [] [(97, 99), (101, 102)] = ([], [(97, 99), (101, 102)]) := by decide
example : classMem (mergeCharClass [] [(97, 99), (101, 102)]) 100 = false := by decide
example : mergeCharClass [100, 98, 100] [(102, 101), (97, 99)] = ([100], [(97, 99), (101, 102)]) := by decide

/-! ### the class `build_optimized_pattern` writes -/

theorem classAccepts_cons (a : Alt) (alts : List Alt) (c : CP) :
    L1.classAccepts (a :: alts) c = (L1.classAccepts [a] c || L1.classAccepts alts c) := by
  simp [L1.classAccepts]

/-- **C12, the written class is the modelled class.**  For every list of alternatives and
    every code point, the class string `build_optimized_pattern` writes (kept singles + merged
    ranges, compared piece by piece with the real pattern by the correspondence run) accepts
    `c` iff `L1.classAccepts` — the definition the optimised-interpreter model uses — does. -/
theorem class_pattern_spec (alts : List Alt) (c : CP) :
    classMem (buildClass alts) c = L1.classAccepts alts c := by
  rw [Bool.eq_iff_iff, buildClass, merge_char_class_spec]
  induction alts with
  | nil => simp [classSingles, classRanges, L1.classAccepts]
  | cons a alts ih =>
    rw [classAccepts_cons, Bool.or_eq_true, ← ih]
    cases a with
    | uprop n => simp [classSingles, classRanges, L1.classAccepts]
    | range a b =>
      simp only [classSingles, classRanges, List.mem_cons, L1.inRange, Bool.and_eq_true,
        decide_eq_true_eq, L1.classAccepts, List.any_cons, List.any_nil, Bool.or_false]
      constructor
      · rintro (h | ⟨r, hr | hr, h⟩)
        · exact Or.inr (Or.inl h)
        · subst hr; exact Or.inl h
        · exact Or.inr (Or.inr ⟨r, hr, h⟩)
      · rintro (h | h | ⟨r, hr, h⟩)
        · exact Or.inr ⟨(a, b), Or.inl rfl, h⟩
        · exact Or.inl h
        · exact Or.inr ⟨r, Or.inr hr, h⟩
    | lit s ci =>
      match s, ci with
      | [], _ => simp [classSingles, classRanges, L1.classAccepts]
      | _ :: _ :: _, _ => simp [classSingles, classRanges, L1.classAccepts]
      | [x], false =>
        simp only [classSingles, classRanges, List.mem_cons, beq_iff_eq, L1.classAccepts, List.any_cons, List.any_nil, Bool.or_false]
        constructor
        · rintro ((h | h) | h)
          · exact Or.inl h.symm
          · exact Or.inr (Or.inl h)
          · exact Or.inr (Or.inr h)
        · rintro (h | h | h)
          · exact Or.inl (Or.inl h.symm)
          · exact Or.inl (Or.inr h)
          · exact Or.inr h
      | [x], true =>
        simp only [classSingles, classRanges, List.mem_cons, beq_iff_eq, Bool.or_eq_true, L1.classAccepts, List.any_cons, List.any_nil, Bool.or_false]
        constructor
        · rintro ((h | h | h) | h)
          · exact Or.inl (Or.inl h.symm)
          · exact Or.inl (Or.inr h.symm)
          · exact Or.inr (Or.inl h)
          · exact Or.inr (Or.inr h)
        · rintro ((h | h) | h | h)
          · exact Or.inl (Or.inl h.symm)
          · exact Or.inl (Or.inr (Or.inl h.symm))
          · exact Or.inl (Or.inr (Or.inr h))
          · exact Or.inr h

/-! ### squashed character choices: interp = opt -/

/-- an alternative that matches exactly one character: `"x"`, `^"x"`, or `'a'..'b'` with
    `a ≤ b` (`Range('b', 'a')` cannot be constructed: the class `[b-a]` does not compile) -/
def SingleAlt : Alt → Prop
  | .lit [_] _ => True
  | .range a b => a ≤ b
  | _ => False

/-- the alternative run on its own, as the interpreter runs the node it was collected from:
    `String.parse` (`startswith`), `CIString.parse`, `Range.parse`, a Unicode property rule —
    the terminal cases of `L1.step` -/
def altMatchesAt (g : Grammar) (inp : Input) (pos : Nat) : Alt → Bool
  | .lit s false => startsWithAt inp s pos
  | .lit s true => startsWithAtCI inp s pos
  | .range a b => match inp[pos]? with | some x => L1.inRange a b x | none => false
  | .uprop n => match inp[pos]? with | some x => g.uprop n x | none => false

theorem startsWithAtCI_one (inp : Input) (x : CP) (pos : Nat) :
    startsWithAtCI inp [x] pos =
      (match inp[pos]? with | some d => asciiLower d == asciiLower x | none => false) := by
  simp only [startsWithAtCI]
  cases h : inp[pos]? with
  | none => simp
  | some d =>
    have := getElem?_some_lt h
    simp; omega

/-- ASCII folding: `c` folds to the same letter as `x` iff `c` is `x.upper()` or `x.lower()` -/
theorem asciiLower_eq_iff (x c : Nat) :
    asciiLower c = asciiLower x ↔ (L1.asciiUpper x = c ∨ asciiLower x = c) := by
  unfold asciiLower L1.asciiUpper CP
  simp only [Bool.and_eq_true, decide_eq_true_eq]
  split <;> split <;> split <;> omega

theorem classAccepts_iff (alts : List Alt) (c : CP) :
    L1.classAccepts alts c = true ↔ ∃ a ∈ alts, L1.classAccepts [a] c = true := by
  induction alts with
  | nil => simp [L1.classAccepts]
  | cons a alts ih =>
    rw [classAccepts_cons, Bool.or_eq_true, ih]
    simp

/-- for a one-character alternative the class test is the alternative's own test -/
theorem single_accepts (g : Grammar) (inp : Input) (pos : Nat) (c : CP) (hc : inp[pos]? = some c)
    (a : Alt) (ha : SingleAlt a) :
    L1.classAccepts [a] c = altMatchesAt g inp pos a := by
  cases a with
  | uprop n => exact absurd ha (by simp [SingleAlt])
  | range lo hi =>
    have hle : lo ≤ hi := ha
    simp only [L1.classAccepts, List.any_cons, List.any_nil, Bool.or_false, altMatchesAt, hc,
      Nat.min_eq_left hle, Nat.max_eq_right hle]
  | lit s ci =>
    match s, ci, ha with
    | [x], false, _ =>
      simp only [L1.classAccepts, List.any_cons, List.any_nil, Bool.or_false, altMatchesAt,
        startsWithAt_one, hc]
      rw [Bool.eq_iff_iff]; simp only [beq_iff_eq, Option.some.injEq]; exact eq_comm
    | [x], true, _ =>
      simp only [L1.classAccepts, List.any_cons, List.any_nil, Bool.or_false, altMatchesAt,
        startsWithAtCI_one, hc]
      rw [Bool.eq_iff_iff, Bool.or_eq_true, beq_iff_eq, beq_iff_eq, beq_iff_eq, asciiLower_eq_iff]

theorem optMatchOnce_singles (g : Grammar) (inp : Input) (alts : List Alt)
    (h : ∀ a ∈ alts, SingleAlt a) (pos : Nat) :
    L1.optMatchOnce g inp alts pos =
      match inp[pos]? with
      | none => none
      | some c => if L1.classAccepts alts c then some (pos + 1) else none := by
  have key : ∀ {β} (f : Alt → Option β), (∀ a, SingleAlt a → f a = none) → alts.filterMap f = [] := by
    intro β f hf
    rw [List.filterMap_eq_nil_iff]
    exact fun a ha => hf a (h a ha)
  have e4 : ∀ (p : Alt → Bool), (∀ a, SingleAlt a → p a = true) → ∀ c,
      L1.classAccepts alts c = true → alts.any p = true := by
    intro p hp c hc
    rw [classAccepts_iff] at hc
    obtain ⟨a, ha, _⟩ := hc
    rw [List.any_eq_true]
    exact ⟨a, ha, hp a (h a ha)⟩
  simp only [L1.optMatchOnce]
  rw [key _ (by intro a ha; match a, ha with | .lit [_] true, _ => rfl | .lit [_] false, _ => rfl | .range _ _, _ => rfl),
      key _ (by intro a ha; match a, ha with | .lit [_] true, _ => rfl | .lit [_] false, _ => rfl | .range _ _, _ => rfl),
      key _ (by intro a ha; match a, ha with | .lit [_] true, _ => rfl | .lit [_] false, _ => rfl | .range _ _, _ => rfl)]
  simp only [List.find?_nil, List.any_nil]
  cases hc : inp[pos]? with
  | none => rfl
  | some c =>
    simp only [Bool.false_eq_true, if_false]
    by_cases hcl : L1.classAccepts alts c = true
    · rw [e4 _ (by intro a ha; match a, ha with | .lit [_] true, _ => rfl | .lit [_] false, _ => rfl | .range _ _, _ => rfl) c hcl]
      simp [hcl]
    · simp [hcl]

/-- **C12, interp = opt on character choices.**  For a choice made only of one-character
    literals, one-character case-insensitive literals and ranges, and for every input and
    position (so for every code point at once): the squashed `OptimizedChoice` matches, and then
    consumes exactly one character, iff some alternative, run as the interpreter runs it,
    matches there. -/
theorem squash_set_spec (g : Grammar) (inp : Input) (alts : List Alt)
    (h : ∀ a ∈ alts, SingleAlt a) (pos : Nat) :
    L1.optMatchOnce g inp alts pos = some (pos + 1) ↔ ∃ a ∈ alts, altMatchesAt g inp pos a = true := by
  rw [optMatchOnce_singles g inp alts h]
  cases hc : inp[pos]? with
  | none =>
    simp only [reduceCtorEq, false_iff, not_exists, not_and]
    intro a ha
    have := h a ha
    match a, this with
    | .lit [x] true, _ => simp [altMatchesAt, startsWithAtCI_one, hc]
    | .lit [x] false, _ => simp [altMatchesAt, startsWithAt_one, hc]
    | .range _ _, _ => simp [altMatchesAt, hc]
  | some c =>
    simp only
    constructor
    · intro hm
      have hcl : L1.classAccepts alts c = true := by
        by_cases hcl : L1.classAccepts alts c = true
        · exact hcl
        · simp [hcl] at hm
      obtain ⟨a, ha, hacc⟩ := (classAccepts_iff alts c).mp hcl
      exact ⟨a, ha, by rw [← single_accepts g inp pos c hc a (h a ha)]; exact hacc⟩
    · rintro ⟨a, ha, hm⟩
      have : L1.classAccepts alts c = true :=
        (classAccepts_iff alts c).mpr ⟨a, ha, by rw [single_accepts g inp pos c hc a (h a ha)]; exact hm⟩
      simp [this]

/-- … and otherwise it fails: there is no third outcome (no longer or shorter match) -/
theorem squash_set_total (g : Grammar) (inp : Input) (alts : List Alt)
    (h : ∀ a ∈ alts, SingleAlt a) (pos : Nat) :
    L1.optMatchOnce g inp alts pos = some (pos + 1) ∨ L1.optMatchOnce g inp alts pos = none := by
  rw [optMatchOnce_singles g inp alts h]
  cases inp[pos]? with
  | none => exact Or.inr rfl
  | some c =>
    by_cases hcl : L1.classAccepts alts c = true
    · left; simp [hcl]
    · right; simp [hcl]

/-! ### Range, ANY: the same set in the interpreter and in generated code -/

def R1.ok : R1 → Bool | .done true _ _ => true | _ => false
def RG.ok : RG → Bool | .done true _ _ => true | _ => false

theorem failT_not_ok (c : PState) : R1.ok (L1.failT c) = false := by
  unfold L1.failT; cases c.fail none false <;> rfl

theorem failTG_not_ok (c : PState) (ps : List Pair) : RG.ok (LG.failT c ps) = false := by
  unfold LG.failT; cases c.fail none false <;> rfl

/-- **C12, ranges are case sensitive.**  The `Range` model accepts `c` iff `a ≤ c ≤ b` as code
    points, nothing else: no case folding. -/
theorem range_case_sensitive (a b c : CP) : L1.inRange a b c = true ↔ a ≤ c ∧ c ≤ b := by
  simp [L1.inRange]

/-- 'B' is not in 'a'..'c' (what `re.I` on the generated class got wrong), nor 'b' in 'A'..'C' -/
example : L1.inRange 97 99 66 = false := by decide
example : L1.inRange 65 67 98 = false := by decide
example : L1.inRange 97 99 98 = true := by decide

/-- **C12, `Range` in interpreter and generated code.**  Both `Range.parse` and the code
    `Range.generate` emits succeed at a position iff the code point there lies in `a..b`; on
    success both consume exactly that one code point. -/
theorem range_modes_agree (g : Grammar) (inp : Input) (k : Nat) (rec : Sem1) (recG : SemG)
    (a b : CP) (c : PState) (ps : List Pair) :
    (R1.ok (L1.step g inp k rec (.range a b) c) = true ↔ ∃ x, inp[c.pos]? = some x ∧ a ≤ x ∧ x ≤ b) ∧
    (RG.ok (LG.step g inp k recG (.range a b) c ps) = true ↔ ∃ x, inp[c.pos]? = some x ∧ a ≤ x ∧ x ≤ b) ∧
    (∀ c' ps', L1.step g inp k rec (.range a b) c = .done true c' ps' → c'.pos = c.pos + 1) ∧
    (∀ c' ps', LG.step g inp k recG (.range a b) c ps = .done true c' ps' → c'.pos = c.pos + 1) := by
  simp only [L1.step, LG.step]
  cases hx : inp[c.pos]? with
  | none =>
    simp only [failT_not_ok, failTG_not_ok]
    refine ⟨by simp, by simp, ?_, ?_⟩
    · intro c' ps' h; have := failT_not_ok c; rw [h] at this; cases this
    · intro c' ps' h; have := failTG_not_ok c ps; rw [h] at this; cases this
  | some x =>
    by_cases hr : L1.inRange a b x = true
    · have hab := (range_case_sensitive a b x).mp hr
      simp only [hr, if_true, R1.ok, RG.ok]
      refine ⟨by simpa using hab, by simpa using hab, ?_, ?_⟩
      · intro c' ps' h; cases h; rfl
      · intro c' ps' h; cases h; rfl
    · have hab : ¬ (a ≤ x ∧ x ≤ b) := fun h => hr ((range_case_sensitive a b x).mpr h)
      have hr' : L1.inRange a b x = false := by simpa using hr
      simp only [hr', Bool.false_eq_true, if_false, failT_not_ok, failTG_not_ok]
      refine ⟨?_, ?_, ?_, ?_⟩
      · constructor
        · intro h; cases h
        · rintro ⟨y, hy, h⟩; cases hy; exact absurd h hab
      · constructor
        · intro h; cases h
        · rintro ⟨y, hy, h⟩; cases hy; exact absurd h hab
      · intro c' ps' h; have := failT_not_ok c; rw [h] at this; cases this
      · intro c' ps' h; have := failTG_not_ok c ps; rw [h] at this; cases this

/-- **C12, ANY.**  The body of ANY accepts every code point, astral ones included: it succeeds
    iff the position is inside the input and consumes one element, in both models. -/
theorem any_spec (g : Grammar) (inp : Input) (k : Nat) (rec : Sem1) (recG : SemG)
    (c : PState) (ps : List Pair) :
    (R1.ok (L1.step g inp k rec .anyB c) = true ↔ c.pos < inp.size) ∧
    (RG.ok (LG.step g inp k recG .anyB c ps) = true ↔ c.pos < inp.size) := by
  simp only [L1.step, LG.step]
  by_cases h : c.pos < inp.size <;> simp [h, R1.ok, RG.ok]

/-! ### case-insensitive literals -/

/-- `c` is an ASCII case variant of `x`: `x` itself, or the other case of an ASCII letter -/
def CaseVariant (x c : Nat) : Prop :=
  c = x ∨ (65 ≤ x ∧ x ≤ 90 ∧ c = x + 32) ∨ (97 ≤ x ∧ x ≤ 122 ∧ c + 32 = x)

theorem asciiLower_eq_iff_variant (x c : Nat) : asciiLower c = asciiLower x ↔ CaseVariant x c := by
  unfold asciiLower CaseVariant CP
  simp only [Bool.and_eq_true, decide_eq_true_eq]
  split <;> split <;> omega

/-- a character that is not an ASCII letter has no other variant; an ASCII letter has exactly
    its two cases -/
theorem caseVariant_nonletter {x : Nat} (h : ¬ specAsciiAlpha x) (c : Nat) : CaseVariant x c ↔ c = x := by
  unfold specAsciiAlpha specAsciiAlphaLower specAsciiAlphaUpper at h
  unfold CaseVariant; omega

theorem caseVariant_iff (x c : Nat) :
    CaseVariant x c ↔ (c = L1.asciiUpper x ∨ c = asciiLower x) := by
  rw [← asciiLower_eq_iff_variant, asciiLower_eq_iff]
  constructor <;> (rintro (h | h) <;> simp [h])

/-- **C12, case-insensitive literals.**  `^"lit"` matches at `pos` iff the input has at least
    `len(lit)` more characters and each of them is an ASCII case variant of the corresponding
    character of the literal — for ASCII letters exactly the two cases, for everything else the
    character itself.  (Stated for all inputs; the *code* is claimed to agree with this model
    on ASCII input only: `re.I` also folds U+212A and U+017F onto `k`, `s`.) -/
theorem ci_ascii_spec (inp : Input) (lit : Str) (pos : Nat) :
    startsWithAtCI inp lit pos = true ↔
      pos + lit.length ≤ inp.size ∧
      ∀ i (_ : i < lit.length), ∃ d, inp[pos + i]? = some d ∧ CaseVariant lit[i] d := by
  induction lit generalizing pos with
  | nil => simp [startsWithAtCI]
  | cons x rest ih =>
    simp only [startsWithAtCI, Bool.and_eq_true, ih, List.length_cons]
    constructor
    · rintro ⟨h0, hlen, hrest⟩
      refine ⟨by omega, ?_⟩
      intro i hi
      cases i with
      | zero =>
        cases hd : inp[pos]? with
        | none => rw [hd] at h0; cases h0
        | some d =>
          rw [hd] at h0
          exact ⟨d, by simp, (asciiLower_eq_iff_variant x d).mp (by simpa using h0)⟩
      | succ j =>
        obtain ⟨d, hd, hv⟩ := hrest j (by omega)
        exact ⟨d, by rw [← hd]; congr 1; omega, by simpa using hv⟩
    · rintro ⟨hlen, hall⟩
      refine ⟨?_, by omega, ?_⟩
      · obtain ⟨d, hd, hv⟩ := hall 0 (by omega)
        have hd' : inp[pos]? = some d := by simpa using hd
        rw [hd']
        simpa using (asciiLower_eq_iff_variant x d).mpr (by simpa using hv)
      · intro j hj
        obtain ⟨d, hd, hv⟩ := hall (j + 1) (by omega)
        exact ⟨d, by rw [← hd]; congr 1; omega, by simpa using hv⟩

/-- known finding `ci-nonascii-fold` (known_findings.txt): by pest's definition — ASCII folding, which
    is what this model and the squashed class implement — `^"k"` rejects U+212A KELVIN SIGN and `^"s"`
    rejects U+017F; the interpreter's and the generated code's `re.I` accept them.  Outside the
    property's clause ("ASCII case variants of ASCII input"), recorded because the modes differ there. -/
theorem finding_ci_nonascii_fold :
    startsWithAtCI #[8490] [107] 0 = false ∧ L1.classAccepts [.lit [107] true] 8490 = false ∧
    startsWithAtCI #[383] [115] 0 = false := by decide

/-- `CIString.parse` and the code `CIString.generate` emits succeed on the same inputs -/
theorem ci_modes_agree (g : Grammar) (inp : Input) (k : Nat) (rec : Sem1) (recG : SemG)
    (s : Str) (c : PState) (ps : List Pair) :
    (R1.ok (L1.step g inp k rec (.ci s) c) = true ↔ startsWithAtCI inp s c.pos = true) ∧
    (RG.ok (LG.step g inp k recG (.ci s) c ps) = true ↔ startsWithAtCI inp s c.pos = true) := by
  simp only [L1.step, LG.step]
  by_cases h : startsWithAtCI inp s c.pos = true
  · simp [h, R1.ok, RG.ok]
  · have h' : startsWithAtCI inp s c.pos = false := by simpa using h
    simp [h', failT_not_ok, failTG_not_ok]

/-- single-character literals: `String.parse` / its generated code accept exactly that code point -/
theorem literal_modes_agree (g : Grammar) (inp : Input) (k : Nat) (rec : Sem1) (recG : SemG)
    (x : CP) (c : PState) (ps : List Pair) :
    (R1.ok (L1.step g inp k rec (.str [x]) c) = true ↔ inp[c.pos]? = some x) ∧
    (RG.ok (LG.step g inp k recG (.str [x]) c ps) = true ↔ inp[c.pos]? = some x) := by
  simp only [L1.step, LG.step, startsWithAt_one]
  by_cases h : inp[c.pos]? = some x
  · simp [h, R1.ok, RG.ok]
  · have h' : (inp[c.pos]? == some x) = false := by simpa using h
    simp [h, h', failT_not_ok, failTG_not_ok]

/-! ### Unicode property rules -/

/-- **C12, Unicode property rules use one set in every mode.**  In the model the code-point set
    of a property rule is the grammar parameter `g.uprop name` (the harness fills it by sweeping
    the `regex` engine once per rule).  The interpreter node (`RegexExpression.parse`), the
    generated code (`RegexExpression.generate`) and the squashed choice that contains the rule
    (`OptimizedChoice`, which splices the same `pattern` string into its alternation) all
    consult this one lookup: each succeeds iff the code point at the position is in the set.

    What this does *not* prove: that the `regex` engine gives the pattern string the same
    meaning when it is compiled alone with VERSION0 (interpreter), alone with VERSION1
    (generated code) or inside `(?:…|…)` with VERSION1 (optimized).  That is closed by the
    sweep (every rule, every code point, all four modes), helped by
    `unicode_patterns_wellformed`: the strings contain nothing whose syntax differs between
    the two versions. -/
theorem unicode_rule_same_pattern (g : Grammar) (inp : Input) (k : Nat) (rec : Sem1) (recG : SemG)
    (n : String) (c : PState) (ps : List Pair) :
    (R1.ok (L1.step g inp k rec (.uprop n) c) = true ↔ ∃ x, inp[c.pos]? = some x ∧ g.uprop n x = true) ∧
    (RG.ok (LG.step g inp k recG (.uprop n) c ps) = true ↔ ∃ x, inp[c.pos]? = some x ∧ g.uprop n x = true) ∧
    (L1.optMatchOnce g inp [.uprop n] c.pos = some (c.pos + 1) ↔
      ∃ x, inp[c.pos]? = some x ∧ g.uprop n x = true) := by
  simp only [L1.step, LG.step, L1.optMatchOnce, List.filterMap, List.find?_nil, List.any_cons,
    List.any_nil, Bool.or_false, Bool.false_and]
  cases inp[c.pos]? with
  | none => simp [R1.ok, RG.ok]
  | some x =>
    by_cases h : g.uprop n x = true
    · simp [h, R1.ok, RG.ok]
    · have h' : g.uprop n x = false := by simpa using h
      simp [h', R1.ok, RG.ok]

def okName (c : Nat) : Bool :=
  (48 ≤ c && c ≤ 57) || (65 ≤ c && c ≤ 90) || (97 ≤ c && c ≤ 122) || c == 95 || c == 61

/-- `\p{` name `}` with a non-empty name made of ASCII letters, digits, `_` and `=` -/
def wellFormedPattern (p : List Nat) : Bool :=
  match p with
  | 92 :: 112 :: 123 :: rest =>
    match rest.reverse with
    | 125 :: body => !body.isEmpty && body.all okName
    | _ => false
  | _ => false

set_option maxRecDepth 100000 in
/-- every entry of the regenerated `UNICODE_RULES` is registered under its own rule name and
    its pattern is `\p{Name}` / `\p{Script=Name}`: no class brackets, set operators, flags or
    anything else whose meaning depends on VERSION0 / VERSION1 or on the surrounding group -/
theorem unicode_patterns_wellformed :
    unicodeRulesCP.all (fun e => e.1 == e.2.1 && wellFormedPattern e.2.2) = true := by
  decide

end C12
end Pest
