/-
  Props/C11Blowup.lean — the open finding `huge-repetition-bound` (C11) as theorems about the mirror
  of the optimizer (`Opt.unroll`, tied to the source by the `O` correspondence of C02).

  `unroll` rewrites `e+` to `e ~ e*` and `e{n}` to `e ~ … ~ e`: both copy the operand.  Applied bottom-up
  (as `DEFAULT_OPTIMIZER_PASSES` does) a tower of `n` postfix `+` over a literal becomes a tree of more than
  `2^n` nodes, and a tower of bounds `e{k}{k}…{k}` one of more than `k^n` nodes: the time and memory
  `Parser.from_grammar` needs are exponential in the length of the grammar text.  Nothing here is a proof
  obligation of C11; it states for every `n` what the check can only show for the `n` it tries.
-/
import PestModel.Opt

namespace Pest
namespace C11Blowup
open Opt

/-- `e` under `n` postfix `+` -/
def plusTower : Nat → Expr → Expr
  | 0, e => e
  | n + 1, e => .rep1 (plusTower n e)

/-- `e` under `n` postfix `{k}` -/
def exactTower (k : Nat) : Nat → Expr → Expr
  | 0, e => e
  | n + 1, e => .repExact (exactTower k n e) k

theorem sizeL_replicate (n : Nat) (e : Expr) : size.sizeL (List.replicate n e) = n * size e := by
  induction n with
  | zero => simp [size.sizeL]
  | succ n ih => simp [List.replicate_succ, size.sizeL, ih, Nat.succ_mul, Nat.add_comm]

/-- the unrolled tower is a literal or a sequence (never an untagged group), and at least `2^n` nodes -/
theorem plus_tower_unrolled (s : Str) (n : Nat) :
    (mapBottomUp unroll (plusTower n (.str s)) = .str s ∨
      ∃ es, mapBottomUp unroll (plusTower n (.str s)) = .seq es) ∧
    2 ^ n ≤ size (mapBottomUp unroll (plusTower n (.str s))) := by
  induction n with
  | zero => simp [plusTower, mapBottomUp, unroll, size]
  | succ n ih =>
    obtain ⟨hs, hn⟩ := ih
    simp only [plusTower, mapBottomUp]
    rcases hs with h | ⟨es, h⟩
    · rw [h] at hn ⊢
      refine ⟨Or.inr ⟨_, rfl⟩, ?_⟩
      simp only [unroll, size, size.sizeL] at hn ⊢
      omega
    · rw [h] at hn ⊢
      refine ⟨Or.inr ⟨_, rfl⟩, ?_⟩
      simp only [unroll, size, size.sizeL] at hn ⊢
      omega

/-- **every stacked `+` doubles**: `"x"` under `n` postfix `+` is unrolled to at least `2^n` nodes -/
theorem unroll_plus_tower_exponential (s : Str) (n : Nat) :
    2 ^ n ≤ size (mapBottomUp unroll (plusTower n (.str s))) := (plus_tower_unrolled s n).2

/-- **stacked bounds multiply**: `"x"` under `n` postfix `{k}` is unrolled to at least `k^n` nodes -/
theorem unroll_exact_tower_exponential (s : Str) (k n : Nat) :
    k ^ n ≤ size (mapBottomUp unroll (exactTower k n (.str s))) := by
  induction n with
  | zero => simp [exactTower, mapBottomUp, unroll, size]
  | succ n ih =>
    simp only [exactTower, mapBottomUp, unroll, size, sizeL_replicate]
    calc k ^ (n + 1) = k * k ^ n := by rw [Nat.pow_succ, Nat.mul_comm]
      _ ≤ k * size (mapBottomUp unroll (exactTower k n (.str s))) := Nat.mul_le_mul_left _ ih
      _ ≤ _ := by omega

/-- the text of the tower is `n` characters longer than the literal's: 30 `+` are 2^30 nodes -/
example : 2 ^ 30 ≤ size (mapBottomUp unroll (plusTower 30 (.str [120]))) :=
  unroll_plus_tower_exponential _ _

/-- a single large bound is the case `n = 1`: `"x"{4000000000}` is four thousand million nodes -/
example : 4000000000 ≤ size (mapBottomUp unroll (exactTower 4000000000 1 (.str [120]))) := by
  simpa using unroll_exact_tower_exponential [120] 4000000000 1

end C11Blowup
end Pest
