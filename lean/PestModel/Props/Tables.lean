/-
  Props/Tables.lean — the constants of the Lean models equal the tables regenerated from the
  source on every run (`Generated/CoreTables.lean`, written by harness/export.py).
-/
import PestModel.Opt
import PestModel.Generated.CoreTables

namespace Pest
namespace Tables

/-- modifier bits of rule.py = the bits the models use -/
theorem modifier_bits_match :
    Generated.modifierBits =
      [("SILENT", SILENT), ("ATOMIC", ATOMIC), ("COMPOUND", COMPOUND), ("NONATOMIC", NONATOMIC),
       ("SILENT_ATOMIC", SILENT + ATOMIC)] := by decide

/-- the modifier symbols the front end maps to those bits -/
theorem modifier_symbols_match :
    Generated.modifierSymbols = [("!", NONATOMIC), ("$", COMPOUND), ("@", ATOMIC), ("_", SILENT)] := by decide

def passFunc : Opt.PassName → String
  | .unroll => "unroll" | .skip => "skip" | .inlineBuiltin => "inline_builtin"
  | .squashChoice => "squash_choice" | .inlineSilent => "inline_silent_rules"

/-- `DEFAULT_OPTIMIZER_PASSES` (functions, order, traversal direction, atomic_only; no step is
    fixed-point or guarded by a predicate) = `Opt.defaultPasses` -/
theorem default_passes_match :
    Generated.optimizerPasses.map (fun (_, f, po, ao, fp, pr) => (f, po, ao, fp, pr)) =
      Opt.defaultPasses.map (fun p => (passFunc p.name, p.postorder, p.atomicOnly, false, false)) := by decide

end Tables
end Pest
