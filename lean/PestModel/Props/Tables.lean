/-
  Props/Tables.lean — the constants of the Lean models equal the tables regenerated from the
  source on every run (`Generated/CoreTables.lean`, written by harness/export.py).
-/
import PestModel.Opt
import PestModel.Generated.CoreTables

namespace Pest
namespace Tables

/-- modifier bits of rule.py = the bits the models use -/
theorem modifier_bits_match :
    Generated.modifierBits =
      [("SILENT", SILENT), ("ATOMIC", ATOMIC), ("COMPOUND", COMPOUND), ("NONATOMIC", NONATOMIC),
       ("SILENT_ATOMIC", SILENT + ATOMIC)] := by decide

/-- the modifier symbols the front end maps to those bits -/
theorem modifier_symbols_match :
    Generated.modifierSymbols = [("!", NONATOMIC), ("$", COMPOUND), ("@", ATOMIC), ("_", SILENT)] := by decide

def passFunc : Opt.PassName → String
  | .unroll => "unroll" | .skip => "skip" | .inlineBuiltin => "inline_builtin"
  | .squashChoice => "squash_choice" | .inlineSilent => "inline_silent_rules"

/-- `DEFAULT_OPTIMIZER_PASSES` (functions, order, traversal direction, atomic_only; no step is
    fixed-point or guarded by a predicate) = `Opt.defaultPasses` -/
theorem default_passes_match :
    Generated.optimizerPasses.map (fun (_, f, po, ao, fp, pr) => (f, po, ao, fp, pr)) =
      Opt.defaultPasses.map (fun p => (passFunc p.name, p.postorder, p.atomicOnly, false, false)) := by decide

/-- The constructor of `Expr` (or the part of the model) that mirrors each `Expression` class of the
    library, with the data fields it carries.  A class that is added to, removed from or reshaped in
    the source changes the regenerated table and breaks `expression_classes_covered`. -/
def modelledAs : List (String × List String × String) :=
  [("ASCIIRule", ["name", "expression", "modifier", "doc", "child_is_non_atomic"], "Expr.rule (kind builtin; body = the RegexExpression of the table)"),
   ("Any", ["name", "expression", "modifier", "doc", "child_is_non_atomic"], "Expr.rule \"ANY\" SILENT _ .anyB"),
   ("BuiltInRule", ["name", "expression", "modifier", "doc", "child_is_non_atomic"], "Rule (kind builtin)"),
   ("CIString", ["value"], "Expr.ci"),
   ("Choice", ["expressions"], "Expr.choice"),
   ("Drop", [], "Expr.drop"),
   ("EOI", ["name", "expression", "modifier", "doc", "child_is_non_atomic"], "Expr.rule \"EOI\" 0 _ .eoiB"),
   ("GrammarRule", ["name", "expression", "modifier", "doc", "child_is_non_atomic"], "Rule (kind grammar)"),
   ("Group", ["expression"], "Expr.group"),
   ("Identifier", ["value"], "Expr.ident"),
   ("NegativePredicate", ["expression"], "Expr.notP"),
   ("OptimizedChoice", ["choices"], "Expr.optChoice _ false"),
   ("OptimizedChoiceRepeat", ["choices"], "Expr.optChoice _ true"),
   ("Optional", ["expression"], "Expr.opt"),
   ("Peek", [], "Expr.peek"),
   ("PeekAll", [], "Expr.peekAll"),
   ("PeekSlice", ["start", "stop"], "Expr.peekSlice"),
   ("Pop", [], "Expr.pop"),
   ("PopAll", [], "Expr.popAll"),
   ("PositivePredicate", ["expression"], "Expr.andP"),
   ("Push", ["expression"], "Expr.push"),
   ("PushLiteral", ["value"], "Expr.pushLit"),
   ("Range", ["start", "stop"], "Expr.range"),
   ("RegexExpression", ["pattern", "regex"], "Expr.uprop (accepted set swept from the regex engine per run)"),
   ("Repeat", ["expression"], "Expr.rep"),
   ("RepeatExact", ["expression", "number"], "Expr.repExact"),
   ("RepeatMax", ["expression", "number"], "Expr.repMax"),
   ("RepeatMin", ["expression", "number"], "Expr.repMin"),
   ("RepeatMinMax", ["expression", "min", "max"], "Expr.repMinMax"),
   ("RepeatOnce", ["expression"], "Expr.rep1"),
   ("Rule", ["name", "expression", "modifier", "doc", "child_is_non_atomic"], "Rule / Expr.rule"),
   ("SOI", ["name", "expression", "modifier", "doc", "child_is_non_atomic"], "Expr.rule \"SOI\" SILENT _ .soiB"),
   ("Sequence", ["expressions"], "Expr.seq"),
   ("SkipUntil", ["subs"], "Expr.skipUntil"),
   ("String", ["value"], "Expr.str"),
   ("Terminal", ["tag"], "(abstract base of the terminals)"),
   ("UnicodePropertyRule", [], "Expr.rule (kind builtin; body .uprop)"),
   ("_Any", ["tag"], "Expr.anyB"),
   ("_EOI", ["tag"], "Expr.eoiB"),
   ("_SOI", ["tag"], "Expr.soiB")]

/-- every `Expression` class found in the source, with exactly these public fields, has a counterpart
    in the model (and the model knows no class the source does not have) -/
theorem expression_classes_covered :
    Generated.expressionClasses = modelledAs.map (fun (n, fs, _) => (n, fs)) := by decide

/-- `Parser.BUILTIN`'s special rules: ANY and SOI are silent, EOI is a normal rule, bodies as modelled -/
theorem special_builtins_match :
    Generated.specialBuiltins = [("ANY", SILENT, "_Any"), ("SOI", SILENT, "_SOI"), ("EOI", 0, "_EOI")] := by decide

end Tables
end Pest
