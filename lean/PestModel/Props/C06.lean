/-
  Props/C06.lean — property C06: "Parse trees are well-formed".

  Property text.  For every successful parse in every execution mode, each pair satisfies
  start_pos <= start <= end <= len(input) and text == input[start:end]; the children of a pair
  are in input order, pairwise non-overlapping and inside the parent's span; pair names are
  non-silent rules of the grammar (or EOI) and tags are tags written in the grammar.  tokens()
  is a balanced Start/End stream with non-decreasing positions, flatten() is its pre-order, a
  non-silent start rule yields exactly one root pair starting at start_pos, and dump()/dumps()
  render without error and agree with each other.

  What is proved, and where it is stated.
  * Spans and nesting (`WFForest`, Lemmas/TreeWF.lean; unfolded reading: `wf_unfolded`,
    `wf_ordered`, `wf_flat`) for the specification L0 — every expression, every state (`spec_tree_wf`),
    and `parse` (`spec_parse_tree_wf`) —, then carried to the interpreter model L1 through the
    refinement theorem of C03 (`interp_tree_wf`) and to the generated-code model LG through C01
    (`gen_tree_wf`).  "Every execution mode" = these two models, on optimised or unoptimised
    grammars alike (optimizer-made nodes are node kinds of `Expr`).
  * `text == input[start:end]` is definitional in the model: a `Pair` stores only `start` and
    `stop`; `Pair.text` *is* that slice in the code.
  * Names: every pair at every depth carries the name of a non-silent rule of the rule table
    or of a non-silent rule object embedded in a rule body (`spec_names`, `interp_names`,
    `gen_names`).  EOI is such a rule (table entry or embedded object).
  * Tags: every tag at every depth is written on an identifier or group node of a rule body
    (`interp_tags`, `gen_tags`; L0 has no tags).  Not claimed (the property text does not):
    *which* pair carries a tag.  In the code the pending tag is popped by the first non-silent
    rule that finishes, so for `#t = x`, `x = { y }` the tag lands on the inner pair `y`, not on
    `x`; the models mirror that (last example below).
  * One root pair for a non-silent start rule, starting at `start_pos` (`spec_root_single`,
    `interp_root_single`, `gen_root_single`).
  * `tokens()` balanced and sorted, `flatten()` its pre-order, two tokens per pair
    (`tokens_balanced`, `balanced_iff_accepts`, `tokens_sorted`, `flatten_is_preorder`,
    `tokens_length`; model of the two generators: `Pairs.lean`).  `GoodTree` bundles everything for a parse result.
  Not in scope here: `dump()` / `dumps()` / JSON rendering and their mutual agreement are
  library behaviour outside the matching semantics (the JSON side has its own model); they are
  covered by the executable checks of this property, not by a Lean theorem.

  A success of a model is a success with *some* amount of fuel; all statements hold for every
  fuel.  Hypothesis `SkipTotal g` (the optimizer's fused SKIP rule, if present, has a body that
  cannot fail) is the one C03/C01 need; it is vacuous for unoptimised grammars.
  Hypothesis `k ≤ inp.size`: a start position beyond the end of the input is outside the
  property (`start_pos <= start <= end <= len(input)` could not hold).
-/
import PestModel.Props.C03
import PestModel.Props.C01
import PestModel.Lemmas.TreeWF

namespace Pest
namespace C06

variable (g : Grammar) (inp : Input)

/-! ### spans and nesting: specification level -/

/-- **Every expression, every state.**  A successful L0 run from a position inside the input
    ends inside the input, at or after its start, and its pairs are a well-formed forest that
    spans what was consumed. -/
theorem spec_tree_wf (n : Nat) (e : Expr) (s s' : S0) (ps : List Pair)
    (h : L0.run g inp n e s = .ok s' ps) (hs : s.pos ≤ inp.size) :
    s.pos ≤ s'.pos ∧ s'.pos ≤ inp.size ∧ WFForest s.pos s'.pos ps :=
  L0.spec_tree_wf g inp h hs

/-- **`parse`.** -/
theorem spec_parse_tree_wf (fuel : Nat) (start : String) (k : Nat) (s : S0) (ps : List Pair)
    (h : L0.parse g inp fuel start k = .ok s ps) (hk : k ≤ inp.size) :
    k ≤ s.pos ∧ s.pos ≤ inp.size ∧ WFForest k s.pos ps :=
  L0.parse_tree_wf g inp h hk

/-- what `WFForest lo hi ps` says, spelled out (so that the inductive is not trusted on
    sight; it is an equivalence): `lo ≤ hi`; every top-level pair has
    `lo ≤ start ≤ stop ≤ hi` and its children are a forest inside its own span; a pair that
    comes later in the list starts at or after the stop of every earlier one -/
theorem wf_unfolded (lo hi : Nat) (ps : List Pair) :
    WFForest lo hi ps ↔
      (lo ≤ hi ∧
       (∀ p ∈ ps, lo ≤ p.start ∧ p.start ≤ p.stop ∧ p.stop ≤ hi ∧ WFForest p.start p.stop p.children) ∧
       ps.Pairwise (fun a b => a.stop ≤ b.start)) :=
  WFForest.iff_unfolded

/-- … in index form: in input order and pairwise non-overlapping -/
theorem wf_ordered (lo hi : Nat) (ps : List Pair) (h : WFForest lo hi ps) (i j : Nat) (hij : i < j)
    (hj : j < ps.length) : (ps[i]'(by omega)).stop ≤ (ps[j]'hj).start :=
  h.ordered i j hij hj

/-- … and flat: *every* pair `flatten()` yields (every depth) lies inside `[lo, hi]`, has
    `start ≤ stop`, and has its children in order, disjoint and inside its own span -/
theorem wf_flat (lo hi : Nat) (ps : List Pair) (h : WFForest lo hi ps) :
    ∀ p ∈ flattenL ps, lo ≤ p.start ∧ p.start ≤ p.stop ∧ p.stop ≤ hi ∧
      WFForest p.start p.stop p.children :=
  h.flat

/-- hoisting under an atomic rule and erasing tags keep a forest well-formed -/
theorem wf_closure (lo hi : Nat) (ps : List Pair) :
    (WFForest lo hi ps → WFForest lo hi (visibleList ps)) ∧
    (WFForest lo hi (eraseTagsL ps) ↔ WFForest lo hi ps) :=
  ⟨visibleList_wf, eraseTagsL_wf⟩

/-- the Boolean checker used in the examples is sound -/
theorem wf_checker_sound (lo hi : Nat) (ps : List Pair) (h : wfForestB lo hi ps = true) :
    WFForest lo hi ps :=
  wfForestB_sound lo hi ps h

/-! ### names and tags -/

/-- name of a non-silent rule of the table, or of a non-silent rule object embedded in a rule
    body.  (`NameOK g e0` also admits rule objects embedded in the expression `e0` being run;
    `parse` only runs rule bodies, so `e0 := .seq []` — which has no sub-expressions — leaves
    exactly the rule bodies.) -/
abbrev GNameOK (nm : String) : Prop := NameOK g (.seq []) nm

/-- tag written on an identifier or group node of a rule body -/
abbrev GTagOK (t : String) : Prop := TagOK g (.seq []) t

/-- `AllPairs P ps` is "`P` holds of everything `flatten()` yields" -/
theorem allPairs_reading (P : Pair → Prop) (ps : List Pair) :
    AllPairs P ps ↔ ∀ p ∈ flattenL ps, P p :=
  allPairs_iff_flatten

/-- the rule objects / identifiers / groups that `NameOK` and `TagOK` speak of are nodes written
    in `e0` or in a rule body, not expressions manufactured by the semantics -/
theorem reach_is_syntactic (e0 : Expr) :
    (∀ name mod sm body, Reach g e0 (.rule name mod sm body) → Sub g e0 (.rule name mod sm body)) ∧
    (∀ name tag, Reach g e0 (.ident name tag) → Sub g e0 (.ident name tag)) ∧
    (∀ e tag, Reach g e0 (.group e tag) → Sub g e0 (.group e tag)) :=
  ⟨fun _ _ _ _ h => h.rule_sub, fun _ _ h => h.ident_sub, fun _ _ h => h.group_sub⟩

/-- **names, every expression (L0)** -/
theorem spec_names (n : Nat) (e : Expr) (s s' : S0) (ps : List Pair)
    (h : L0.run g inp n e s = .ok s' ps) : AllPairs (fun p => NameOK g e p.name) ps :=
  L0.names_are_rules inp h

/-- **names, `parse` (L0)** -/
theorem spec_parse_names (fuel : Nat) (start : String) (k : Nat) (s : S0) (ps : List Pair)
    (h : L0.parse g inp fuel start k = .ok s ps) : AllPairs (fun p => GNameOK g p.name) ps :=
  L0.parse_names_are_rules inp h _

/-- **tags, every expression (L1)**, from any state whose waiting tags are grammar tags;
    whether the run matched or not -/
theorem interp_run_tags (n : Nat) (e : Expr) (c c' : PState) (m : Bool) (ps : List Pair)
    (hc : ∀ t ∈ c.tagStack, TagOK g e t) (h : L1.run g inp n e c = .done m c' ps) :
    AllPairs (fun p => ∀ t, p.tag = some t → TagOK g e t) ps :=
  L1.tags_are_grammar_tags inp hc h

/-! ### one root pair -/

/-- **a non-silent start rule yields exactly one root pair**, named after the rule, spanning
    from `start_pos` to the end position -/
theorem spec_root_single (fuel : Nat) (start : String) (k : Nat) (r : Rule) (s : S0) (ps : List Pair)
    (hl : g.lookup start = some r) (hS : hasBit r.mod SILENT = false)
    (h : L0.parse g inp fuel start k = .ok s ps) :
    (∃ ch, ps = [.mk r.name r.mod k s.pos ch none]) ∧ (∃ p, ps = [p] ∧ p.start = k) := by
  obtain ⟨ch, rfl⟩ := L0.root_single hl hS h
  exact ⟨⟨ch, rfl⟩, _, rfl, rfl⟩

/-! ### tokens() and flatten() -/

/-- **`tokens()` is a balanced Start/End stream**: a Dyck word with matching rule names, accepted
    by the usual stack machine — for any list of pairs -/
theorem tokens_balanced (ps : List Pair) : Balanced (tokensL ps) ∧ check [] (tokensL ps) = true :=
  Pest.tokens_balanced ps

/-- the inductive notion is the intended one: it coincides with acceptance by the stack machine -/
theorem balanced_iff_accepts (w : List Tok) : Balanced w ↔ check [] w = true := balanced_iff_check

/-- **positions of `tokens()` are non-decreasing** and stay inside the forest's interval -/
theorem tokens_sorted (lo hi : Nat) (ps : List Pair) (h : WFForest lo hi ps) :
    ((tokensL ps).map Tok.pos).Pairwise (· ≤ ·) ∧ ∀ x ∈ (tokensL ps).map Tok.pos, lo ≤ x ∧ x ≤ hi :=
  Pest.tokens_sorted h

/-- **`flatten()` is the pre-order**: it yields, in order, the pairs whose `Start` tokens
    `tokens()` yields -/
theorem flatten_is_preorder (ps : List Pair) :
    (flattenL ps).map (fun p => (p.name, p.start)) =
      (tokensL ps).filterMap (fun | .start n p => some (n, p) | .stop _ _ => none) := by
  have h := Pest.flatten_is_preorder ps
  have e : (fun | Tok.start n p => some (n, p) | Tok.stop _ _ => none) = Tok.startKey := by
    funext t; cases t <;> rfl
  rw [e]; exact h

/-- two tokens per pair -/
theorem tokens_length (ps : List Pair) : (tokensL ps).length = 2 * (flattenL ps).length :=
  Pest.tokens_length ps

/-! ### everything about one parse result -/

/-- what C06 claims of the pairs `ps` returned by a successful parse of `start` from `k` that
    ended at `endPos` -/
structure GoodTree (start : String) (k endPos : Nat) (ps : List Pair) : Prop where
  /-- `start_pos ≤ end ≤ len(input)` -/
  lo : k ≤ endPos
  hi : endPos ≤ inp.size
  /-- spans, order, disjointness, nesting -/
  wf : WFForest k endPos ps
  /-- the same, flat: every pair at every depth -/
  spans : ∀ p ∈ flattenL ps, k ≤ p.start ∧ p.start ≤ p.stop ∧ p.stop ≤ endPos ∧
    WFForest p.start p.stop p.children
  /-- names, at every depth -/
  names : AllPairs (fun p => GNameOK g p.name) ps
  /-- tags, at every depth -/
  tags : AllPairs (fun p => ∀ t, p.tag = some t → GTagOK g t) ps
  /-- a non-silent start rule yields one root pair covering `[k, endPos]` -/
  root : ∀ r, g.lookup start = some r → hasBit r.mod SILENT = false →
    ∃ ch t, ps = [.mk r.name r.mod k endPos ch t]
  /-- `tokens()` -/
  tokBalanced : Balanced (tokensL ps)
  tokSorted : ((tokensL ps).map Tok.pos).Pairwise (· ≤ ·) ∧
    ∀ x ∈ (tokensL ps).map Tok.pos, k ≤ x ∧ x ≤ endPos

theorem eraseTags_name (p : Pair) : p.eraseTags.name = p.name := by
  cases p; rfl

/-- **Interpreter model.**  Every successful `Parser.parse` returns a good tree.  (Its
    name / modifier / span / nesting structure is that of the L0 result: `interp_same_tree`.) -/
theorem interp_tree_wf (hs : SkipTotal g) (fuel : Nat) (start : String) (k : Nat) (c : PState)
    (ps : List Pair) (h : L1.parse g inp fuel start k = .done true c ps) (hk : k ≤ inp.size) :
    GoodTree g inp start k c.pos ps := by
  have h0 := C03.parse_agrees_with_spec g inp hs fuel start k
  rw [h] at h0
  simp only [] at h0
  obtain ⟨s, hs0, hpos, _⟩ := h0
  obtain ⟨a, b, w⟩ := L0.parse_tree_wf g inp hs0 hk
  rw [hpos] at a b w
  have w' : WFForest k c.pos ps := eraseTagsL_wf.mp w
  refine ⟨a, b, w', w'.flat, ?_, L1.parse_tags_are_grammar_tags inp h _, ?_, tokensL_balanced ps,
    Pest.tokens_sorted w'⟩
  · refine AllPairs.of_erase ?_ (L0.parse_names_are_rules inp hs0 (.seq [])) ps rfl
    intro p hp
    rw [eraseTags_name] at hp; exact hp
  · intro r hl hS
    obtain ⟨ch, hch⟩ := L0.root_single hl hS hs0
    obtain ⟨ch', t', rest', rfl, _, hr, _⟩ := eraseTagsL_eq_cons hch
    rw [eraseTagsL_eq_nil hr, hpos]
    exact ⟨ch', t', rfl⟩

/-- the tree of the interpreter model is the tree of the specification, tags aside -/
theorem interp_same_tree (hs : SkipTotal g) (fuel : Nat) (start : String) (k : Nat) (c : PState)
    (ps : List Pair) (h : L1.parse g inp fuel start k = .done true c ps) :
    ∃ s, L0.parse g inp fuel start k = .ok s (eraseTagsL ps) ∧ s.pos = c.pos := by
  have h0 := C03.parse_agrees_with_spec g inp hs fuel start k
  rw [h] at h0
  simp only [] at h0
  obtain ⟨s, hs0, hpos, _⟩ := h0
  exact ⟨s, hs0, hpos⟩

/-- **Generated-code model.**  Every successful generated `parse()` returns a good tree — the
    very same pairs as the interpreter, tags included (C01). -/
theorem gen_tree_wf (hs : SkipTotal g) (fuel : Nat) (start : String) (k : Nat) (cg : PState)
    (ps : List Pair) (h : LG.parse g inp fuel start k = .done true cg ps) (hk : k ≤ inp.size) :
    GoodTree g inp start k cg.pos ps := by
  have h1 := C01.generated_parse_eq g inp hs fuel start k
  rw [h] at h1
  simp only [] at h1
  obtain ⟨c1, h1, hpos⟩ := h1
  rw [hpos]
  exact interp_tree_wf g inp hs fuel start k c1 ps h1 hk

theorem gen_same_tree (hs : SkipTotal g) (fuel : Nat) (start : String) (k : Nat) (cg : PState)
    (ps : List Pair) (h : LG.parse g inp fuel start k = .done true cg ps) :
    ∃ c1, L1.parse g inp fuel start k = .done true c1 ps ∧ cg.pos = c1.pos := by
  have h1 := C01.generated_parse_eq g inp hs fuel start k
  rw [h] at h1
  exact h1

/-! the fields, one by one, under the names the property text suggests -/

theorem interp_names (hs : SkipTotal g) (fuel : Nat) (start : String) (k : Nat) (c : PState)
    (ps : List Pair) (h : L1.parse g inp fuel start k = .done true c ps) (hk : k ≤ inp.size) :
    AllPairs (fun p => GNameOK g p.name) ps :=
  (interp_tree_wf g inp hs fuel start k c ps h hk).names

/-- tags need neither `SkipTotal` nor a start position inside the input, and hold of failed
    parses as well -/
theorem interp_tags (fuel : Nat) (start : String) (k : Nat) (c : PState) (m : Bool)
    (ps : List Pair) (h : L1.parse g inp fuel start k = .done m c ps) :
    AllPairs (fun p => ∀ t, p.tag = some t → GTagOK g t) ps :=
  L1.parse_tags_are_grammar_tags inp h _

theorem interp_root_single (hs : SkipTotal g) (fuel : Nat) (start : String) (k : Nat) (c : PState)
    (ps : List Pair) (r : Rule) (h : L1.parse g inp fuel start k = .done true c ps) (hk : k ≤ inp.size)
    (hl : g.lookup start = some r) (hS : hasBit r.mod SILENT = false) :
    (∃ ch t, ps = [.mk r.name r.mod k c.pos ch t]) ∧ (∃ p, ps = [p] ∧ p.start = k) := by
  obtain ⟨ch, t, rfl⟩ := (interp_tree_wf g inp hs fuel start k c ps h hk).root r hl hS
  exact ⟨⟨ch, t, rfl⟩, _, rfl, rfl⟩

theorem gen_names (hs : SkipTotal g) (fuel : Nat) (start : String) (k : Nat) (cg : PState)
    (ps : List Pair) (h : LG.parse g inp fuel start k = .done true cg ps) (hk : k ≤ inp.size) :
    AllPairs (fun p => GNameOK g p.name) ps :=
  (gen_tree_wf g inp hs fuel start k cg ps h hk).names

theorem gen_tags (hs : SkipTotal g) (fuel : Nat) (start : String) (k : Nat) (cg : PState)
    (ps : List Pair) (h : LG.parse g inp fuel start k = .done true cg ps) (hk : k ≤ inp.size) :
    AllPairs (fun p => ∀ t, p.tag = some t → GTagOK g t) ps :=
  (gen_tree_wf g inp hs fuel start k cg ps h hk).tags

theorem gen_root_single (hs : SkipTotal g) (fuel : Nat) (start : String) (k : Nat) (cg : PState)
    (ps : List Pair) (r : Rule) (h : LG.parse g inp fuel start k = .done true cg ps) (hk : k ≤ inp.size)
    (hl : g.lookup start = some r) (hS : hasBit r.mod SILENT = false) :
    (∃ ch t, ps = [.mk r.name r.mod k cg.pos ch t]) ∧ (∃ p, ps = [p] ∧ p.start = k) := by
  obtain ⟨ch, t, rfl⟩ := (gen_tree_wf g inp hs fuel start k cg ps h hk).root r hl hS
  exact ⟨⟨ch, t, rfl⟩, _, rfl, rfl⟩

/-! ### Non-vacuity

  `r = { "a" ~ #tg = x ~ at ~ EOI }`, `x = { "b" }`, `at = @{ y ~ cp }` (atomic, with the compound
  rule `cp = ${ "c" ~ y }` inside: `y` directly under `at` is hidden, `cp` and the `y` below it
  stay), silent `WHITESPACE`, non-silent `COMMENT = { "/" }`, the built-in `EOI`.
  Input `"a b /dcd"`: the result is
  `r[0,8]( x[2,3]#tg, COMMENT[4,5], at[5,8]( cp[6,8]( y[7,8] ) ), EOI[8,8] )`. -/

def demoG : Grammar :=
  { rules := [⟨"r", 0, .seq [.str [97], .ident "x" (some "tg"), .ident "at" none, .ident "EOI" none], .grammar⟩,
              ⟨"x", 0, .str [98], .grammar⟩,
              ⟨"at", ATOMIC, .seq [.ident "y" none, .ident "cp" none], .grammar⟩,
              ⟨"cp", COMPOUND, .seq [.str [99], .ident "y" none], .grammar⟩,
              ⟨"y", 0, .str [100], .grammar⟩,
              ⟨"WHITESPACE", SILENT, .str [32], .grammar⟩,
              ⟨"COMMENT", 0, .str [47], .grammar⟩,
              ⟨"EOI", 0, .eoiB, .builtin⟩] }

def demoInp : Input := #[97, 32, 98, 32, 47, 100, 99, 100]

/-- the tree the three models must return -/
def demoTree (tagged : Bool) : List Pair :=
  [.mk "r" 0 0 8
    [.mk "x" 0 2 3 [] (if tagged then some "tg" else none),
     .mk "COMMENT" 0 4 5 [] none,
     .mk "at" ATOMIC 5 8 [.mk "cp" COMPOUND 6 8 [.mk "y" 0 7 8 [] none] none] none,
     .mk "EOI" 0 8 8 [] none] none]

mutual
def pairEqB : Pair → Pair → Bool
  | .mk n m s e ch t, .mk n' m' s' e' ch' t' =>
    n == n' && m == m' && s == s' && e == e' && t == t' && pairsEqB ch ch'
def pairsEqB : List Pair → List Pair → Bool
  | [], [] => true
  | p :: ps, q :: qs => pairEqB p q && pairsEqB ps qs
  | _, _ => false
end

mutual
theorem pairEqB_sound : ∀ (p q : Pair), pairEqB p q = true → p = q
  | .mk n m s e ch t, .mk n' m' s' e' ch' t' => by
    intro h
    simp only [pairEqB, Bool.and_eq_true, beq_iff_eq] at h
    obtain ⟨⟨⟨⟨⟨rfl, rfl⟩, rfl⟩, rfl⟩, rfl⟩, h6⟩ := h
    rw [pairsEqB_sound ch ch' h6]
theorem pairsEqB_sound : ∀ (ps qs : List Pair), pairsEqB ps qs = true → ps = qs
  | [], [] => fun _ => rfl
  | [], _ :: _ => by intro h; simp [pairsEqB] at h
  | _ :: _, [] => by intro h; simp [pairsEqB] at h
  | p :: ps, q :: qs => by
    intro h
    simp only [pairsEqB, Bool.and_eq_true] at h
    rw [pairEqB_sound p q h.1, pairsEqB_sound ps qs h.2]
end

example : SkipTotal demoG := by intro r h; simp [Grammar.fusedSkip, Grammar.lookup, demoG] at h

/-- checks of a result: ended at 8, well-formed in `[0, 8]`, one root, names among the
    non-silent rules, the tag is `tg`, 12 tokens accepted by the stack machine, 6 pairs in
    pre-order -/
def goodB (endPos : Nat) (ps : List Pair) : Bool :=
  endPos == 8 && wfForestB 0 endPos ps && ps.length == 1 &&
  (flattenL ps).all (fun p => ["r", "x", "at", "cp", "y", "COMMENT", "EOI"].contains p.name) &&
  (flattenL ps).all (fun p => p.tag == none || p.tag == some "tg") &&
  (flattenL ps).any (fun p => p.tag == some "tg") &&
  (flattenL ps).map Pair.name == ["r", "x", "COMMENT", "at", "cp", "y", "EOI"] &&
  check [] (tokensL ps) && (tokensL ps).length == 14 &&
  (tokensL ps).map Tok.pos == [0, 2, 3, 4, 5, 5, 6, 7, 8, 8, 8, 8, 8, 8]

def good1 : R1 → Bool
  | .done true c ps => goodB c.pos ps
  | _ => false
def goodG : RG → Bool
  | .done true c ps => goodB c.pos ps
  | _ => false
def good0 : R0 → Bool
  | .ok s ps => goodB s.pos ps
  | _ => false

example : good1 (L1.parse demoG demoInp 30 "r" 0) = true := by decide +kernel
example : goodG (LG.parse demoG demoInp 30 "r" 0) = true := by decide +kernel

-- and the trees are exactly the expected one
example : (match L1.parse demoG demoInp 30 "r" 0 with
    | .done true _ ps => pairsEqB ps (demoTree true) | _ => false) = true := by decide +kernel
example : (match LG.parse demoG demoInp 30 "r" 0 with
    | .done true _ ps => pairsEqB ps (demoTree true) | _ => false) = true := by decide +kernel
example : (match L0.parse demoG demoInp 30 "r" 0 with
    | .ok _ ps => pairsEqB ps (demoTree false) | _ => false) = true := by decide +kernel

-- L0 has no tags, so `goodB` minus its "some pair is tagged" conjunct
example : (match L0.parse demoG demoInp 30 "r" 0 with
    | .ok s ps => s.pos == 8 && wfForestB 0 s.pos ps && ps.length == 1 &&
        (flattenL ps).map Pair.name == ["r", "x", "COMMENT", "at", "cp", "y", "EOI"]
    | _ => false) = true := by decide +kernel

-- a start position in the middle (`at` from 5); a silent start rule yields no root pair of its own
example : (match L1.parse demoG demoInp 30 "at" 5 with
    | .done true c ps => c.pos == 8 && wfForestB 5 c.pos ps && ps.length == 1
    | _ => false) = true := by decide +kernel
example : (match L1.parse demoG demoInp 30 "WHITESPACE" 1 with
    | .done true c ps => c.pos == 2 && wfForestB 1 c.pos ps && ps.length == 0
    | _ => false) = true := by decide +kernel

-- `WFForest` is not trivially true: overlapping / out-of-order / escaping children are rejected
example : wfForestB 0 8 [.mk "a" 0 0 5 [] none, .mk "b" 0 4 8 [] none] = false := by decide
example : wfForestB 0 8 [.mk "a" 0 0 5 [.mk "b" 0 4 6 [] none] none] = false := by decide
example : ¬ WFForest 0 8 [.mk "a" 0 0 5 [] none, .mk "b" 0 4 8 [] none] := by
  intro h
  have := h.ordered 0 1 (by decide) (by decide)
  simp [Pair.stop, Pair.start] at this

-- the theorems apply to the demo: hypotheses are met
example (c : PState) (ps : List Pair) (h : L1.parse demoG demoInp 30 "r" 0 = .done true c ps) :
    GoodTree demoG demoInp "r" 0 c.pos ps :=
  interp_tree_wf demoG demoInp (by intro r h; simp [Grammar.fusedSkip, Grammar.lookup, demoG] at h)
    30 "r" 0 c ps h (by decide)

-- which pair gets the tag is *not* part of C06: `r = { #tg = x }`, `x = { y }`, `y = { "b" }` on "b"
-- yields `r( x( y#tg ) )` in the interpreter model, as in the code
example : (match L1.parse { rules := [⟨"r", 0, .ident "x" (some "tg"), .grammar⟩,
                                      ⟨"x", 0, .ident "y" none, .grammar⟩,
                                      ⟨"y", 0, .str [98], .grammar⟩] } #[98] 20 "r" 0 with
    | .done true _ ps =>
      pairsEqB ps [.mk "r" 0 0 1 [.mk "x" 0 0 1 [.mk "y" 0 0 1 [] (some "tg")] none] none]
    | _ => false) = true := by decide +kernel

end C06
end Pest
