/-
  Props/C08.lean — property C08: "Rewriting a grammar in ways that cannot change its meaning —
  singly or in any combination, at any nesting — leaves every parse result unchanged: adding
  redundant parentheses, re-associating nested sequences or choices, extracting a
  sub-expression into a new silent rule, and replacing e by (e | e), by ((e ~ NEVER) | e) or
  by ((!e ~ NEVER) | e) where NEVER is a literal that cannot occur in the input."

  What is proved, about the specification L0 (`Spec.lean`), for every grammar, input and state,
  with the fuel-independent meaning `L0.Conv` (a `Group` node costs one level of fuel, an
  extracted rule two, so equal-fuel statements would be false):

    (1)–(3)   `group_id`, `seq_assoc`/`seq_flatten`, `choice_assoc`/`choice_flatten`,
              `dup_choice`                                                       unconditional
    (4),(5)   `never_seq`, `never_notpred`      when NEVER does not occur in the input and
              implicit trivia is total (`TriviaTotal`); the exact, unconditional forms
              `never_seq_fwd/bwd`, `never_notpred_fwd/bwd` say what happens otherwise
    (6)       `extract_silent` (the new rule means what the expression meant),
              `extract_silent_away` (nothing else changes), `extract_silent_grammar` (the
              complete rewrite: add the rule and replace occurrences in rule bodies)
    (7)       `equiv_in_ctx` (one-hole contexts), `rewrites_preserve_expr` (any number of
              rewrites at any depth of an expression), `rewrites_preserve_parse` (any number of
              rewrites at any depth of any rule bodies: same result of `Parser.parse` for every
              start rule and start position); chains of such steps compose (`GEquiv.trans`)
    (8)       carried to the code's models: `rewrites_preserve_interp`,
              `grammar_rewrites_preserve_interp` (L1, via the refinement `run_good`),
              `grammar_rewrites_preserve_gen` (LG, via `C01.generated_parse_eq`): whenever both
              runs finish, same verdict and, on success, same end state as L0 sees it and same
              trees up to tags.  (Tags are outside L0: a rewrite that wraps a tagged node in a
              group may change which pair receives the tag; that is not claimed either way.)

  Why the hypotheses of (4)/(5).  `e ~ NEVER` runs implicit trivia after `e` (and `!e ~ NEVER`
  runs it where `e` failed) before NEVER fails.  Plain `e` does not.  If a trivia rule refers to
  an undefined rule, the rewritten expression raises `KeyError` (L0: `stuck`) where `e` simply
  answers; if a trivia rule can match the empty string, the rewritten expression loops forever
  where `e` answers.  `TriviaTotal g inp` — implicit trivia answers from every state — excludes
  both; `triviaTotal_of_progress` shows it holds as soon as WHITESPACE and COMMENT always answer
  and consume at least one character when they match (what pest's validator asks of trivia
  rules), `triviaTotal_of_none` that it holds when there are no trivia rules.

  Why the shape of (2).  `a ~ () ~ c` (an *empty* parenthesised sequence) runs implicit trivia
  twice between `a` and `c`; the flattening law is therefore stated, and true, for non-empty
  inner sequences `b :: bs` only.  Choices flatten also when the inner choice is empty.
-/
import PestModel.Props.Tags
import PestModel.Lemmas.Algebra
import PestModel.Props.C01

namespace Pest
namespace C08

open L0 (Conv EquivAt EquivE TriviaTotal NeverAt SkipOK SkipC Cong Ctx Rewrite GrammarRel GEquiv ParseC
  addRule Unreferenced mentions RefTo)

variable {g : Grammar} {inp : Input}

/-! ### (1)–(5): the laws, on L0 -/

/-- (1) redundant parentheses (a `Group` node) change nothing -/
theorem group_id (e : Expr) (s : S0) (r : R0) :
    Conv g inp (.group e none) s r ↔ Conv g inp e s r := L0.group_id e none s r

/-- (2) a parenthesised non-empty sequence inside a sequence: nested ↔ flat -/
theorem seq_assoc (as : List Expr) (b : Expr) (bs cs : List Expr) (s : S0) (r : R0) :
    Conv g inp (.seq (as ++ [.group (.seq (b :: bs)) none] ++ cs)) s r ↔
      Conv g inp (.seq (as ++ (b :: bs) ++ cs)) s r := L0.seq_assoc as b bs cs none s r

theorem seq_assoc_right (a b c : Expr) (s : S0) (r : R0) :
    Conv g inp (.seq [a, .group (.seq [b, c]) none]) s r ↔ Conv g inp (.seq [a, b, c]) s r :=
  L0.seq_assoc_right a b c none s r

theorem seq_assoc_left (a b c : Expr) (s : S0) (r : R0) :
    Conv g inp (.seq [.group (.seq [a, b]) none, c]) s r ↔ Conv g inp (.seq [a, b, c]) s r :=
  L0.seq_assoc_left a b c none s r

/-- (2) … and a directly nested sequence (no `Group` node) -/
theorem seq_flatten (as : List Expr) (b : Expr) (bs cs : List Expr) (s : S0) (r : R0) :
    Conv g inp (.seq (as ++ [.seq (b :: bs)] ++ cs)) s r ↔ Conv g inp (.seq (as ++ (b :: bs) ++ cs)) s r :=
  L0.seq_flatten as b bs cs s r

theorem choice_flatten (as bs cs : List Expr) (s : S0) (r : R0) :
    Conv g inp (.choice (as ++ [.choice bs] ++ cs)) s r ↔ Conv g inp (.choice (as ++ bs ++ cs)) s r :=
  L0.choice_flatten as bs cs s r

/-- (2') a parenthesised choice inside a choice -/
theorem choice_assoc (as bs cs : List Expr) (s : S0) (r : R0) :
    Conv g inp (.choice (as ++ [.group (.choice bs) none] ++ cs)) s r ↔
      Conv g inp (.choice (as ++ bs ++ cs)) s r := L0.choice_assoc as bs cs none s r

theorem choice_assoc_right (a b c : Expr) (s : S0) (r : R0) :
    Conv g inp (.choice [a, .group (.choice [b, c]) none]) s r ↔ Conv g inp (.choice [a, b, c]) s r :=
  L0.choice_assoc_right a b c none s r

theorem choice_assoc_left (a b c : Expr) (s : S0) (r : R0) :
    Conv g inp (.choice [.group (.choice [a, b]) none, c]) s r ↔ Conv g inp (.choice [a, b, c]) s r :=
  L0.choice_assoc_left a b c none s r

/-- (3) `(e | e) = e` -/
theorem dup_choice (e : Expr) (s : S0) (r : R0) :
    Conv g inp (.group (.choice [e, e]) none) s r ↔ Conv g inp e s r := L0.dup_choice e none s r

/-- (4) `((e ~ NEVER) | e) = e` -/
theorem never_seq (e : Expr) {x : Str} (hx : NeverAt inp x) (ht : TriviaTotal g inp) (s : S0) (r : R0) :
    Conv g inp (.group (.choice [.group (.seq [e, .str x]) none, e]) none) s r ↔ Conv g inp e s r :=
  L0.never_seq e hx ht none none s r

/-- (4), without any hypothesis on trivia: an answer of the rewritten expression is the
    answer of `e`, unless trivia after a *successful* `e` hits an undefined rule … -/
theorem never_seq_fwd {e : Expr} {x : Str} (hx : NeverAt inp x) {s : S0} {r : R0}
    (h : Conv g inp (.group (.choice [.group (.seq [e, .str x]) none, e]) none) s r) :
    Conv g inp e s r ∨ (r = .stuck ∧ ∃ s1 ps, Conv g inp e s (.ok s1 ps) ∧ SkipC g inp s1 .stuck) :=
  L0.never_seq_fwd hx h

/-- … and an answer of `e` is the answer of the rewritten expression provided that, if `e`
    succeeded, trivia answers from where it ended -/
theorem never_seq_bwd {e : Expr} {x : Str} (hx : NeverAt inp x) {s : S0} {r : R0}
    (h : Conv g inp e s r) (hs : ∀ s1 ps, r = .ok s1 ps → SkipOK g inp s1) :
    Conv g inp (.group (.choice [.group (.seq [e, .str x]) none, e]) none) s r :=
  L0.never_seq_bwd hx none none h hs

/-- (5) `((!e ~ NEVER) | e) = e` -/
theorem never_notpred (e : Expr) {x : Str} (hx : NeverAt inp x) (ht : TriviaTotal g inp) (s : S0) (r : R0) :
    Conv g inp (.group (.choice [.group (.seq [.notP e, .str x]) none, e]) none) s r ↔ Conv g inp e s r :=
  L0.never_notpred e hx ht none none s r

theorem never_notpred_fwd {e : Expr} {x : Str} (hx : NeverAt inp x) {s : S0} {r : R0}
    (h : Conv g inp (.group (.choice [.group (.seq [.notP e, .str x]) none, e]) none) s r) :
    Conv g inp e s r ∨ (r = .stuck ∧ Conv g inp e s .fail ∧ SkipC g inp s .stuck) :=
  L0.never_notpred_fwd hx h

theorem never_notpred_bwd {e : Expr} {x : Str} (hx : NeverAt inp x) {s : S0} {r : R0}
    (h : Conv g inp e s r) (hs : r = .fail → SkipOK g inp s) :
    Conv g inp (.group (.choice [.group (.seq [.notP e, .str x]) none, e]) none) s r :=
  L0.never_notpred_bwd hx none none h hs

/-- `NeverAt inp x` (the literal fails at every position) follows from the syntactic
    condition: the first character of `x` does not occur in `inp` -/
theorem neverIn_neverAt {x : Str} (h : L0.NeverIn x inp) : NeverAt inp x := h.neverAt

/-- the harness's NEVER is "␀␁" on inputs that do not contain U+2400 -/
theorem never_literal (h : inp.toList.all (fun d => d != 0x2400) = true) : NeverAt inp [0x2400, 0x2401] :=
  L0.neverAt_of_all h

/-! ### (6): extraction into a fresh silent rule -/

/-- (6b) in the grammar extended by `nm = _{ e }`, `nm` means what `e` meant in `g` -/
theorem extract_silent {nm : String} {e : Expr}
    (hfresh : g.lookup nm = none) (hu : Unreferenced g nm) (he : mentions nm e = false)
    (h1 : nm ≠ "WHITESPACE") (h2 : nm ≠ "COMMENT") (h3 : nm ≠ "SKIP") (s : S0) (r : R0) :
    Conv (addRule g ⟨nm, SILENT, e, .grammar⟩) inp (.ident nm none) s r ↔ Conv g inp e s r :=
  L0.extract_silent hfresh hu he h1 h2 h3 none s r

/-- (6a) … and every expression that does not mention `nm` means what it meant -/
theorem extract_silent_away {nm : String} {e : Expr} (hu : Unreferenced g nm)
    (h1 : nm ≠ "WHITESPACE") (h2 : nm ≠ "COMMENT") (h3 : nm ≠ "SKIP")
    {x : Expr} (hx : mentions nm x = false) (s : S0) (r : R0) :
    Conv (addRule g ⟨nm, SILENT, e, .grammar⟩) inp x s r ↔ Conv g inp x s r :=
  L0.addRule_away (rl := ⟨nm, SILENT, e, .grammar⟩) hu h1 h2 h3 hx s r

/-- (6) the complete rewrite: `g2` is `g` plus the rule `nm = _{ e }`, with any occurrences of
    `e` inside the other rule bodies replaced by `nm`: every other start rule parses as before -/
theorem extract_silent_grammar {nm : String} {e : Expr} {g2 : Grammar}
    (hfresh : g.lookup nm = none) (hu : Unreferenced g nm)
    (h1 : nm ≠ "WHITESPACE") (h2 : nm ≠ "COMMENT") (h3 : nm ≠ "SKIP")
    (hG : GrammarRel (RefTo nm e) (addRule g ⟨nm, SILENT, e, .grammar⟩) g2)
    (hnm : g2.lookup nm = some ⟨nm, SILENT, e, .grammar⟩)
    {start : String} (hs : start ≠ nm) (k : Nat) (r : R0) :
    ParseC g inp start k r ↔ ParseC g2 inp start k r :=
  L0.extract_silent_grammar hfresh hu h1 h2 h3 hG hnm hs k r

/-- (6) as an equation between expressions: `⟦C[e]⟧_g = ⟦C[nm]⟧_{g + nm = _{e}}`, for any
    number of replaced occurrences of `e` in `x` (and in rule bodies) -/
theorem extract_silent_expr {nm : String} {e : Expr} {g2 : Grammar}
    (hfresh : g.lookup nm = none) (hu : Unreferenced g nm)
    (h1 : nm ≠ "WHITESPACE") (h2 : nm ≠ "COMMENT") (h3 : nm ≠ "SKIP")
    (hG : GrammarRel (RefTo nm e) (addRule g ⟨nm, SILENT, e, .grammar⟩) g2)
    (hnm : g2.lookup nm = some ⟨nm, SILENT, e, .grammar⟩)
    {x x' : Expr} (hx : mentions nm x = false) (hxx : Cong (RefTo nm e) x x') (s : S0) (r : R0) :
    Conv g inp x s r ↔ Conv g2 inp x' s r :=
  L0.extract_silent_expr hfresh hu h1 h2 h3 hG hnm hx hxx s r

/-! ### (7): congruence and combination -/

theorem equivAt_refl (e : Expr) : EquivAt g inp e e := L0.EquivAt.refl e
theorem equivAt_symm {e e' : Expr} (h : EquivAt g inp e e') : EquivAt g inp e' e := h.symm
theorem equivAt_trans {a b c : Expr} (h1 : EquivAt g inp a b) (h2 : EquivAt g inp b c) : EquivAt g inp a c :=
  h1.trans h2

/-- (7) an equivalence can be used under every one-hole context -/
theorem equiv_in_ctx {e e' : Expr} (h : EquivAt g inp e e') (C : Ctx) :
    EquivAt g inp (C.fill e) (C.fill e') := L0.equiv_in_ctx h C

/-- … also as a statement about all inputs -/
theorem equivE_in_ctx {e e' : Expr} (h : EquivE g g e e') (C : Ctx) : EquivE g g (C.fill e) (C.fill e') :=
  fun inp => L0.equiv_in_ctx (h.at inp) C

/-- (7) any number of equivalent replacements, at any depth, at once -/
theorem equiv_cong {B : Expr → Expr → Prop} (hB : ∀ x x', B x x' → EquivAt g inp x x')
    {x x' : Expr} (h : Cong B x x') : EquivAt g inp x x' := L0.cong_equiv hB h

/-- (7) the rewrites of C08, any number of them at any depth of an expression -/
theorem rewrites_preserve_expr (ht : TriviaTotal g inp) {x x' : Expr} (h : Cong (Rewrite inp) x x') :
    EquivAt g inp x x' := L0.rewrites_preserve_expr ht h

/-- (7, grammar level) the rewrites of C08, any number of them at any depth of any rule
    bodies: `Parser.parse` answers the same for every start rule and start position -/
theorem rewrites_preserve_parse {g' : Grammar} (hG : GrammarRel (Rewrite inp) g g')
    (ht : TriviaTotal g inp) (ht' : TriviaTotal g' inp) (start : String) (k : Nat) (r : R0) :
    ParseC g inp start k r ↔ ParseC g' inp start k r := L0.rewrites_preserve_parse hG ht ht' start k r

/-- … and when only the original grammar is known to have total trivia: the rewritten grammar
    may fail to answer, but it cannot answer differently -/
theorem rewrites_preserve_parse_partial {g' : Grammar} (hG : GrammarRel (Rewrite inp) g g')
    (ht : TriviaTotal g inp) {start : String} {k : Nat} {r : R0} (h : ParseC g' inp start k r) :
    ParseC g inp start k r := L0.rewrites_preserve_parse_partial hG ht h

/-- (7, grammar level, general) replacing rule bodies by bodies that are equivalent in the
    *original* grammar can lose termination but cannot change an answer … -/
theorem equiv_bodies_partial {g' : Grammar} {B : Expr → Expr → Prop} (hG : GrammarRel B g g')
    (hB : ∀ x x', B x x' → EquivAt g inp x x') {start : String} {k : Nat} {r : R0}
    (h : ParseC g' inp start k r) : ParseC g inp start k r := by
  rw [L0.parseC_iff none] at h ⊢
  exact L0.cong_grammar_bwd hG (fun a b hb s r => (hB a b hb s r).2) (.refl _) h

/-- … and by bodies that are equivalent in both grammars changes nothing -/
theorem equiv_bodies_preserve_parse {g' : Grammar} {B : Expr → Expr → Prop} (hG : GrammarRel B g g')
    (hB : ∀ x x', B x x' → EquivAt g inp x x') (hB' : ∀ x x', B x x' → EquivAt g' inp x x') :
    GEquiv g g' inp := L0.cong_grammar_parse hG hB hB'

/-! ### (8): carried to the interpreter model L1 and the generated-code model LG -/

/-- what L0 sees of an interpreter result -/
def obs : R1 → R0
  | .done true c ps => .ok (abs0 c) (eraseTagsL ps)
  | .done false _ _ => .fail
  | .exc _ => .stuck
  | .oof => .oof

theorem obs_oof {r : R1} : obs r = .oof ↔ r = .oof := by
  cases r with
  | done m c ps => cases m <;> simp [obs]
  | oof => simp [obs]
  | exc k => simp [obs]

theorem rel_obs {c : PState} {r1 : R1} {r0 : R0} (h : Rel c r1 r0) : r0 = obs r1 := by
  cases r1 with
  | oof => exact h
  | exc k => exact h.2
  | done m c' ps =>
    cases m with
    | true => exact h.1
    | false => exact h.1

/-- the refinement theorem, read as an equation: the specification's answer is what can be
    seen of the interpreter's answer -/
theorem interp_obs (hs : SkipTotal g) (n : Nat) (e : Expr) (c : PState) (p : Pre c) :
    L0.run g inp n e (abs0 c) = obs (L1.run g inp n e c) :=
  rel_obs ((run_good g inp hs n).rel e c p)

theorem parse_obs (hs : SkipTotal g) (fuel : Nat) (start : String) (k : Nat) :
    L0.parse g inp fuel start k = obs (L1.parse g inp fuel start k) := by
  unfold L1.parse L0.parse
  cases g.lookup start with
  | none => rfl
  | some r =>
    have h := ruleParse_relW (run_good g inp hs fuel) r.name r.mod r.body (.init k) (preW_init k)
    have ha : abs0 (PState.init k) = ⟨k, [], false⟩ := by
      simp [abs0, PState.init, DStack.empty, SnapInt.zero0]
    rw [ha] at h
    exact rel_obs h

/-- (8) **expressions.**  Two expressions with the same L0 meaning, run by the interpreter
    model from the same state with any two amounts of fuel that suffice: same verdict, and on
    success the same position / stack / atomicity and the same trees up to tags; `KeyError`
    together. -/
theorem rewrites_preserve_interp (hs : SkipTotal g) {e e' : Expr} (heq : EquivAt g inp e e')
    (c : PState) (p : Pre c) (n m : Nat)
    (h1 : L1.run g inp n e c ≠ .oof) (h2 : L1.run g inp m e' c ≠ .oof) :
    obs (L1.run g inp n e c) = obs (L1.run g inp m e' c) := by
  have c1 : Conv g inp e (abs0 c) (obs (L1.run g inp n e c)) :=
    ⟨n, interp_obs hs n e c p, fun h => h1 (obs_oof.1 h)⟩
  have c2 : Conv g inp e' (abs0 c) (obs (L1.run g inp m e' c)) :=
    ⟨m, interp_obs hs m e' c p, fun h => h2 (obs_oof.1 h)⟩
  exact L0.Conv.det g inp ((heq _ _).1 c1) c2

/-- the same, unpacked for a successful run -/
theorem rewrites_preserve_interp_ok (hs : SkipTotal g) {e e' : Expr} (heq : EquivAt g inp e e')
    (c : PState) (p : Pre c) (n m : Nat) {c1 : PState} {ps : List Pair}
    (h1 : L1.run g inp n e c = .done true c1 ps) (h2 : L1.run g inp m e' c ≠ .oof) :
    ∃ c1' ps', L1.run g inp m e' c = .done true c1' ps' ∧ abs0 c1' = abs0 c1 ∧
      eraseTagsL ps' = eraseTagsL ps := by
  have := rewrites_preserve_interp hs heq c p n m (by rw [h1]; simp) h2
  rw [h1] at this
  revert this
  cases L1.run g inp m e' c with
  | oof => intro h; simp [obs] at h
  | exc k => intro h; simp [obs] at h
  | done b c1' ps' =>
    cases b with
    | false => intro h; simp [obs] at h
    | true =>
      intro h
      simp only [obs, R0.ok.injEq] at h
      exact ⟨c1', ps', rfl, h.1.symm, h.2.symm⟩

/-- (8) **grammars.**  Two grammars with the same L0 parse results (e.g. by
    `rewrites_preserve_parse` or `extract_silent_grammar`), run by the interpreter model. -/
theorem grammar_rewrites_preserve_interp {g' : Grammar} (hs : SkipTotal g) (hs' : SkipTotal g')
    {start start' : String} {k : Nat}
    (hE : ∀ r, ParseC g inp start k r ↔ ParseC g' inp start' k r) (n m : Nat)
    (h1 : L1.parse g inp n start k ≠ .oof) (h2 : L1.parse g' inp m start' k ≠ .oof) :
    obs (L1.parse g inp n start k) = obs (L1.parse g' inp m start' k) := by
  have c1 : ParseC g inp start k (obs (L1.parse g inp n start k)) :=
    ⟨n, parse_obs hs n start k, fun h => h1 (obs_oof.1 h)⟩
  have c2 : ParseC g' inp start' k (obs (L1.parse g' inp m start' k)) :=
    ⟨m, parse_obs hs' m start' k, fun h => h2 (obs_oof.1 h)⟩
  have c1' := (hE _).1 c1
  rw [L0.parseC_iff none] at c1' c2
  exact L0.Conv.det g' inp c1' c2

/-- (8) **generated code.**  Two grammars with the same L0 parse results, run by the model of
    their generated parsers: if both calls return, they return the same verdict and, on
    success, the same end position and the same trees up to tags. -/
theorem grammar_rewrites_preserve_gen {g' : Grammar} (hs : SkipTotal g) (hs' : SkipTotal g')
    {start start' : String} {k : Nat}
    (hE : ∀ r, ParseC g inp start k r ↔ ParseC g' inp start' k r) (n m : Nat)
    {b b' : Bool} {cg cg' : PState} {ps ps' : List Pair}
    (h1 : LG.parse g inp n start k = .done b cg ps) (h2 : LG.parse g' inp m start' k = .done b' cg' ps') :
    b = b' ∧ (b = true → cg.pos = cg'.pos ∧ eraseTagsL ps = eraseTagsL ps') := by
  have e1 := C01.generated_parse_eq g inp hs n start k
  have e2 := C01.generated_parse_eq g' inp hs' m start' k
  rw [h1] at e1
  rw [h2] at e2
  cases b with
  | true =>
    obtain ⟨c1, l1, p1⟩ := e1
    cases b' with
    | true =>
      obtain ⟨c1', l1', p1'⟩ := e2
      have := grammar_rewrites_preserve_interp hs hs' hE n m (by rw [l1]; simp) (by rw [l1']; simp)
      rw [l1, l1'] at this
      simp only [obs, R0.ok.injEq] at this
      refine ⟨rfl, fun _ => ⟨?_, this.2⟩⟩
      have hp : (abs0 c1).pos = (abs0 c1').pos := by rw [this.1]
      simpa [abs0, p1, p1'] using hp
    | false =>
      obtain ⟨c1', ps1', l1', _⟩ := e2
      have := grammar_rewrites_preserve_interp hs hs' hE n m (by rw [l1]; simp) (by rw [l1']; simp)
      rw [l1, l1'] at this
      simp [obs] at this
  | false =>
    obtain ⟨c1, ps1, l1, _⟩ := e1
    cases b' with
    | true =>
      obtain ⟨c1', l1', _⟩ := e2
      have := grammar_rewrites_preserve_interp hs hs' hE n m (by rw [l1]; simp) (by rw [l1']; simp)
      rw [l1, l1'] at this
      simp [obs] at this
    | false => exact ⟨rfl, fun h => by cases h⟩

/-! ### Non-vacuity: concrete grammars, rewritten, meet every hypothesis -/

def never : Str := [0x2400, 0x2401]
def wsRule : Rule := ⟨"WHITESPACE", SILENT, .str [32], .grammar⟩
def sBody : Expr := .choice [.str [98], .str [99]]
def sStar : Expr := .rep (.ident "s" none)

/-- `r = { "a" ~ s* }   s = { "b" | "c" }   WHITESPACE = _{ " " }` -/
def demoG : Grammar :=
  { rules := [⟨"r", 0, .seq [.str [97], sStar], .grammar⟩, ⟨"s", 0, sBody, .grammar⟩, wsRule] }

/-- step 1, three rewrites at once: `r = { ("a") ~ ((s* ~ NEVER) | s*) }   s = { (B | B) }`
    with `B = "b" | "c"` -/
def demoG1 : Grammar :=
  { rules := [⟨"r", 0, .seq [.group (.str [97]) none,
                  .group (.choice [.group (.seq [sStar, .str never]) none, sStar]) none], .grammar⟩,
              ⟨"s", 0, .group (.choice [sBody, sBody]) none, .grammar⟩, wsRule] }

/-- step 2, inside the result of step 1: the first copy of `B` becomes `"b" | ((!"c" ~ NEVER) | "c")` -/
def demoG2 : Grammar :=
  { rules := [⟨"r", 0, .seq [.group (.str [97]) none,
                  .group (.choice [.group (.seq [sStar, .str never]) none, sStar]) none], .grammar⟩,
              ⟨"s", 0, .group (.choice [.choice [.str [98],
                  .group (.choice [.group (.seq [.notP (.str [99]), .str never]) none, .str [99]]) none],
                  sBody]) none, .grammar⟩, wsRule] }

/-- "a b c" -/
def demoInp : Input := #[97, 32, 98, 32, 99]

theorem demo_never : NeverAt demoInp never := never_literal (by decide)

theorem demo_trivia (G : Grammar) (hf : G.fusedSkip = none) (hw : G.lookup "WHITESPACE" = some wsRule)
    (hc : G.lookup "COMMENT" = none) (inp : Input) : TriviaTotal G inp := by
  apply L0.triviaTotal_of_progress hf
  · rw [hw]; exact L0.tryProgress_str wsRule 32 [] rfl
  · rw [hc]; exact L0.tryProgress_none

theorem demoG_trivia (inp : Input) : TriviaTotal demoG inp := demo_trivia demoG rfl rfl rfl inp
theorem demoG1_trivia (inp : Input) : TriviaTotal demoG1 inp := demo_trivia demoG1 rfl rfl rfl inp
theorem demoG2_trivia (inp : Input) : TriviaTotal demoG2 inp := demo_trivia demoG2 rfl rfl rfl inp

theorem demo_step1 : GrammarRel (Rewrite demoInp) demoG demoG1 := by
  refine GrammarRel.of_rules (g := demoG) (g' := demoG1) rfl ?_
  refine .cons ⟨rfl, rfl, ?_⟩ (.cons ⟨rfl, rfl, ?_⟩ (.cons ⟨rfl, rfl, .refl _⟩ .nil))
  · exact .seq (.cons (.base (.paren _ _)) (.cons (.base (.neverSeq _ _ _ _ demo_never)) .nil))
  · exact .base (.dup _ _)

theorem demo_step2 : GrammarRel (Rewrite demoInp) demoG1 demoG2 := by
  refine GrammarRel.of_rules (g := demoG1) (g' := demoG2) rfl ?_
  refine .cons ⟨rfl, rfl, .refl _⟩ (.cons ⟨rfl, rfl, ?_⟩ (.cons ⟨rfl, rfl, .refl _⟩ .nil))
  exact .group (.choice (.cons (.choice (.cons (.refl _)
    (.cons (.base (.neverNot _ _ _ _ demo_never)) .nil))) (.cons (.refl _) .nil)))

/-- the two steps compose: same parse results for every start rule and start position -/
theorem demo_equiv : GEquiv demoG demoG2 demoInp :=
  (L0.rewrites_preserve_parse demo_step1 (demoG_trivia _) (demoG1_trivia _)).trans
    (L0.rewrites_preserve_parse demo_step2 (demoG1_trivia _) (demoG2_trivia _))

mutual
/-- pre-order signature of a forest (name, start, end, number of children): determines the
    forest up to tags -/
def sigP : Pair → List (String × Nat × Nat × Nat)
  | .mk n _ s e ch _ => (n, s, e, ch.length) :: sigL ch
def sigL : List Pair → List (String × Nat × Nat × Nat)
  | [] => []
  | p :: ps => sigP p ++ sigL ps
end

def same1 : R1 → R1 → Bool
  | .done true c ps, .done true c' ps' => c.pos == c'.pos && sigL ps == sigL ps' && sigL ps != []
  | _, _ => false
def sameG : RG → RG → Bool
  | .done true c ps, .done true c' ps' => c.pos == c'.pos && sigL ps == sigL ps' && sigL ps != []
  | _, _ => false
def same0 : R0 → R0 → Bool
  | .ok c ps, .ok c' ps' => c.pos == c'.pos && sigL ps == sigL ps' && sigL ps != []
  | _, _ => false

-- the three models, original vs twice-rewritten grammar, on "a b c": same end, same tree
example : same0 (L0.parse demoG demoInp 30 "r" 0) (L0.parse demoG2 demoInp 40 "r" 0) = true := by decide +kernel
example : same1 (L1.parse demoG demoInp 30 "r" 0) (L1.parse demoG2 demoInp 40 "r" 0) = true := by decide +kernel
example : sameG (LG.parse demoG demoInp 30 "r" 0) (LG.parse demoG2 demoInp 40 "r" 0) = true := by decide +kernel
-- … and the tree is r[0,5] > s[2,3], s[4,5]
example : (match L0.parse demoG2 demoInp 40 "r" 0 with
    | .ok _ ps => sigL ps == [("r", 0, 5, 2), ("s", 2, 3, 0), ("s", 4, 5, 0)] | _ => false) = true := by
  decide +kernel

/-! #### extraction -/

/-- `demoG` plus `xr1 = _{ "b" | "c" }`, with the body of `s` replaced by `xr1` -/
def demoX : Grammar :=
  { rules := [⟨"r", 0, .seq [.str [97], sStar], .grammar⟩, ⟨"s", 0, .ident "xr1" none, .grammar⟩, wsRule,
              ⟨"xr1", SILENT, sBody, .grammar⟩] }

theorem demoG_skipTotal : SkipTotal demoG := by
  intro r h; have : demoG.fusedSkip = none := rfl; rw [this] at h; cases h
theorem demoG2_skipTotal : SkipTotal demoG2 := by
  intro r h; have : demoG2.fusedSkip = none := rfl; rw [this] at h; cases h
theorem demoX_skipTotal : SkipTotal demoX := by
  intro r h; have : demoX.fusedSkip = none := rfl; rw [this] at h; cases h

theorem demo_unref : Unreferenced demoG "xr1" := L0.unreferenced_of_all (by decide +kernel)

theorem demo_extract (start : String) (hs : start ≠ "xr1") (k : Nat) (r : R0) (inp : Input) :
    ParseC demoG inp start k r ↔ ParseC demoX inp start k r := by
  apply extract_silent_grammar (nm := "xr1") (e := sBody) rfl demo_unref (by decide) (by decide) (by decide)
    _ rfl hs
  refine GrammarRel.of_rules (g := addRule demoG ⟨"xr1", SILENT, sBody, .grammar⟩) (g' := demoX) rfl ?_
  exact .cons ⟨rfl, rfl, .refl _⟩ (.cons ⟨rfl, rfl, .base ⟨rfl, none, rfl⟩⟩
    (.cons ⟨rfl, rfl, .refl _⟩ (.cons ⟨rfl, rfl, .refl _⟩ .nil)))

example : same1 (L1.parse demoG demoInp 30 "r" 0) (L1.parse demoX demoInp 40 "r" 0) = true := by decide +kernel
example : sameG (LG.parse demoG demoInp 30 "r" 0) (LG.parse demoX demoInp 40 "r" 0) = true := by decide +kernel

/-! #### the lifted theorems applied to these grammars -/

example (n m : Nat) (start : String) (k : Nat) (h1 : L1.parse demoG demoInp n start k ≠ .oof)
    (h2 : L1.parse demoG2 demoInp m start k ≠ .oof) :
    obs (L1.parse demoG demoInp n start k) = obs (L1.parse demoG2 demoInp m start k) :=
  grammar_rewrites_preserve_interp demoG_skipTotal demoG2_skipTotal (demo_equiv start k) n m h1 h2

example (inp : Input) (n m : Nat) (start : String) (hs : start ≠ "xr1") (k : Nat) {b b' : Bool}
    {cg cg' : PState} {ps ps' : List Pair}
    (h1 : LG.parse demoG inp n start k = .done b cg ps) (h2 : LG.parse demoX inp m start k = .done b' cg' ps') :
    b = b' ∧ (b = true → cg.pos = cg'.pos ∧ eraseTagsL ps = eraseTagsL ps') :=
  grammar_rewrites_preserve_gen demoG_skipTotal demoX_skipTotal (fun r => demo_extract start hs k r inp) n m h1 h2

/-! #### the hypotheses of (4)/(5) and the shape of (2) cannot be dropped -/

/-- WHITESPACE refers to an undefined rule -/
def badG : Grammar := { rules := [⟨"WHITESPACE", SILENT, .ident "nope" none, .grammar⟩] }

def isOk : R0 → Bool | .ok _ _ => true | _ => false
def isStuck : R0 → Bool | .stuck => true | _ => false

-- `"a"` answers, `("a" ~ NEVER) | "a"` raises `KeyError`
example : isOk (L0.run badG #[97] 10 (.str [97]) ⟨0, [], false⟩) = true := by decide +kernel
example : isStuck (L0.run badG #[97] 10
    (.group (.choice [.group (.seq [.str [97], .str never]) none, .str [97]]) none) ⟨0, [], false⟩) = true := by
  decide +kernel

/-- `a = _{ "x" }`: in this grammar the body `"x"` is equivalent to `a` itself … -/
def foldG : Grammar := { rules := [⟨"a", SILENT, .str [120], .grammar⟩] }
/-- … but replacing the body by this equivalent expression gives `a = _{ a }` -/
def foldG' : Grammar := { rules := [⟨"a", SILENT, .ident "a" none, .grammar⟩] }

example (inp : Input) : EquivAt foldG inp (.str [120]) (.ident "a" none) :=
  (L0.silent_rule_inline (g := foldG) (nm := "a") (rl := ⟨"a", SILENT, .str [120], .grammar⟩) rfl
    (by decide) (by decide) (by decide) (by decide) (by decide) none).symm

-- which loops: the equivalence must hold in the rewritten grammar too (`equiv_bodies_preserve_parse`)
theorem foldG'_diverges (inp : Input) : ∀ (n : Nat) (s : S0), L0.run foldG' inp n (.ident "a" none) s = .oof := by
  intro n
  induction n with
  | zero => intro s; rfl
  | succ n ih =>
    intro s
    show L0.callRule foldG' (L0.run foldG' inp n) "a" s = .oof
    have hl : foldG'.lookup "a" = some ⟨"a", SILENT, .ident "a" none, .grammar⟩ := rfl
    simp only [L0.callRule, hl, L0.ruleApply, ih]

/-- a fused SKIP rule that is not a loop: one optional space -/
def onceG : Grammar := { rules := [⟨"SKIP", SILENT + ATOMIC, .opt (.str [32]), .grammar⟩] }

def endsAt : R0 → Nat → Bool | .ok s _, p => s.pos == p | _, _ => false

-- "a  c": `"a" ~ "c"` fails, `"a" ~ () ~ "c"` (empty parentheses) matches — trivia runs twice
example : isOk (L0.run onceG #[97, 32, 32, 99] 10 (.seq [.str [97], .str [99]]) ⟨0, [], false⟩) = false := by
  decide +kernel
example : endsAt (L0.run onceG #[97, 32, 32, 99] 10
    (.seq [.str [97], .group (.seq []) none, .str [99]]) ⟨0, [], false⟩) 4 = true := by decide +kernel

end C08
end Pest
