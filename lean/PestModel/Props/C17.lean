/-
  Props/C17.lean — property C17:
  "Bundled JSON and calculator languages agree with independent references".

    Every RFC 8259 JSON document whose top level is an array or object is accepted by the
    bundled JSON grammars in every execution mode and its parse tree mirrors json.loads …
    while every proper prefix of such a document (written without trailing whitespace) is
    rejected.  For every arithmetic expression over integers, variables, + - * / ^, unary
    minus, factorial and parentheses, the three bundled calculator implementations
    (precedence climbing, Pratt, grammar-encoded precedence) evaluate to the same value,
    which is the value an independent evaluator using the documented precedence table gives.

  ── Calculator half (models: `Calc.lean`; lemmas: `Lemmas/Calc.lean`) ── PROVED, for all
  well-formed token lists of any length and nesting depth:

    `calc_three_agree`   precClimb ts = pratt ts ∧ pratt ts = encoded ts ∧ pratt ts = reference ts
    `calc_total`         … and that common answer is an AST (no implementation raises)
    `calc_values_agree`  hence equal values (`eval` is a function of the AST)

  The proof does not compare algorithms pairwise.  It shows that the tree the *grammar*
  builds (`encodedTree`: nest by grammar_encoded_prec.pest, walk as grammar_encoded_prec.py)
  is `Good` — in the sense of C18's specification — for **every** calculator-shaped table
  whose five levels are in the documented order (`Lemmas/Calc.encodedTree_spec`).  By C18
  (`pratt_complete`, `good_unique`) it is therefore what the Pratt algorithm returns on any
  such table (`levels_parse_eq_encoded`).  The regenerated tables of pratt.py and of
  prec_climber.py are such tables (`prattTable_levels`, `climbTable_levels`,
  `…_documented`, by evaluation of the regenerated literals: they are compared by *order*,
  not number for number), the climbing loop is the Pratt loop on its own table
  (`Lemmas/Calc.climbExpr_eq`, structural), and the reference is by definition the `Good`
  tree of the documented table `docTable`.  An edit of either table that changes the order
  of two levels, of an associativity, or of the grammar-encoded nesting breaks one of these
  theorems at the next run.

  ── JSON half (model: `Json.lean`; regenerated grammar terms: `Generated/JsonGrammars.lean`;
  lemmas: `Lemmas/Ev.lean` big-step rules of L0, `Lemmas/Json.lean` tokens, `Lemmas/JsonDoc.lean`
  and `Lemmas/JsonDocTests.lean` values and documents) ── against the specification L0 of
  pest's semantics, about the regenerated rule tables of BOTH bundled grammars:

    PROVED  stage 1  `json_number_accepts[_tests]`, `json_string_accepts[_tests]`
                     every RFC 8259 number / string, any spelling, is one token with the right pair(s)
    PROVED  stage 2  `json_value_accepts[_tests]`   every value, any nesting depth, any whitespace
    PROVED  stage 3  `json_accepts`, `json_accepts_tests`, `json_accepts_both`
                     every document with a container at top level is accepted with the tree `mirror`
    PROVED  stage 4  `json_rejects_prefix`          every proper prefix of such a document written without
                     trailing whitespace is rejected (`.fail`), both grammars
                     (`Lemmas/JsonPrefix.lean`, `JsonPrefixLex.lean`, `JsonPrefixDoc.lean`, `JsonPrefixTop.lean`)
    PROVED  modes    `json_modes_accept`, `json_modes_reject_prefix`: the same for the models of the four
                     execution modes — interpreter L1 and generated code LG, on the regenerated table and on
                     its optimized version — by C03 (L1 refines L0), C01/C07 (LG = L1, no exception) and C02
                     (optimizer sound), whose hypotheses are decidable and are evaluated here for both tables

  All for all documents and inputs of any size; `∃ N, ∀ n ≥ N` = for all sufficient fuel.  Nothing
  is OPEN.  What stays outside the theorems: the models L1/LG/Opt are tied to the real code by the
  correspondence runs (C01–C04 and harness/eng_examples.py), and "mirrors json.loads" beyond the
  spans (`float(token)`, decoding of escapes) is checked by the harness against Python's `json`.
-/
import PestModel.Lemmas.Calc
import PestModel.Lemmas.Json
import PestModel.Lemmas.JsonDoc
import PestModel.Lemmas.JsonDocTests
import PestModel.Lemmas.JsonPrefixTop
import PestModel.Props.C01
import PestModel.Props.C02
import PestModel.Props.C03
import PestModel.Props.C07
import PestModel.Props.C18
import PestModel.Json
import PestModel.Spec
import PestModel.Generated.JsonGrammars

namespace Pest
namespace C17
open Pratt Calc

/-! ## Calculator -/

/-! ### the regenerated tables are calculator-shaped tables in the documented order -/

/-- `CalculatorParser.PREFIX_OPS / POSTFIX_OPS / INFIX_OPS` is the calculator-shaped table of
    the five levels read off it: `neg` is the only prefix and `fac` the only postfix operator,
    `add`/`sub` share a level, `mul`/`div` share a level, these four are left-associative and
    `pow` is right-associative, and no other rule name is declared. -/
theorem prattTable_levels : prattTable = prattLevels.table := by
  show Table.mk _ _ _ = Table.mk _ _ _
  congr 1 <;> funext t <;> cases t <;> first | decide | rfl

/-- + - < * / < ^ < prefix - < postfix !  in pratt.py -/
theorem prattLevels_documented : prattLevels.Ordered := by decide

/-- the tables of prec_climber.py (`PRECEDENCES`, `Precedence.PRE`, the four operator sets)
    likewise -/
theorem climbTable_levels : climbCfg.table = climbLevels.table := by
  show Table.mk _ _ _ = Table.mk _ _ _
  congr 1 <;> funext t <;> cases t <;> first | decide | rfl

/-- the same order in prec_climber.py, and `Precedence.LOWEST` is below every operator -/
theorem climbLevels_documented : climbLevels.Ordered ∧ climbCfg.lowest ≤ climbLevels.add := by decide

theorem docLevels_documented : docLevels.Ordered := by decide

/-! ### one tree for every documented table -/

theorem cwf_wf (L : Levels) : ∀ (ts : List Tok) (b : Bool), cwf b ts = true → wf L.table b ts = true
  | [], b, h => by cases b <;> simp_all [cwf, wf]
  | t :: ts, true, h => by
    cases t <;> simp_all [cwf, wf, Levels.table, Tok.isPrimary] <;> exact cwf_wf L ts _ (by assumption)
  | t :: ts, false, h => by
    cases t <;> simp_all [cwf, wf, Levels.table, Tok.isInfix] <;> exact cwf_wf L ts _ (by assumption)

/-- **Grammar-encoded precedence = declared precedence.**  For every calculator-shaped table
    whose levels are in the documented order and every well-formed token list, the Pratt
    algorithm consumes the list and returns exactly the tree that nesting by
    grammar_encoded_prec.pest and walking it as grammar_encoded_prec.py yields. -/
theorem levels_parse_eq_encoded (L : Levels) (hL : L.Ordered) (ts : List Tok) (hw : cwf true ts = true) :
    ∃ t, encodedTree ts = some t ∧ parseExpr L.table ts = .ok t [] ∧ t.flatten = ts ∧ Shape t := by
  obtain ⟨t, h1, h2, h3⟩ := encodedTree_spec L hL ts hw
  refine ⟨t, h1, ?_, h2, h3.shape⟩
  have := C18.pratt_complete L.table t (shape_lex L t h3.shape) h3.good
  rwa [h2] at this

/-- (b) = (c) -/
theorem prattTree_eq_encodedTree (ts : List Tok) (hw : cwf true ts = true) :
    prattTree ts = encodedTree ts := by
  obtain ⟨t, h1, h2, _⟩ := levels_parse_eq_encoded prattLevels prattLevels_documented ts hw
  rw [h1, prattTree, prattTable_levels, h2]

/-- **The climbing loop on any documented table.**  Whatever numbers prec_climber.py uses, as
    long as its tables form a calculator-shaped table in the documented order and
    `Precedence.LOWEST` is not above the weakest operator, `parse_program` builds the
    grammar-encoded tree. -/
theorem climb_eq_pratt_of_table (C : ClimbCfg) (L : Levels) (hT : C.table = L.table) (hL : L.Ordered)
    (hlow : C.lowest ≤ L.add) (ts : List Tok) (hw : cwf true ts = true) :
    climbTreeOf C ts = encodedTree ts := by
  obtain ⟨t, h1, h2, h3⟩ := encodedTree_spec L hL ts hw
  have hwf : wf C.table true ts = true := by rw [hT]; exact cwf_wf L ts true hw
  have hc := expr_complete L.table (ts.length + 1) t C.lowest [] (shape_lex L t h3.shape) h3.good
    (fun x hx => by have := h3.le x hx; omega) (fun P hP => by simp [nextL] at hP)
    (by simp [h2])
  simp only [List.append_nil, h2] at hc
  rw [h1, climbTreeOf, climbExpr_eq C _ _ _ hwf, hT, hc]
  rfl

/-- (a) = (b) -/
theorem climbTree_eq_prattTree (ts : List Tok) (hw : cwf true ts = true) :
    climbTree ts = prattTree ts := by
  rw [prattTree_eq_encodedTree ts hw]
  exact climb_eq_pratt_of_table climbCfg climbLevels climbTable_levels climbLevels_documented.1
    climbLevels_documented.2 ts hw

/-- (d): among *all* trees over the tokens, the grammar-encoded tree is the one and only tree
    that reads every token in its role and is `Good` for the documented table; so it is what
    the enumerate-and-filter reference finds. -/
theorem refTree_spec (ts : List Tok) (hw : cwf true ts = true) :
    refTree ts = encodedTree ts ∧
      ∀ t', t' ∈ Pratt.reference docTable ts ↔ some t' = encodedTree ts := by
  obtain ⟨t, h1, h2, _, _⟩ := levels_parse_eq_encoded docLevels docLevels_documented ts hw
  have hall := C18.reference_eq docTable ts t h2
  have hmem : ∀ t', t' ∈ Pratt.reference docTable ts ↔ some t' = encodedTree ts := by
    intro t'; rw [hall t', h1]; constructor
    · rintro rfl; rfl
    · intro h; injection h
  refine ⟨?_, hmem⟩
  rw [refTree, h1]
  cases hr : Pratt.reference docTable ts with
  | nil => have := (hall t).mpr rfl; simp [hr] at this
  | cons x xs =>
    have : x = t := (hall x).mp (by simp [hr])
    simp [this]

/-- the four tree builders agree on every well-formed token list -/
theorem calc_trees_agree (ts : List Tok) (hw : cwf true ts = true) :
    climbTree ts = prattTree ts ∧ prattTree ts = encodedTree ts ∧ prattTree ts = refTree ts :=
  ⟨climbTree_eq_prattTree ts hw, prattTree_eq_encodedTree ts hw,
    (prattTree_eq_encodedTree ts hw).trans (refTree_spec ts hw).1.symm⟩

/-! ### from trees to ASTs, through every level of parentheses -/

theorem implAt_eq_encoded (tree : List Tok → Option T)
    (h : ∀ ts, cwf true ts = true → tree ts = encodedTree ts) :
    ∀ (f : Nat) (ts : List Tok), cwf true ts = true → deepWfL ts = true →
      implAt tree f ts = implAt encodedTree f ts := by
  intro f
  induction f with
  | zero => intro ts _ _; rfl
  | succ f ih =>
    intro ts hw hd
    simp only [implAt]
    rw [h ts hw]
    obtain ⟨t, h1, h2, _⟩ := encodedTree_spec docLevels docLevels_documented ts hw
    rw [h1]
    simp only [Option.bind_some]
    apply build_congr
    intro c hc
    rw [h2] at hc
    obtain ⟨hcw, hcd⟩ := deepWf_mem ts c hd hc
    exact ih c hcw hcd

/-- **C17, calculator half.**  For every well-formed token list — integers, variables, the
    five binary operators, unary minus and factorial (also repeated), parentheses nested to
    any depth — the three bundled implementations build the same AST, and it is the AST of
    the reference for the documented precedence table. -/
theorem calc_three_agree (ts : List Tok) (h : WellFormed ts) :
    precClimb ts = pratt ts ∧ pratt ts = encoded ts ∧ pratt ts = reference ts := by
  obtain ⟨hw, hd⟩ := h
  have e1 := implAt_eq_encoded climbTree
    (fun ts hw => (climbTree_eq_prattTree ts hw).trans (prattTree_eq_encodedTree ts hw)) (depthL ts + 1) ts hw hd
  have e2 := implAt_eq_encoded prattTree prattTree_eq_encodedTree (depthL ts + 1) ts hw hd
  have e3 := implAt_eq_encoded refTree (fun ts hw => (refTree_spec ts hw).1) (depthL ts + 1) ts hw hd
  exact ⟨e1.trans e2.symm, e2, e2.trans e3.symm⟩

theorem implAt_total :
    ∀ (f : Nat) (ts : List Tok), depthL ts < f → cwf true ts = true → deepWfL ts = true →
      ∃ a, implAt encodedTree f ts = some a := by
  intro f
  induction f with
  | zero => intro ts h; omega
  | succ f ih =>
    intro ts hdep hw hd
    obtain ⟨t, h1, h2, h3⟩ := encodedTree_spec docLevels docLevels_documented ts hw
    simp only [implAt, h1, Option.bind_some]
    apply build_total _ t h3.shape
    intro c hc
    rw [h2] at hc
    obtain ⟨hcw, hcd⟩ := deepWf_mem ts c hd hc
    have := depth_mem ts c hc
    exact ih c (by omega) hcw hcd

/-- no implementation raises on a well-formed token list: the common answer is an AST -/
theorem calc_total (ts : List Tok) (h : WellFormed ts) : ∃ a, pratt ts = some a := by
  obtain ⟨a, ha⟩ := implAt_total (depthL ts + 1) ts (Nat.lt_succ_self _) h.1 h.2
  exact ⟨a, by rw [(calc_three_agree ts h).2.1]; exact ha⟩

/-- equal ASTs, equal values: under every environment the three implementations and the
    reference evaluate to the same result (a number, or the same failure) -/
theorem calc_values_agree (ts : List Tok) (h : WellFormed ts) (env : String → Option Int) :
    (precClimb ts).map (eval env) = (pratt ts).map (eval env) ∧
    (pratt ts).map (eval env) = (encoded ts).map (eval env) ∧
    (pratt ts).map (eval env) = (reference ts).map (eval env) := by
  obtain ⟨h1, h2, h3⟩ := calc_three_agree ts h
  exact ⟨by rw [h1], by rw [h2], by rw [h3]⟩

/-! ### the hypotheses are satisfiable, the readings are the documented ones, and the pinned
    climbing loop violates the property -/

section Examples

/-- `-2^2 = (-2)^2`, `-3! = -(3!)`, `2^3! = 2^(3!)`, `2^-3^2 = 2^((-3)^2)`, `1-2-3 = (1-2)-3` -/
example : pratt [.neg, .int 2, .pow, .int 2] = some (.bin .pow (.neg (.int 2)) (.int 2)) := by decide
example : pratt [.neg, .int 3, .fac] = some (.neg (.fac (.int 3))) := by decide
example : precClimb [.int 2, .pow, .int 3, .fac] = some (.bin .pow (.int 2) (.fac (.int 3))) := by decide
example : encoded [.int 2, .pow, .neg, .int 3, .pow, .int 2]
    = some (.bin .pow (.int 2) (.bin .pow (.neg (.int 3)) (.int 2))) := by decide
example : precClimb [.int 1, .sub, .int 2, .sub, .int 3]
    = some (.bin .sub (.bin .sub (.int 1) (.int 2)) (.int 3)) := by decide
example : reference [.int 1, .sub, .paren [.int 2, .sub, .int 3], .fac]
    = some (.bin .sub (.int 1) (.fac (.bin .sub (.int 2) (.int 3)))) := by decide
example : WellFormed [.neg, .neg, .var "x", .fac, .fac, .mul, .paren [.int 1, .add, .paren [.int 2]]] := by decide
example : ¬ WellFormed [.int 1, .add] ∧ ¬ WellFormed [.paren []] ∧ ¬ WellFormed [.int 1, .int 2] := by decide
example : eval (fun _ => none) (.bin .sub (.bin .sub (.int 1) (.int 2)) (.int 3)) = some (-4) := by decide

/-- the loop of the pinned commit: every operator climbed with its own precedence (so
    left-associative chains group to the right), postfix operators only after the last infix
    operator of the activation -/
def climbLoopOld (C : ClimbCfg) (rec : List Tok → Nat → CRes) (prec : Nat) : Nat → T → List Tok → CRes
  | 0, _, _ => .fuel
  | g + 1, left, ts =>
    match ts with
    | [] => .ok left []
    | tok :: ts' =>
      if C.isInfix tok then
        if C.precOf tok ≥ prec then
          match rec ts' (C.precOf tok) with
          | .ok right ts'' => climbLoopOld C rec prec g (.bin left tok right) ts''
          | e => e
        else .ok left (tok :: ts')
      else if C.isPostfix tok then
        -- the second `while`: postfix operators, then nothing else may follow
        let rec facs : Nat → T → List Tok → CRes
          | 0, _, _ => .fuel
          | _ + 1, l, [] => .ok l []
          | k + 1, l, t :: r => if C.isPostfix t then facs k (.post l t) r else .unexpected
        facs (g + 1) left (tok :: ts')
      else .unexpected

def climbExprOld (C : ClimbCfg) : Nat → List Tok → Nat → CRes
  | 0 => fun _ _ => .fuel
  | f + 1 => fun ts prec =>
    match ts with
    | [] => .eof
    | tok :: ts' =>
      if C.isPrefix tok then
        match climbExprOld C f ts' C.pre with
        | .ok r ts'' => climbLoopOld C (climbExprOld C f) prec f (.pre tok r) ts''
        | e => e
      else climbLoopOld C (climbExprOld C f) prec f (.leaf tok) ts'

def climbTreeOld (ts : List Tok) : Option T :=
  match climbExprOld climbCfg (ts.length + 1) ts climbCfg.lowest with
  | .ok t _ => some t
  | _ => none

/-- **the pinned prec_climber.py violates C17**: `1 - 2 - 3` is grouped to the right and
    `2! * 3` is refused; the repaired loop and the other implementations agree on both. -/
example : climbTreeOld [.int 1, .sub, .int 2, .sub, .int 3]
      = some (.bin (.leaf (.int 1)) .sub (.bin (.leaf (.int 2)) .sub (.leaf (.int 3)))) ∧
    prattTree [.int 1, .sub, .int 2, .sub, .int 3]
      = some (.bin (.bin (.leaf (.int 1)) .sub (.leaf (.int 2))) .sub (.leaf (.int 3))) ∧
    climbTreeOld [.int 2, .fac, .mul, .int 3] = none ∧
    climbTree [.int 2, .fac, .mul, .int 3] = prattTree [.int 2, .fac, .mul, .int 3] ∧
    (prattTree [.int 2, .fac, .mul, .int 3]).isSome = true := ⟨by rfl, by rfl, by rfl, by rfl, by rfl⟩

end Examples

/-! ## JSON

  Stages 1–4 (tokens, values, documents, prefix rejection) are proved for both bundled grammars. -/

open Json L0

/-- the text of a document is as long as its pieces (used by `mirror` for the spans) -/
theorem render_length (d : Doc) :
    (render d).length = d.w1.length + d.v.text.length + d.w2.length := by
  simp [render, wsText]; omega

/-! ### the regenerated rule tables contain the terms the lemmas are about -/

/-- `number` of examples/json/json.pest, as regenerated from the working tree, is the atomic
    rule whose body `Lemmas/Json.lean` reasons about -/
theorem examplesJson_number :
    Generated.examplesJson.lookup "number"
      = some { name := "number", mod := 4, body := exNumberBody, kind := .grammar } := by rfl

/-- `string` (compound-atomic), `inner` (atomic), `char` of examples/json/json.pest likewise -/
theorem examplesJson_string_rules : ExStringRules Generated.examplesJson :=
  ⟨⟨.grammar, by rfl⟩, ⟨.grammar, by rfl⟩, ⟨.grammar, by rfl⟩⟩

/-! ### stage 1: tokens -/

/-- **Every RFC 8259 number is one `number` token (examples/json/json.pest).**  From any
    state — atomic or not, any stack — at any position of any input that continues with the
    text of a number `n` (any spelling: sign, `0` or digits without leading zero, optional
    fraction, optional exponent with either case of `e` and optional sign) followed by
    something that does not extend it (not a digit, `.`, `e`, `E`; in a document: whitespace,
    `,`, `]`, `}` or the end), the rule `number` succeeds, consumes exactly the text of `n`,
    and yields exactly one childless pair `number` over it.  (`Conv`: for all sufficient fuel.) -/
theorem json_number_accepts (inp : Input) (s : S0) (n : Num) (post : Str)
    (hr : inp.toList.drop s.pos = numText n ++ post) (hf : HeadIs NumFollow post) :
    Conv Generated.examplesJson inp (.ident "number" none) s
      (.ok { s with pos := s.pos + (numText n).length }
        [mkPair "number" ATOMIC s.pos (s.pos + (numText n).length) []]) :=
  (ev_exNumber examplesJson_number s n hr hf).conv (by simp)

/-- **Every RFC 8259 string is one `string` token whose `inner` pair is the raw source slice
    (examples/json/json.pest).**  From any state, at any position of any input that continues
    with a string as written — raw characters `%x20-21 / %x23-5B / %x5D-10FFFF`, the eight
    two-character escapes, `\uXXXX` with hex digits of either case — the rule `string`
    succeeds, consumes exactly the quoted token, and yields the pair `string` over it with the
    single childless child `inner` spanning what stands between the quotes
    (`mirrorStr .examples`: the tree `Json.mirror` expects). -/
theorem json_string_accepts (inp : Input) (s : S0) (cs : SStr) (post : Str)
    (hr : inp.toList.drop s.pos = strText cs ++ post) :
    Conv Generated.examplesJson inp (.ident "string" none) s
      (.ok { s with pos := s.pos + (strText cs).length } [mirrorStr .examples s.pos cs]) :=
  (ev_exString examplesJson_string_rules s cs hr).conv (by simp)

/-- the hypotheses are met: `-12.50E+3` followed by `,`, from a non-atomic state at offset 1 -/
example :
    let n : Num := { neg := true, int := .nonzero 0 [2], frac := some (5, [0]),
                     exp := some { upper := true, sign := .plus, d := 3, ds := [] } }
    let inp : Input := (91 :: (numText n ++ [44, 49, 93])).toArray
    inp.toList.drop 1 = numText n ++ [44, 49, 93] ∧ HeadIs NumFollow [44, 49, 93] ∧
      numText n = [45, 49, 50, 46, 53, 48, 69, 43, 51] := by
  refine ⟨rfl, ?_, rfl⟩
  show ¬ IsDigit 44 ∧ (44 : CP) ≠ 46 ∧ (44 : CP) ≠ 101 ∧ (44 : CP) ≠ 69
  unfold IsDigit; decide

/-- `"a\"\u00e9"` : a raw character, an escape, a `\u` escape with mixed-case hex digits -/
example : strText [.raw 97 (by decide), .esc .quote, .u (.dig 0) (.dig 0) (.lower 4) (.dig 9)]
    = [34, 97, 92, 34, 92, 117, 48, 48, 101, 57, 34] := rfl

/-- `number`, `int`, `exp` of tests/grammars/json.pest, as regenerated -/
theorem testsJson_number_rules : TNumberRules Generated.testsJson :=
  ⟨⟨.grammar, by rfl⟩, ⟨.grammar, by rfl⟩, ⟨.grammar, by rfl⟩⟩

/-- `string`, `inner` (recursive), `escape`, `unicode` of tests/grammars/json.pest -/
theorem testsJson_string_rules : TStringRules Generated.testsJson :=
  ⟨⟨.grammar, by rfl⟩, ⟨.grammar, by rfl⟩, ⟨.grammar, by rfl⟩, ⟨.grammar, by rfl⟩⟩

/-- **Every RFC 8259 number is one `number` token (tests/grammars/json.pest)**: same statement
    as `json_number_accepts`; the pairs of the nested atomic rules `int` and `exp` are hidden. -/
theorem json_number_accepts_tests (inp : Input) (s : S0) (n : Num) (post : Str)
    (hr : inp.toList.drop s.pos = numText n ++ post) (hf : HeadIs NumFollow post) :
    Conv Generated.testsJson inp (.ident "number" none) s
      (.ok { s with pos := s.pos + (numText n).length }
        [mkPair "number" ATOMIC s.pos (s.pos + (numText n).length) []]) :=
  (ev_tNumber testsJson_number_rules s n hr hf).conv (by simp)

/-- **Every RFC 8259 string is one childless `string` token spanning the quotes
    (tests/grammars/json.pest)**; `inner` recurses once per escape. -/
theorem json_string_accepts_tests (inp : Input) (s : S0) (cs : SStr) (post : Str)
    (hr : inp.toList.drop s.pos = strText cs ++ post) :
    Conv Generated.testsJson inp (.ident "string" none) s
      (.ok { s with pos := s.pos + (strText cs).length } [mirrorStr .tests s.pos cs]) :=
  (ev_tString testsJson_string_rules s cs hr).conv (by simp)

/-! ### stages 2 and 3 for examples/json/json.pest: values and documents -/

/-- the whole regenerated rule table of examples/json/json.pest is the table
    `Lemmas/JsonDoc.lean` reasons about: implicit trivia is `WHITESPACE = _{ " " | "\t" | "\r" | "\n" }`
    only (no COMMENT, no fused SKIP), `json = _{ SOI ~ (object | array) ~ EOI }`, `value` silent, … -/
theorem examplesJson_rules : ExDocRules Generated.examplesJson where
  ws := ⟨⟨.grammar, by rfl⟩, by rfl, by rfl⟩
  strs := examplesJson_string_rules
  number := by rfl
  object := by rfl
  array := by rfl
  pair := by rfl
  value := by rfl
  boolean := by rfl
  null := by rfl
  json := by rfl
  eoi := by rfl

/-- **Stage 2: every RFC 8259 value (examples/json/json.pest).**  From any non-atomic state, at
    any position of any input that continues with the text of a value `v` — scalars in any
    spelling, arrays and objects nested to any depth, whitespace at every legal place, empty
    containers, duplicate names — followed by whitespace, `,`, `]`, `}` or the end, `value`
    succeeds, consumes exactly the text of `v`, and yields exactly `v.mirror` (the pairs
    `object[pair[string[inner], …]…]`, `array[…]`, `string[inner]`, `number`, `boolean`,
    `null` with the spans of the source). -/
theorem json_value_accepts (inp : Input) (v : Val) (s : S0) (post : Str) (hna : s.atomic = false)
    (hr : inp.toList.drop s.pos = v.text ++ post) (hf : HeadIs ValFollow post) :
    Conv Generated.examplesJson inp (.ident "value" none) s
      (.ok { s with pos := s.pos + v.text.length } [v.mirror .examples s.pos]) :=
  (val_ok examplesJson_rules v s post hna hr hf).conv (by simp)

/-- **Stage 3: `json_accepts` for examples/json/json.pest.**  For *every* RFC 8259 document
    whose top level is an array or object, written in any way the RFC allows, the
    specification of pest run on the regenerated grammar accepts the whole text and returns
    exactly the tree `mirror` (same nesting and member order as the document, number and
    string tokens spanning exactly their source text), for all sufficient fuel. -/
theorem json_accepts (d : Doc) (h : d.topLevelIsContainer) :
    ∃ N, ∀ n, N ≤ n →
      L0.parse Generated.examplesJson (render d).toArray n "json" 0
        = .ok ⟨(render d).length, [], false⟩ (mirror .examples d) :=
  parse_json_doc examplesJson_rules d h

/-- a concrete instance: ` [ -1.5e3 , { "a\n" : [ ] } ] ` with whitespace at every legal place -/
def exDoc : Doc :=
  { w1 := [.space],
    v := .arr (.cons [.space] (.num { neg := true, int := .nonzero 0 [], frac := some (5, []),
                                      exp := some { upper := false, sign := .none, d := 3, ds := [] } }) [.tab]
          (.one [.lf] (.obj (.one [.space] [.raw 97 (by decide), .esc .n] [.space] [.cr] (.arr0 [.space]) [.space]))
            [.space])),
    w2 := [.lf] }

example : exDoc.topLevelIsContainer := rfl
example : render exDoc = [32, 91, 32, 45, 49, 46, 53, 101, 51, 9, 44, 10, 123, 32, 34, 97, 92, 110, 34, 32, 58, 13,
    91, 32, 93, 32, 125, 32, 93, 10] := by decide

/-! ### stages 2 and 3 for tests/grammars/json.pest -/

/-- the whole regenerated rule table of tests/grammars/json.pest: `json = { SOI ~ value ~ EOI }`,
    `value = { string | number | object | array | bool | null }` (a normal rule), the non-empty
    alternative of `object` / `array` first, the same trivia -/
theorem testsJson_rules : TDocRules Generated.testsJson where
  ws := ⟨⟨.grammar, by rfl⟩, by rfl, by rfl⟩
  strs := testsJson_string_rules
  nums := testsJson_number_rules
  object := by rfl
  array := by rfl
  pair := by rfl
  value := by rfl
  bool := by rfl
  null := by rfl
  json := by rfl
  eoi := by rfl

/-- stage 2 for tests/grammars/json.pest: as `json_value_accepts`, every value wrapped in a
    `value` pair -/
theorem json_value_accepts_tests (inp : Input) (v : Val) (s : S0) (post : Str) (hna : s.atomic = false)
    (hr : inp.toList.drop s.pos = v.text ++ post) (hf : HeadIs ValFollow post) :
    Conv Generated.testsJson inp (.ident "value" none) s
      (.ok { s with pos := s.pos + v.text.length } [v.mirror .tests s.pos]) :=
  (tval_ok testsJson_rules v s post hna hr hf).conv (by simp)

/-- **Stage 3: `json_accepts` for tests/grammars/json.pest.**  Every RFC 8259 document (this
    grammar does not even need the top level to be a container) is accepted, with exactly the
    tree `mirror .tests`: `json[value[…], EOI]`. -/
theorem json_accepts_tests (d : Doc) :
    ∃ N, ∀ n, N ≤ n →
      L0.parse Generated.testsJson (render d).toArray n "json" 0
        = .ok ⟨(render d).length, [], false⟩ (mirror .tests d) :=
  parse_tjson_doc testsJson_rules d

/-- the regenerated grammar term of a flavour -/
def grammarOf : Flavour → Grammar
  | .examples => Generated.examplesJson
  | .tests => Generated.testsJson

/-- **C17, JSON half, acceptance.**  Every RFC 8259 JSON document whose top level is an array or
    object — every way of writing it — is accepted by both bundled grammars under the
    specification of pest's semantics, and the parse tree is `mirror`: the nesting and member
    order of the document, every number token spanning exactly the number as written, every
    string token (its `inner` pair, resp. its span minus the quotes) exactly the raw source
    slice. -/
theorem json_accepts_both (fl : Flavour) (d : Doc) (h : d.topLevelIsContainer) :
    ∃ N, ∀ n, N ≤ n →
      L0.parse (grammarOf fl) (render d).toArray n "json" 0
        = .ok ⟨(render d).length, [], false⟩ (mirror fl d) := by
  cases fl with
  | examples => exact json_accepts d h
  | tests => exact json_accepts_tests d

/-! ### stage 4: prefixes -/

/-- **C17, JSON half, rejection (stage 4).**  Every *proper prefix* of a rendered document
    whose top level is an array or object and which is written without trailing whitespace is
    rejected by both bundled grammars under the specification of pest's semantics: for all
    sufficient fuel the run of `json` on the prefix answers `.fail` — not success, not "stuck",
    not "out of fuel".  (Lemmas/JsonPrefix*.lean: wherever the input ends — inside whitespace,
    a literal, a string or an escape, a number, between the items of a container, before a
    colon — the construct that is cut fails, or, for a number, stops early with number
    characters left over; the enclosing loop `("," ~ item)*` then stops where neither a comma
    nor the closing bracket can follow, so every enclosing container fails, up to `json`.) -/
theorem json_rejects_prefix (fl : Flavour) (d : Doc) (h : d.topLevelIsContainer) (hw : d.noTrailingWs)
    (q : Str) (hq : q <+: render d) (hne : q ≠ render d) :
    ∃ N, ∀ n, N ≤ n → L0.parse (grammarOf fl) q.toArray n "json" 0 = .fail := by
  cases fl with
  | examples => exact ex_parse_prefix_fail examplesJson_rules d h hw q hq hne
  | tests => exact t_parse_prefix_fail testsJson_rules d h hw q hq hne

/-- the hypotheses are met, e.g. by `exDoc` without its trailing line feed and its prefix
    ` [ -1.5e3 , { "a\n" : [ ]` (the closing `}` and `]` are missing) -/
example : ({ exDoc with w2 := [] } : Doc).noTrailingWs ∧
    (render { exDoc with w2 := [] }).take 25 <+: render { exDoc with w2 := [] } ∧
    (render { exDoc with w2 := [] }).take 25 ≠ render { exDoc with w2 := [] } := by
  refine ⟨rfl, List.take_prefix _ _, by decide⟩

/-! ## From the specification to the execution modes (models L1 = interpreter, LG = generated code)

  The theorems above are about L0.  C03 (`parse_agrees_with_spec`: L1 refines L0), C01/C07
  (`modes_agree`: LG = L1, no exception) and C02 (`optimizer_sound`: the optimized rule table
  means what the un-optimized one means) carry them to the models of the four execution modes.
  Their hypotheses are decidable checks on the rule table; they hold for both regenerated JSON
  tables and for their optimized versions (evaluated below), so nothing is assumed. -/

section Modes

/-- the rule table `Parser.from_grammar(text)` runs: the mirror of the optimizer with the
    exported default passes, applied to the regenerated table -/
def optOf (g : Grammar) : Grammar := (Opt.optimize g Opt.defaultPasses).getD g

-- the hypotheses of C01 / C02 / C03 / C07, for both regenerated tables and their optimized versions
example : C07.genShapeB Generated.examplesJson = true ∧ C07.genShapeB Generated.testsJson = true := by decide
example : C07.skipTotalB Generated.examplesJson = true ∧ C07.skipTotalB Generated.testsJson = true := by decide
example : C07.callable Generated.examplesJson "json" = true ∧ C07.callable Generated.testsJson "json" = true := by
  decide
example : OptS.wfCheck Generated.examplesJson = true ∧ OptS.wfCheck Generated.testsJson = true := by decide
example : WF.wellFormed Generated.examplesJson = true ∧ WF.wellFormed Generated.testsJson = true := by decide

theorem hyps_plain (fl : Flavour) :
    C07.GenShape (grammarOf fl) ∧ SkipTotal (grammarOf fl) ∧ C07.callable (grammarOf fl) "json" = true ∧
      C02.WF (grammarOf fl) := by
  cases fl with
  | examples =>
    exact ⟨C07.genShape_of_genShapeB (by decide), C07.skipTotal_of_skipTotalB (by decide), by decide,
      C02.wf_of_check (by decide)⟩
  | tests =>
    exact ⟨C07.genShape_of_genShapeB (by decide), C07.skipTotal_of_skipTotalB (by decide), by decide,
      C02.wf_of_check (by decide)⟩

theorem hyps_opt (fl : Flavour) :
    Opt.optimize (grammarOf fl) Opt.defaultPasses = some (optOf (grammarOf fl)) ∧
      C07.GenShape (optOf (grammarOf fl)) ∧ C07.callable (optOf (grammarOf fl)) "json" = true := by
  have key : ∀ g : Grammar, (Opt.optimize g Opt.defaultPasses).isSome = true →
      Opt.optimize g Opt.defaultPasses = some (optOf g) := by
    intro g hg
    unfold optOf
    cases ho : Opt.optimize g Opt.defaultPasses with
    | none => rw [ho] at hg; cases hg
    | some g' => rfl
  cases fl with
  | examples =>
    exact ⟨key _ (by decide +kernel), C07.genShape_of_genShapeB (by decide +kernel), by decide +kernel⟩
  | tests =>
    exact ⟨key _ (by decide +kernel), C07.genShape_of_genShapeB (by decide +kernel), by decide +kernel⟩

/-- interpreter and generated code on one rule table, from what the specification says:
    success with the pairs `ps0` (up to tags) -/
theorem models_of_spec_ok (g : Grammar) (inp : Input) (hgs : C07.GenShape g) (hsk : SkipTotal g)
    (hcall : C07.callable g "json" = true) (s : S0) (ps0 : List Pair)
    (h : ∃ N, ∀ n, N ≤ n → L0.parse g inp n "json" 0 = .ok s ps0) :
    ∃ N, ∀ n, N ≤ n →
      (∃ c ps, L1.parse g inp n "json" 0 = .done true c ps ∧ eraseTagsL ps = ps0 ∧ c.pos = s.pos) ∧
      (∃ c ps, LG.parse g inp n "json" 0 = .done true c ps ∧ eraseTagsL ps = ps0 ∧ c.pos = s.pos) := by
  obtain ⟨N, h⟩ := h
  refine ⟨N, fun n hn => ?_⟩
  have hc := C03.parse_agrees_with_spec g inp hsk n "json" 0
  rw [h n hn] at hc
  have hm := C07.modes_agree g inp hgs hsk "json" hcall n 0
  revert hc hm
  cases L1.parse g inp n "json" 0 with
  | oof => intro hc; exact absurd hc (by simp)
  | exc e => intro hc; exact absurd hc.2 (by simp)
  | done m c ps =>
    cases m with
    | false => intro hc; exact absurd hc.1 (by simp)
    | true =>
      intro hc hm
      obtain ⟨s1, h1, h2, _⟩ := hc
      simp only [R0.ok.injEq] at h1
      have hps : eraseTagsL ps = ps0 := h1.2.symm
      have hpos : c.pos = s.pos := by rw [← h2, h1.1]
      refine ⟨⟨c, ps, rfl, hps, hpos⟩, ?_⟩
      revert hm
      cases LG.parse g inp n "json" 0 with
      | oof => intro hm; exact absurd hm (by simp)
      | exc e => intro hm; exact absurd hm (by simp)
      | done mg cg psg =>
        cases mg with
        | false => intro hm; obtain ⟨c1, ps1, hm, _⟩ := hm; exact absurd hm (by simp)
        | true =>
          intro hm
          obtain ⟨c1, hm1, hm2⟩ := hm
          simp only [R1.done.injEq, true_and] at hm1
          obtain ⟨hcc, hpp⟩ := hm1
          exact ⟨cg, psg, rfl, by rw [← hpp]; exact hps, by rw [hm2, ← hcc]; exact hpos⟩

/-- … failure -/
theorem models_of_spec_fail (g : Grammar) (inp : Input) (hgs : C07.GenShape g) (hsk : SkipTotal g)
    (hcall : C07.callable g "json" = true)
    (h : ∃ N, ∀ n, N ≤ n → L0.parse g inp n "json" 0 = .fail) :
    ∃ N, ∀ n, N ≤ n →
      (∃ c, L1.parse g inp n "json" 0 = .done false c []) ∧
      (∃ c ps, LG.parse g inp n "json" 0 = .done false c ps) := by
  obtain ⟨N, h⟩ := h
  refine ⟨N, fun n hn => ?_⟩
  have hc := C03.parse_agrees_with_spec g inp hsk n "json" 0
  rw [h n hn] at hc
  have hm := C07.modes_agree g inp hgs hsk "json" hcall n 0
  revert hc hm
  cases L1.parse g inp n "json" 0 with
  | oof => intro hc; exact absurd hc (by simp)
  | exc e => intro hc; exact absurd hc.2 (by simp)
  | done m c ps =>
    cases m with
    | true => intro hc; obtain ⟨s1, h1, _⟩ := hc; exact absurd h1 (by simp)
    | false =>
      intro hc hm
      obtain ⟨_, hps⟩ := hc
      subst hps
      refine ⟨⟨c, rfl⟩, ?_⟩
      revert hm
      cases LG.parse g inp n "json" 0 with
      | oof => intro hm; exact absurd hm (by simp)
      | exc e => intro hm; exact absurd hm (by simp)
      | done mg cg psg =>
        cases mg with
        | true => intro hm; obtain ⟨c1, hm, _⟩ := hm; exact absurd hm (by simp)
        | false => intro _; exact ⟨cg, psg, rfl⟩

/-- what the specification says about the un-optimized table, it says about the optimized one -/
theorem spec_to_opt (fl : Flavour) (inp : Input) (r : R0) (hr : r ≠ .oof)
    (h : ∃ N, ∀ n, N ≤ n → L0.parse (grammarOf fl) inp n "json" 0 = r) :
    ∃ N, ∀ n, N ≤ n → L0.parse (optOf (grammarOf fl)) inp n "json" 0 = r := by
  obtain ⟨N, h⟩ := h
  obtain ⟨_, _, hcall, hwf⟩ := hyps_plain fl
  obtain ⟨hopt, _, _⟩ := hyps_opt fl
  have hdef : (grammarOf fl).lookup "json" ≠ none := by
    intro e; simp [C07.callable, e] at hcall
  have hconv : Conv (grammarOf fl) inp (.ident "json" none) (C02.s0 0) r :=
    ⟨N + 1, by rw [← C02.parse_eq_run]; exact h N (Nat.le_refl _), hr⟩
  have hconv' := (C02.optimizer_sound _ _ _ (fun p hp => hp) hwf hopt "json" hdef inp 0 (Nat.zero_le _) r).mp hconv
  obtain ⟨M, hM, _⟩ := hconv'
  refine ⟨M, fun n hn => ?_⟩
  rw [C02.parse_eq_run]
  exact Conv.mono _ inp hM hr (by omega)

/-- **C17, JSON half, acceptance — the four execution modes (models).**  For every document
    whose top level is a container, with every sufficient recursion budget: the interpreter on
    the un-optimized table (`interp`), the interpreter on the optimized table (`opt`), the code
    generated from the un-optimized table (`gen`) and from the optimized table (`optgen`) all
    return pairs, and — tags aside — exactly the tree `mirror`, ending at the end of the text. -/
theorem json_modes_accept (fl : Flavour) (d : Doc) (h : d.topLevelIsContainer) :
    ∃ N, ∀ n, N ≤ n →
      (∃ c ps, L1.parse (grammarOf fl) (render d).toArray n "json" 0 = .done true c ps ∧
        eraseTagsL ps = mirror fl d ∧ c.pos = (render d).length) ∧
      (∃ c ps, LG.parse (grammarOf fl) (render d).toArray n "json" 0 = .done true c ps ∧
        eraseTagsL ps = mirror fl d ∧ c.pos = (render d).length) ∧
      (∃ c ps, L1.parse (optOf (grammarOf fl)) (render d).toArray n "json" 0 = .done true c ps ∧
        eraseTagsL ps = mirror fl d ∧ c.pos = (render d).length) ∧
      (∃ c ps, LG.parse (optOf (grammarOf fl)) (render d).toArray n "json" 0 = .done true c ps ∧
        eraseTagsL ps = mirror fl d ∧ c.pos = (render d).length) := by
  have hspec := json_accepts_both fl d h
  obtain ⟨hgs, hsk, hcall, hwf⟩ := hyps_plain fl
  obtain ⟨hopt, hgs', hcall'⟩ := hyps_opt fl
  have hsk' : SkipTotal (optOf (grammarOf fl)) :=
    C02.optimized_skip_total _ _ _ (fun p hp => hp) hwf hopt
  obtain ⟨N1, h1⟩ := models_of_spec_ok _ _ hgs hsk hcall _ _ hspec
  obtain ⟨N2, h2⟩ := models_of_spec_ok _ _ hgs' hsk' hcall' _ _ (spec_to_opt fl _ _ (by simp) hspec)
  exact ⟨max N1 N2, fun n hn => ⟨(h1 n (by omega)).1, (h1 n (by omega)).2, (h2 n (by omega)).1, (h2 n (by omega)).2⟩⟩

/-- **C17, JSON half, rejection — the four execution modes (models).**  Every proper prefix of
    such a document (written without trailing whitespace) makes all four raise
    `PestParsingError` (`.done false`), with every sufficient recursion budget. -/
theorem json_modes_reject_prefix (fl : Flavour) (d : Doc) (h : d.topLevelIsContainer) (hw : d.noTrailingWs)
    (q : Str) (hq : q <+: render d) (hne : q ≠ render d) :
    ∃ N, ∀ n, N ≤ n →
      (∃ c, L1.parse (grammarOf fl) q.toArray n "json" 0 = .done false c []) ∧
      (∃ c ps, LG.parse (grammarOf fl) q.toArray n "json" 0 = .done false c ps) ∧
      (∃ c, L1.parse (optOf (grammarOf fl)) q.toArray n "json" 0 = .done false c []) ∧
      (∃ c ps, LG.parse (optOf (grammarOf fl)) q.toArray n "json" 0 = .done false c ps) := by
  have hspec := json_rejects_prefix fl d h hw q hq hne
  obtain ⟨hgs, hsk, hcall, hwf⟩ := hyps_plain fl
  obtain ⟨hopt, hgs', hcall'⟩ := hyps_opt fl
  have hsk' : SkipTotal (optOf (grammarOf fl)) :=
    C02.optimized_skip_total _ _ _ (fun p hp => hp) hwf hopt
  obtain ⟨N1, h1⟩ := models_of_spec_fail _ _ hgs hsk hcall hspec
  obtain ⟨N2, h2⟩ := models_of_spec_fail _ _ hgs' hsk' hcall' (spec_to_opt fl _ _ (by simp) hspec)
  exact ⟨max N1 N2, fun n hn => ⟨(h1 n (by omega)).1, (h1 n (by omega)).2, (h2 n (by omega)).1, (h2 n (by omega)).2⟩⟩

end Modes

/-! ### what remains

  Nothing is OPEN in this file.  What the theorems do *not* say, and what covers it on every run:
    * L1, LG and `Opt` are hand-written models of the interpreter, of the generated code and of the
      optimizer; they are tied to the real code by the correspondence runs of C01–C04 (and, for the two
      JSON grammars in particular, by harness/eng_examples.py: the real parsers in the four modes against
      `mirror` through the driver, on generated documents and all their prefixes);
    * "mirrors json.loads": `mirror` is a statement about the document as written; that the spans it
      assigns decode to the values `json.loads` returns (numbers as floats, strings via the escapes) is
      checked by the harness on every generated document, not proved (there is no model of `json.loads`);
    * `Doc`/`render` is this file's reading of RFC 8259; the harness checks it against Python's `json`
      module on every generated document;
    * recursion budgets: "for all sufficient fuel" — Python's recursion limit is not modelled.
-/

end C17
end Pest
