/-
  Props/C17.lean — property C17:
  "Bundled JSON and calculator languages agree with independent references".

    Every RFC 8259 JSON document whose top level is an array or object is accepted by the
    bundled JSON grammars in every execution mode and its parse tree mirrors json.loads …
    while every proper prefix of such a document (written without trailing whitespace) is
    rejected.  For every arithmetic expression over integers, variables, + - * / ^, unary
    minus, factorial and parentheses, the three bundled calculator implementations
    (precedence climbing, Pratt, grammar-encoded precedence) evaluate to the same value,
    which is the value an independent evaluator using the documented precedence table gives.

  ── Calculator half (models: `Calc.lean`; lemmas: `Lemmas/Calc.lean`) ── PROVED, for all
  well-formed token lists of any length and nesting depth:

    `calc_three_agree`   precClimb ts = pratt ts ∧ pratt ts = encoded ts ∧ pratt ts = reference ts
    `calc_total`         … and that common answer is an AST (no implementation raises)
    `calc_values_agree`  hence equal values (`eval` is a function of the AST)

  The proof does not compare algorithms pairwise.  It shows that the tree the *grammar*
  builds (`encodedTree`: nest by grammar_encoded_prec.pest, walk as grammar_encoded_prec.py)
  is `Good` — in the sense of C18's specification — for **every** calculator-shaped table
  whose five levels are in the documented order (`Lemmas/Calc.encodedTree_spec`).  By C18
  (`pratt_complete`, `good_unique`) it is therefore what the Pratt algorithm returns on any
  such table (`levels_parse_eq_encoded`).  The regenerated tables of pratt.py and of
  prec_climber.py are such tables (`prattTable_levels`, `climbTable_levels`,
  `…_documented`, by evaluation of the regenerated literals: they are compared by *order*,
  not number for number), the climbing loop is the Pratt loop on its own table
  (`Lemmas/Calc.climbExpr_eq`, structural), and the reference is by definition the `Good`
  tree of the documented table `docTable`.  An edit of either table that changes the order
  of two levels, of an associativity, or of the grammar-encoded nesting breaks one of these
  theorems at the next run.

  ── JSON half (model: `Json.lean`; regenerated grammar terms: `Generated/JsonGrammars.lean`;
  lemmas: `Lemmas/Ev.lean` big-step rules of L0, `Lemmas/Json.lean` tokens, `Lemmas/JsonDoc.lean`
  and `Lemmas/JsonDocTests.lean` values and documents) ── against the specification L0 of
  pest's semantics, about the regenerated rule tables of BOTH bundled grammars:

    PROVED  stage 1  `json_number_accepts[_tests]`, `json_string_accepts[_tests]`
                     every RFC 8259 number / string, any spelling, is one token with the right pair(s)
    PROVED  stage 2  `json_value_accepts[_tests]`   every value, any nesting depth, any whitespace
    PROVED  stage 3  `json_accepts`, `json_accepts_tests`, `json_accepts_both`
                     every document with a container at top level is accepted with the tree `mirror`
    OPEN    stage 4  `json_rejects_prefix`          (full statement at the end of the file)

  All for all documents and inputs of any size; `∃ N, ∀ n ≥ N` = for all sufficient fuel.
  Because one theorem is OPEN, and because the theorems are about the *specification* (the
  step to the four execution modes is C01–C04's), the engine reports C17 at level "other" and
  keeps running the failing-input search and the executable specification on every run.
-/
import PestModel.Lemmas.Calc
import PestModel.Lemmas.Json
import PestModel.Lemmas.JsonDoc
import PestModel.Lemmas.JsonDocTests
import PestModel.Props.C18
import PestModel.Json
import PestModel.Spec
import PestModel.Generated.JsonGrammars

namespace Pest
namespace C17
open Pratt Calc

/-! ## Calculator -/

/-! ### the regenerated tables are calculator-shaped tables in the documented order -/

/-- `CalculatorParser.PREFIX_OPS / POSTFIX_OPS / INFIX_OPS` is the calculator-shaped table of
    the five levels read off it: `neg` is the only prefix and `fac` the only postfix operator,
    `add`/`sub` share a level, `mul`/`div` share a level, these four are left-associative and
    `pow` is right-associative, and no other rule name is declared. -/
theorem prattTable_levels : prattTable = prattLevels.table := by
  show Table.mk _ _ _ = Table.mk _ _ _
  congr 1 <;> funext t <;> cases t <;> first | decide | rfl

/-- + - < * / < ^ < prefix - < postfix !  in pratt.py -/
theorem prattLevels_documented : prattLevels.Ordered := by decide

/-- the tables of prec_climber.py (`PRECEDENCES`, `Precedence.PRE`, the four operator sets)
    likewise -/
theorem climbTable_levels : climbCfg.table = climbLevels.table := by
  show Table.mk _ _ _ = Table.mk _ _ _
  congr 1 <;> funext t <;> cases t <;> first | decide | rfl

/-- the same order in prec_climber.py, and `Precedence.LOWEST` is below every operator -/
theorem climbLevels_documented : climbLevels.Ordered ∧ climbCfg.lowest ≤ climbLevels.add := by decide

theorem docLevels_documented : docLevels.Ordered := by decide

/-! ### one tree for every documented table -/

theorem cwf_wf (L : Levels) : ∀ (ts : List Tok) (b : Bool), cwf b ts = true → wf L.table b ts = true
  | [], b, h => by cases b <;> simp_all [cwf, wf]
  | t :: ts, true, h => by
    cases t <;> simp_all [cwf, wf, Levels.table, Tok.isPrimary] <;> exact cwf_wf L ts _ (by assumption)
  | t :: ts, false, h => by
    cases t <;> simp_all [cwf, wf, Levels.table, Tok.isInfix] <;> exact cwf_wf L ts _ (by assumption)

/-- **Grammar-encoded precedence = declared precedence.**  For every calculator-shaped table
    whose levels are in the documented order and every well-formed token list, the Pratt
    algorithm consumes the list and returns exactly the tree that nesting by
    grammar_encoded_prec.pest and walking it as grammar_encoded_prec.py yields. -/
theorem levels_parse_eq_encoded (L : Levels) (hL : L.Ordered) (ts : List Tok) (hw : cwf true ts = true) :
    ∃ t, encodedTree ts = some t ∧ parseExpr L.table ts = .ok t [] ∧ t.flatten = ts ∧ Shape t := by
  obtain ⟨t, h1, h2, h3⟩ := encodedTree_spec L hL ts hw
  refine ⟨t, h1, ?_, h2, h3.shape⟩
  have := C18.pratt_complete L.table t (shape_lex L t h3.shape) h3.good
  rwa [h2] at this

/-- (b) = (c) -/
theorem prattTree_eq_encodedTree (ts : List Tok) (hw : cwf true ts = true) :
    prattTree ts = encodedTree ts := by
  obtain ⟨t, h1, h2, _⟩ := levels_parse_eq_encoded prattLevels prattLevels_documented ts hw
  rw [h1, prattTree, prattTable_levels, h2]

/-- **The climbing loop on any documented table.**  Whatever numbers prec_climber.py uses, as
    long as its tables form a calculator-shaped table in the documented order and
    `Precedence.LOWEST` is not above the weakest operator, `parse_program` builds the
    grammar-encoded tree. -/
theorem climb_eq_pratt_of_table (C : ClimbCfg) (L : Levels) (hT : C.table = L.table) (hL : L.Ordered)
    (hlow : C.lowest ≤ L.add) (ts : List Tok) (hw : cwf true ts = true) :
    climbTreeOf C ts = encodedTree ts := by
  obtain ⟨t, h1, h2, h3⟩ := encodedTree_spec L hL ts hw
  have hwf : wf C.table true ts = true := by rw [hT]; exact cwf_wf L ts true hw
  have hc := expr_complete L.table (ts.length + 1) t C.lowest [] (shape_lex L t h3.shape) h3.good
    (fun x hx => by have := h3.le x hx; omega) (fun P hP => by simp [nextL] at hP)
    (by simp [h2])
  simp only [List.append_nil, h2] at hc
  rw [h1, climbTreeOf, climbExpr_eq C _ _ _ hwf, hT, hc]
  rfl

/-- (a) = (b) -/
theorem climbTree_eq_prattTree (ts : List Tok) (hw : cwf true ts = true) :
    climbTree ts = prattTree ts := by
  rw [prattTree_eq_encodedTree ts hw]
  exact climb_eq_pratt_of_table climbCfg climbLevels climbTable_levels climbLevels_documented.1
    climbLevels_documented.2 ts hw

/-- (d): among *all* trees over the tokens, the grammar-encoded tree is the one and only tree
    that reads every token in its role and is `Good` for the documented table; so it is what
    the enumerate-and-filter reference finds. -/
theorem refTree_spec (ts : List Tok) (hw : cwf true ts = true) :
    refTree ts = encodedTree ts ∧
      ∀ t', t' ∈ Pratt.reference docTable ts ↔ some t' = encodedTree ts := by
  obtain ⟨t, h1, h2, _, _⟩ := levels_parse_eq_encoded docLevels docLevels_documented ts hw
  have hall := C18.reference_eq docTable ts t h2
  have hmem : ∀ t', t' ∈ Pratt.reference docTable ts ↔ some t' = encodedTree ts := by
    intro t'; rw [hall t', h1]; constructor
    · rintro rfl; rfl
    · intro h; injection h
  refine ⟨?_, hmem⟩
  rw [refTree, h1]
  cases hr : Pratt.reference docTable ts with
  | nil => have := (hall t).mpr rfl; simp [hr] at this
  | cons x xs =>
    have : x = t := (hall x).mp (by simp [hr])
    simp [this]

/-- the four tree builders agree on every well-formed token list -/
theorem calc_trees_agree (ts : List Tok) (hw : cwf true ts = true) :
    climbTree ts = prattTree ts ∧ prattTree ts = encodedTree ts ∧ prattTree ts = refTree ts :=
  ⟨climbTree_eq_prattTree ts hw, prattTree_eq_encodedTree ts hw,
    (prattTree_eq_encodedTree ts hw).trans (refTree_spec ts hw).1.symm⟩

/-! ### from trees to ASTs, through every level of parentheses -/

theorem implAt_eq_encoded (tree : List Tok → Option T)
    (h : ∀ ts, cwf true ts = true → tree ts = encodedTree ts) :
    ∀ (f : Nat) (ts : List Tok), cwf true ts = true → deepWfL ts = true →
      implAt tree f ts = implAt encodedTree f ts := by
  intro f
  induction f with
  | zero => intro ts _ _; rfl
  | succ f ih =>
    intro ts hw hd
    simp only [implAt]
    rw [h ts hw]
    obtain ⟨t, h1, h2, _⟩ := encodedTree_spec docLevels docLevels_documented ts hw
    rw [h1]
    simp only [Option.bind_some]
    apply build_congr
    intro c hc
    rw [h2] at hc
    obtain ⟨hcw, hcd⟩ := deepWf_mem ts c hd hc
    exact ih c hcw hcd

/-- **C17, calculator half.**  For every well-formed token list — integers, variables, the
    five binary operators, unary minus and factorial (also repeated), parentheses nested to
    any depth — the three bundled implementations build the same AST, and it is the AST of
    the reference for the documented precedence table. -/
theorem calc_three_agree (ts : List Tok) (h : WellFormed ts) :
    precClimb ts = pratt ts ∧ pratt ts = encoded ts ∧ pratt ts = reference ts := by
  obtain ⟨hw, hd⟩ := h
  have e1 := implAt_eq_encoded climbTree
    (fun ts hw => (climbTree_eq_prattTree ts hw).trans (prattTree_eq_encodedTree ts hw)) (depthL ts + 1) ts hw hd
  have e2 := implAt_eq_encoded prattTree prattTree_eq_encodedTree (depthL ts + 1) ts hw hd
  have e3 := implAt_eq_encoded refTree (fun ts hw => (refTree_spec ts hw).1) (depthL ts + 1) ts hw hd
  exact ⟨e1.trans e2.symm, e2, e2.trans e3.symm⟩

theorem implAt_total :
    ∀ (f : Nat) (ts : List Tok), depthL ts < f → cwf true ts = true → deepWfL ts = true →
      ∃ a, implAt encodedTree f ts = some a := by
  intro f
  induction f with
  | zero => intro ts h; omega
  | succ f ih =>
    intro ts hdep hw hd
    obtain ⟨t, h1, h2, h3⟩ := encodedTree_spec docLevels docLevels_documented ts hw
    simp only [implAt, h1, Option.bind_some]
    apply build_total _ t h3.shape
    intro c hc
    rw [h2] at hc
    obtain ⟨hcw, hcd⟩ := deepWf_mem ts c hd hc
    have := depth_mem ts c hc
    exact ih c (by omega) hcw hcd

/-- no implementation raises on a well-formed token list: the common answer is an AST -/
theorem calc_total (ts : List Tok) (h : WellFormed ts) : ∃ a, pratt ts = some a := by
  obtain ⟨a, ha⟩ := implAt_total (depthL ts + 1) ts (Nat.lt_succ_self _) h.1 h.2
  exact ⟨a, by rw [(calc_three_agree ts h).2.1]; exact ha⟩

/-- equal ASTs, equal values: under every environment the three implementations and the
    reference evaluate to the same result (a number, or the same failure) -/
theorem calc_values_agree (ts : List Tok) (h : WellFormed ts) (env : String → Option Int) :
    (precClimb ts).map (eval env) = (pratt ts).map (eval env) ∧
    (pratt ts).map (eval env) = (encoded ts).map (eval env) ∧
    (pratt ts).map (eval env) = (reference ts).map (eval env) := by
  obtain ⟨h1, h2, h3⟩ := calc_three_agree ts h
  exact ⟨by rw [h1], by rw [h2], by rw [h3]⟩

/-! ### the hypotheses are satisfiable, the readings are the documented ones, and the pinned
    climbing loop violates the property -/

section Examples

/-- `-2^2 = (-2)^2`, `-3! = -(3!)`, `2^3! = 2^(3!)`, `2^-3^2 = 2^((-3)^2)`, `1-2-3 = (1-2)-3` -/
example : pratt [.neg, .int 2, .pow, .int 2] = some (.bin .pow (.neg (.int 2)) (.int 2)) := by decide
example : pratt [.neg, .int 3, .fac] = some (.neg (.fac (.int 3))) := by decide
example : precClimb [.int 2, .pow, .int 3, .fac] = some (.bin .pow (.int 2) (.fac (.int 3))) := by decide
example : encoded [.int 2, .pow, .neg, .int 3, .pow, .int 2]
    = some (.bin .pow (.int 2) (.bin .pow (.neg (.int 3)) (.int 2))) := by decide
example : precClimb [.int 1, .sub, .int 2, .sub, .int 3]
    = some (.bin .sub (.bin .sub (.int 1) (.int 2)) (.int 3)) := by decide
example : reference [.int 1, .sub, .paren [.int 2, .sub, .int 3], .fac]
    = some (.bin .sub (.int 1) (.fac (.bin .sub (.int 2) (.int 3)))) := by decide
example : WellFormed [.neg, .neg, .var "x", .fac, .fac, .mul, .paren [.int 1, .add, .paren [.int 2]]] := by decide
example : ¬ WellFormed [.int 1, .add] ∧ ¬ WellFormed [.paren []] ∧ ¬ WellFormed [.int 1, .int 2] := by decide
example : eval (fun _ => none) (.bin .sub (.bin .sub (.int 1) (.int 2)) (.int 3)) = some (-4) := by decide

/-- the loop of the pinned commit: every operator climbed with its own precedence (so
    left-associative chains group to the right), postfix operators only after the last infix
    operator of the activation -/
def climbLoopOld (C : ClimbCfg) (rec : List Tok → Nat → CRes) (prec : Nat) : Nat → T → List Tok → CRes
  | 0, _, _ => .fuel
  | g + 1, left, ts =>
    match ts with
    | [] => .ok left []
    | tok :: ts' =>
      if C.isInfix tok then
        if C.precOf tok ≥ prec then
          match rec ts' (C.precOf tok) with
          | .ok right ts'' => climbLoopOld C rec prec g (.bin left tok right) ts''
          | e => e
        else .ok left (tok :: ts')
      else if C.isPostfix tok then
        -- the second `while`: postfix operators, then nothing else may follow
        let rec facs : Nat → T → List Tok → CRes
          | 0, _, _ => .fuel
          | _ + 1, l, [] => .ok l []
          | k + 1, l, t :: r => if C.isPostfix t then facs k (.post l t) r else .unexpected
        facs (g + 1) left (tok :: ts')
      else .unexpected

def climbExprOld (C : ClimbCfg) : Nat → List Tok → Nat → CRes
  | 0 => fun _ _ => .fuel
  | f + 1 => fun ts prec =>
    match ts with
    | [] => .eof
    | tok :: ts' =>
      if C.isPrefix tok then
        match climbExprOld C f ts' C.pre with
        | .ok r ts'' => climbLoopOld C (climbExprOld C f) prec f (.pre tok r) ts''
        | e => e
      else climbLoopOld C (climbExprOld C f) prec f (.leaf tok) ts'

def climbTreeOld (ts : List Tok) : Option T :=
  match climbExprOld climbCfg (ts.length + 1) ts climbCfg.lowest with
  | .ok t _ => some t
  | _ => none

/-- **the pinned prec_climber.py violates C17**: `1 - 2 - 3` is grouped to the right and
    `2! * 3` is refused; the repaired loop and the other implementations agree on both. -/
example : climbTreeOld [.int 1, .sub, .int 2, .sub, .int 3]
      = some (.bin (.leaf (.int 1)) .sub (.bin (.leaf (.int 2)) .sub (.leaf (.int 3)))) ∧
    prattTree [.int 1, .sub, .int 2, .sub, .int 3]
      = some (.bin (.bin (.leaf (.int 1)) .sub (.leaf (.int 2))) .sub (.leaf (.int 3))) ∧
    climbTreeOld [.int 2, .fac, .mul, .int 3] = none ∧
    climbTree [.int 2, .fac, .mul, .int 3] = prattTree [.int 2, .fac, .mul, .int 3] ∧
    (prattTree [.int 2, .fac, .mul, .int 3]).isSome = true := ⟨by rfl, by rfl, by rfl, by rfl, by rfl⟩

end Examples

/-! ## JSON

  Stages 1–3 (tokens, values, documents) are proved for both bundled grammars; stage 4 (prefix
  rejection) is OPEN. -/

open Json L0

/-- the text of a document is as long as its pieces (used by `mirror` for the spans) -/
theorem render_length (d : Doc) :
    (render d).length = d.w1.length + d.v.text.length + d.w2.length := by
  simp [render, wsText]; omega

/-! ### the regenerated rule tables contain the terms the lemmas are about -/

/-- `number` of examples/json/json.pest, as regenerated from the working tree, is the atomic
    rule whose body `Lemmas/Json.lean` reasons about -/
theorem examplesJson_number :
    Generated.examplesJson.lookup "number"
      = some { name := "number", mod := 4, body := exNumberBody, kind := .grammar } := by rfl

/-- `string` (compound-atomic), `inner` (atomic), `char` of examples/json/json.pest likewise -/
theorem examplesJson_string_rules : ExStringRules Generated.examplesJson :=
  ⟨⟨.grammar, by rfl⟩, ⟨.grammar, by rfl⟩, ⟨.grammar, by rfl⟩⟩

/-! ### stage 1: tokens -/

/-- **Every RFC 8259 number is one `number` token (examples/json/json.pest).**  From any
    state — atomic or not, any stack — at any position of any input that continues with the
    text of a number `n` (any spelling: sign, `0` or digits without leading zero, optional
    fraction, optional exponent with either case of `e` and optional sign) followed by
    something that does not extend it (not a digit, `.`, `e`, `E`; in a document: whitespace,
    `,`, `]`, `}` or the end), the rule `number` succeeds, consumes exactly the text of `n`,
    and yields exactly one childless pair `number` over it.  (`Conv`: for all sufficient fuel.) -/
theorem json_number_accepts (inp : Input) (s : S0) (n : Num) (post : Str)
    (hr : inp.toList.drop s.pos = numText n ++ post) (hf : HeadIs NumFollow post) :
    Conv Generated.examplesJson inp (.ident "number" none) s
      (.ok { s with pos := s.pos + (numText n).length }
        [mkPair "number" ATOMIC s.pos (s.pos + (numText n).length) []]) :=
  (ev_exNumber examplesJson_number s n hr hf).conv (by simp)

/-- **Every RFC 8259 string is one `string` token whose `inner` pair is the raw source slice
    (examples/json/json.pest).**  From any state, at any position of any input that continues
    with a string as written — raw characters `%x20-21 / %x23-5B / %x5D-10FFFF`, the eight
    two-character escapes, `\uXXXX` with hex digits of either case — the rule `string`
    succeeds, consumes exactly the quoted token, and yields the pair `string` over it with the
    single childless child `inner` spanning what stands between the quotes
    (`mirrorStr .examples`: the tree `Json.mirror` expects). -/
theorem json_string_accepts (inp : Input) (s : S0) (cs : SStr) (post : Str)
    (hr : inp.toList.drop s.pos = strText cs ++ post) :
    Conv Generated.examplesJson inp (.ident "string" none) s
      (.ok { s with pos := s.pos + (strText cs).length } [mirrorStr .examples s.pos cs]) :=
  (ev_exString examplesJson_string_rules s cs hr).conv (by simp)

/-- the hypotheses are met: `-12.50E+3` followed by `,`, from a non-atomic state at offset 1 -/
example :
    let n : Num := { neg := true, int := .nonzero 0 [2], frac := some (5, [0]),
                     exp := some { upper := true, sign := .plus, d := 3, ds := [] } }
    let inp : Input := (91 :: (numText n ++ [44, 49, 93])).toArray
    inp.toList.drop 1 = numText n ++ [44, 49, 93] ∧ HeadIs NumFollow [44, 49, 93] ∧
      numText n = [45, 49, 50, 46, 53, 48, 69, 43, 51] := by
  refine ⟨rfl, ?_, rfl⟩
  show ¬ IsDigit 44 ∧ (44 : CP) ≠ 46 ∧ (44 : CP) ≠ 101 ∧ (44 : CP) ≠ 69
  unfold IsDigit; decide

/-- `"a\"\u00e9"` : a raw character, an escape, a `\u` escape with mixed-case hex digits -/
example : strText [.raw 97 (by decide), .esc .quote, .u (.dig 0) (.dig 0) (.lower 4) (.dig 9)]
    = [34, 97, 92, 34, 92, 117, 48, 48, 101, 57, 34] := rfl

/-- `number`, `int`, `exp` of tests/grammars/json.pest, as regenerated -/
theorem testsJson_number_rules : TNumberRules Generated.testsJson :=
  ⟨⟨.grammar, by rfl⟩, ⟨.grammar, by rfl⟩, ⟨.grammar, by rfl⟩⟩

/-- `string`, `inner` (recursive), `escape`, `unicode` of tests/grammars/json.pest -/
theorem testsJson_string_rules : TStringRules Generated.testsJson :=
  ⟨⟨.grammar, by rfl⟩, ⟨.grammar, by rfl⟩, ⟨.grammar, by rfl⟩, ⟨.grammar, by rfl⟩⟩

/-- **Every RFC 8259 number is one `number` token (tests/grammars/json.pest)**: same statement
    as `json_number_accepts`; the pairs of the nested atomic rules `int` and `exp` are hidden. -/
theorem json_number_accepts_tests (inp : Input) (s : S0) (n : Num) (post : Str)
    (hr : inp.toList.drop s.pos = numText n ++ post) (hf : HeadIs NumFollow post) :
    Conv Generated.testsJson inp (.ident "number" none) s
      (.ok { s with pos := s.pos + (numText n).length }
        [mkPair "number" ATOMIC s.pos (s.pos + (numText n).length) []]) :=
  (ev_tNumber testsJson_number_rules s n hr hf).conv (by simp)

/-- **Every RFC 8259 string is one childless `string` token spanning the quotes
    (tests/grammars/json.pest)**; `inner` recurses once per escape. -/
theorem json_string_accepts_tests (inp : Input) (s : S0) (cs : SStr) (post : Str)
    (hr : inp.toList.drop s.pos = strText cs ++ post) :
    Conv Generated.testsJson inp (.ident "string" none) s
      (.ok { s with pos := s.pos + (strText cs).length } [mirrorStr .tests s.pos cs]) :=
  (ev_tString testsJson_string_rules s cs hr).conv (by simp)

/-! ### stages 2 and 3 for examples/json/json.pest: values and documents -/

/-- the whole regenerated rule table of examples/json/json.pest is the table
    `Lemmas/JsonDoc.lean` reasons about: implicit trivia is `WHITESPACE = _{ " " | "\t" | "\r" | "\n" }`
    only (no COMMENT, no fused SKIP), `json = _{ SOI ~ (object | array) ~ EOI }`, `value` silent, … -/
theorem examplesJson_rules : ExDocRules Generated.examplesJson where
  ws := ⟨⟨.grammar, by rfl⟩, by rfl, by rfl⟩
  strs := examplesJson_string_rules
  number := by rfl
  object := by rfl
  array := by rfl
  pair := by rfl
  value := by rfl
  boolean := by rfl
  null := by rfl
  json := by rfl
  eoi := by rfl

/-- **Stage 2: every RFC 8259 value (examples/json/json.pest).**  From any non-atomic state, at
    any position of any input that continues with the text of a value `v` — scalars in any
    spelling, arrays and objects nested to any depth, whitespace at every legal place, empty
    containers, duplicate names — followed by whitespace, `,`, `]`, `}` or the end, `value`
    succeeds, consumes exactly the text of `v`, and yields exactly `v.mirror` (the pairs
    `object[pair[string[inner], …]…]`, `array[…]`, `string[inner]`, `number`, `boolean`,
    `null` with the spans of the source). -/
theorem json_value_accepts (inp : Input) (v : Val) (s : S0) (post : Str) (hna : s.atomic = false)
    (hr : inp.toList.drop s.pos = v.text ++ post) (hf : HeadIs ValFollow post) :
    Conv Generated.examplesJson inp (.ident "value" none) s
      (.ok { s with pos := s.pos + v.text.length } [v.mirror .examples s.pos]) :=
  (val_ok examplesJson_rules v s post hna hr hf).conv (by simp)

/-- **Stage 3: `json_accepts` for examples/json/json.pest.**  For *every* RFC 8259 document
    whose top level is an array or object, written in any way the RFC allows, the
    specification of pest run on the regenerated grammar accepts the whole text and returns
    exactly the tree `mirror` (same nesting and member order as the document, number and
    string tokens spanning exactly their source text), for all sufficient fuel. -/
theorem json_accepts (d : Doc) (h : d.topLevelIsContainer) :
    ∃ N, ∀ n, N ≤ n →
      L0.parse Generated.examplesJson (render d).toArray n "json" 0
        = .ok ⟨(render d).length, [], false⟩ (mirror .examples d) :=
  parse_json_doc examplesJson_rules d h

/-- a concrete instance: ` [ -1.5e3 , { "a\n" : [ ] } ] ` with whitespace at every legal place -/
def exDoc : Doc :=
  { w1 := [.space],
    v := .arr (.cons [.space] (.num { neg := true, int := .nonzero 0 [], frac := some (5, []),
                                      exp := some { upper := false, sign := .none, d := 3, ds := [] } }) [.tab]
          (.one [.lf] (.obj (.one [.space] [.raw 97 (by decide), .esc .n] [.space] [.cr] (.arr0 [.space]) [.space]))
            [.space])),
    w2 := [.lf] }

example : exDoc.topLevelIsContainer := rfl
example : render exDoc = [32, 91, 32, 45, 49, 46, 53, 101, 51, 9, 44, 10, 123, 32, 34, 97, 92, 110, 34, 32, 58, 13,
    91, 32, 93, 32, 125, 32, 93, 10] := by decide

/-! ### stages 2 and 3 for tests/grammars/json.pest -/

/-- the whole regenerated rule table of tests/grammars/json.pest: `json = { SOI ~ value ~ EOI }`,
    `value = { string | number | object | array | bool | null }` (a normal rule), the non-empty
    alternative of `object` / `array` first, the same trivia -/
theorem testsJson_rules : TDocRules Generated.testsJson where
  ws := ⟨⟨.grammar, by rfl⟩, by rfl, by rfl⟩
  strs := testsJson_string_rules
  nums := testsJson_number_rules
  object := by rfl
  array := by rfl
  pair := by rfl
  value := by rfl
  bool := by rfl
  null := by rfl
  json := by rfl
  eoi := by rfl

/-- stage 2 for tests/grammars/json.pest: as `json_value_accepts`, every value wrapped in a
    `value` pair -/
theorem json_value_accepts_tests (inp : Input) (v : Val) (s : S0) (post : Str) (hna : s.atomic = false)
    (hr : inp.toList.drop s.pos = v.text ++ post) (hf : HeadIs ValFollow post) :
    Conv Generated.testsJson inp (.ident "value" none) s
      (.ok { s with pos := s.pos + v.text.length } [v.mirror .tests s.pos]) :=
  (tval_ok testsJson_rules v s post hna hr hf).conv (by simp)

/-- **Stage 3: `json_accepts` for tests/grammars/json.pest.**  Every RFC 8259 document (this
    grammar does not even need the top level to be a container) is accepted, with exactly the
    tree `mirror .tests`: `json[value[…], EOI]`. -/
theorem json_accepts_tests (d : Doc) :
    ∃ N, ∀ n, N ≤ n →
      L0.parse Generated.testsJson (render d).toArray n "json" 0
        = .ok ⟨(render d).length, [], false⟩ (mirror .tests d) :=
  parse_tjson_doc testsJson_rules d

/-- the regenerated grammar term of a flavour -/
def grammarOf : Flavour → Grammar
  | .examples => Generated.examplesJson
  | .tests => Generated.testsJson

/-- **C17, JSON half, acceptance.**  Every RFC 8259 JSON document whose top level is an array or
    object — every way of writing it — is accepted by both bundled grammars under the
    specification of pest's semantics, and the parse tree is `mirror`: the nesting and member
    order of the document, every number token spanning exactly the number as written, every
    string token (its `inner` pair, resp. its span minus the quotes) exactly the raw source
    slice. -/
theorem json_accepts_both (fl : Flavour) (d : Doc) (h : d.topLevelIsContainer) :
    ∃ N, ∀ n, N ≤ n →
      L0.parse (grammarOf fl) (render d).toArray n "json" 0
        = .ok ⟨(render d).length, [], false⟩ (mirror fl d) := by
  cases fl with
  | examples => exact json_accepts d h
  | tests => exact json_accepts_tests d

/-! ### OPEN

  -- OPEN (stage 4, prefixes, both grammars):
  --   theorem json_rejects_prefix (fl : Flavour) (d : Doc) (h : d.topLevelIsContainer) (hw : d.noTrailingWs)
  --       (q : Str) (hq : q <+: render d) (hne : q ≠ render d) :
  --       ∃ N, ∀ n, N ≤ n → L0.parse (grammarOf fl) q.toArray n "json" 0 = .fail
  --   Acceptance is proved by exhibiting the one successful path; rejection has to close *every* path at
  --   every cut point of every construct (or go through a soundness theorem "what `json` accepts is balanced").
  --   `Lemmas/Ev.lean` has the failure rules; the case analysis is not done.
  --
  -- What the theorems above do not cover, and what covers it on every run:
  --   * prefix rejection: evaluated with the compiled model on generated documents (driver request
  --     `J prefixes`: `L0.parse` on every proper prefix), and checked on the implementation in all modes;
  --   * the step from the L0 specification to the four execution modes of the implementation: that is the
  --     content of properties C01–C04 (interpreter ⊑ specification, generated code ≈ interpreter, optimizer
  --     preserves meaning); here it is checked directly by the failing-input search of
  --     harness/eng_examples.py (both grammars × four modes against `mirror` and against Python's `json`);
  --   * "mirrors json.loads": `mirror` is a statement about the document as written; that the spans it
  --     assigns decode to the values `json.loads` returns is checked by the harness on every generated document.
-/

end C17
end Pest
