import PestModel.Calc
import PestModel.Json
import PestModel.Spec
import PestModel.Lemmas.Pratt
import PestModel.Props.C18
import PestModel.Generated.JsonGrammars

namespace Pest
namespace C17
open Pratt Calc

theorem prattLevels_documented : prattLevels.Ordered := by decide

end C17
end Pest
